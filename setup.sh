#!/bin/sh
# Offline build of the framework from files on disk: Lean model, proofs, compiled driver; Cython extension cache.
cd "$(dirname "$0")" || exit 2
(cd lean && lake build) || exit 1
/venv/bin/python -W ignore -c "from harness import extbuild; print(extbuild.build())" || exit 1
