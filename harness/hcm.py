"""Shared implementation-side code for C04 / C05 / C10: runs the real FKMNonlinearDetector with stub
notch laws and canonicalises the recorder's collective.

The stub laws are exact in double arithmetic on what the checks feed: integer loads (small levels, and
the near-tie levels around 1e6 / 5e5 of NEAR_TIE_LEVELS, whose products stay far below 2**53) for the
correspondence with the integer Lean model; in oracle-only cases also non-integer doubles (C04 'float'
cases: dyadic loads whose ranges differ by 2**-7 .. 2**-33; C05 'fratio' cases: positive non-integer
load factors such as 1.3 or 1e-3, where batch and single run round the same products the same way)."""
import itertools
import math

import numpy as np
import pandas as pd

SOURCES = [
    "src/pylife/stress/rainflow/fkm_nonlinear.py",
    "src/pylife/stress/rainflow/recorders.py",
    "src/pylife/stress/rainflow/general.py",
]


def _sat(a, x):
    x = np.asarray(x, dtype=float)
    ax = np.abs(x)
    return np.where(ax <= a, 4 * x, np.sign(x) * (4 * a + (ax - a)))


class StubLaw:
    """Same four functions as `lean/Model/HCM.lean` (lawLinear / lawSat); returns pandas Series like Binned."""

    def __init__(self, name):
        self.name = name
        self.ramberg_osgood_relation = None

    def _ser(self, vals, like):
        if isinstance(like, pd.Series):
            return pd.Series(np.asarray(vals, dtype=float), index=like.index)
        return pd.Series(np.asarray(vals, dtype=float).reshape(-1))

    def stress(self, load, **kw):
        l = np.asarray(load, dtype=float)
        return self._ser(2 * l if self.name == "linear" else _sat(100, l), load)

    def strain(self, stress, load):
        l = np.asarray(load, dtype=float)
        s = np.asarray(stress, dtype=float)
        return self._ser(3 * l if self.name == "linear" else 2 * s + l * np.abs(l), load)

    def stress_secondary_branch(self, delta_load, **kw):
        d = np.asarray(delta_load, dtype=float)
        return self._ser(2 * d if self.name == "linear" else _sat(200, d), delta_load)

    def strain_secondary_branch(self, delta_stress, delta_load):
        d = np.asarray(delta_load, dtype=float)
        s = np.asarray(delta_stress, dtype=float)
        return self._ser(3 * d if self.name == "linear" else 2 * s + d * np.abs(d), delta_load)


def fint(x):
    x = float(x)
    if x != x:
        return "nan"
    if x == int(x):
        return str(int(x))
    return repr(x)


LABELS = {"0..n-1": (0, 1), "1..n": (1, 1), "100..": (100, 1), "0,10,20..": (0, 10),
          # labels are labels, not positions: the history is the ROW order, whatever the labels' order
          "descending": (1000, -1), "shuffled": None, "countdown": None}
NEAR_TIE_LEVELS = [0, 1000000, -1000000, 999999, -999999, 1000001, -1000001, 500000, -500000, 499999, -499999]


def load_step_labels(n, labels):
    if labels == "shuffled":
        return [(i * 7919 + 13) % 10007 for i in range(n)]          # distinct, neither ascending nor descending
    if labels == "countdown":
        return list(range(n - 1, -1, -1))                            # n-1 .. 0 (seeded change C04-m5)
    start, step = LABELS[labels]
    return [start + step * i for i in range(n)]


def make_signal(samples, ratios, labels="0..n-1"):
    """samples: loads of a reference point (ints; dyadic floats in the float cases), ratios: node factors (first > 0, later ones
    may be 0 = unloaded point, or positive floats in the oracle-only cases).
    Returns what the detector is fed: a numpy array for one node, a MultiIndex Series otherwise
    (`labels` chooses the load_step labels: they are labels, not positions)."""
    if len(ratios) == 1:
        return np.asarray(samples, dtype=float)
    steps = load_step_labels(len(samples), labels)
    mi = pd.MultiIndex.from_product([steps, range(len(ratios))], names=["load_step", "node_id"])
    return pd.Series([float(s * r) for s in samples for r in ratios], index=mi)


class ArgumentChanged(Exception):
    """the implementation modified an argument that belongs to the caller (reported as a failure on the case)"""


def run_detector(samples, ratios, law, labels="0..n-1"):
    from pylife.stress.rainflow.fkm_nonlinear import FKMNonlinearDetector
    from pylife.stress.rainflow.recorders import FKMNonlinearRecorder
    rec = FKMNonlinearRecorder()
    det = FKMNonlinearDetector(recorder=rec, notch_approximation_law=law)
    sig = make_signal(samples, ratios, labels)
    keep = sig.copy()
    det.process_hcm_first(sig).process_hcm_second(sig)
    # the load sequence is the caller's: both passes read it, neither may change it (values, index)
    same = np.array_equal(np.asarray(sig), np.asarray(keep), equal_nan=True) and (
        not isinstance(sig, pd.Series) or (sig.index.equals(keep.index) and list(sig.index.names) == list(keep.index.names)))
    if not same:
        raise ArgumentChanged("the detector changed the load sequence it was given (process_hcm_first / process_hcm_second "
                                            f"work in place on their argument): {list(np.asarray(keep))[:8]} -> {list(np.asarray(sig))[:8]}")
    return det, rec


def run_two_detectors_alternately(samples, ratios, law, labels="0..n-1"):
    """Two detector / recorder pairs alive at once: A gets the sequence, B its mirror image, the passes alternate
    (first A, first B, second A, second B).  Returns A's pair: it must be what A reports alone (state kept on a class or
    in the module instead of the objects would leak between them)."""
    from pylife.stress.rainflow.fkm_nonlinear import FKMNonlinearDetector
    from pylife.stress.rainflow.recorders import FKMNonlinearRecorder
    pairs = []
    for sgn in (1, -1):
        rec = FKMNonlinearRecorder()
        pairs.append((FKMNonlinearDetector(recorder=rec, notch_approximation_law=law), rec,
                      make_signal([sgn * x for x in samples], ratios, labels)))
    for d, _r, sig in pairs:
        d.process_hcm_first(sig)
    for d, _r, sig in pairs:
        d.process_hcm_second(sig)
    return pairs[0][0], pairs[0][1]


def collective_rows(rec, n_nodes):
    """List of hystereses, each a dict column -> list over nodes."""
    col = rec.collective
    rows = []
    n_h = len(col) // max(n_nodes, 1)
    for h in range(n_h):
        blk = col.iloc[h * n_nodes:(h + 1) * n_nodes]
        rows.append({c: list(blk[c].values) for c in col.columns if c != "debug_output"})
    return rows


def canon(det, rec, n_nodes):
    rows = collective_rows(rec, n_nodes)
    out = []
    for r in rows:
        v = lambda c: ",".join(fint(x) for x in r[c])
        flag = f"{int(r['run_index'][0])}{'C' if bool(r['is_closed_hysteresis'][0]) else 'H'}{'Z' if bool(r['is_zero_mean_stress_and_strain'][0]) else 'N'}"
        out.append("|".join([flag, v("loads_min"), v("loads_max"), v("S_min"), v("S_max"), v("epsilon_min"), v("epsilon_max"),
                             v("epsilon_min_LF"), v("epsilon_max_LF")]))
    strain = " ".join(fint(x) for x in det.strain_values)
    return (f"recs={' '.join(out)};strain={strain};nfirst={len(det.strain_values_first_run)};"
            f"iz={det._iz};ir={det._ir};max={fint(det._load_max_seen)}")


def model_line(lawname, samples, ratios):
    vals = [s * r for s in samples for r in ratios]
    return f"hcm {lawname} {len(ratios)} {' '.join(str(int(v)) for v in vals)}"


# ---------------------------------------------------------------- reference: periodic rainflow (C04 oracle)
def cyclic_reversals(seq):
    """Reversal sequence of the cyclic word seq (consecutive duplicates and non-reversals removed cyclically)."""
    s = [x for i, x in enumerate(seq) if i == 0 or x != seq[i - 1]]
    while len(s) > 1 and s[0] == s[-1]:
        s.pop()
    if len(s) < 2:
        return s
    changed = True
    while changed and len(s) > 2:
        changed = False
        n = len(s)
        for i in range(n):
            a, b, c = s[i - 1], s[i], s[(i + 1) % n]
            if (a < b < c) or (a > b > c) or b == c or a == b:
                del s[i]
                changed = True
                break
    return s


def periodic_rainflow(seq):
    """Closed cycles (as sorted (lo, hi) pairs) of the endlessly repeated sequence: four-point counting of
    the cyclic reversal sequence rotated to start (and end) at its largest absolute value."""
    rev = cyclic_reversals(list(seq))
    if len(rev) < 2:
        return []
    k = max(range(len(rev)), key=lambda i: (abs(rev[i]), -i))
    rot = rev[k:] + rev[:k] + [rev[k]]
    st, cycles = [], []
    for p in rot:
        st.append(p)
        while len(st) >= 4:
            a, b, c, d = st[-4:]
            if abs(b - c) <= abs(a - b) and abs(b - c) <= abs(c - d):
                cycles.append((min(b, c), max(b, c)))
                del st[-3:-1]
            else:
                break
    # residue [M, m, M] -> cycle (m, M)
    if len(st) == 3:
        cycles.append((min(st[0], st[1]), max(st[0], st[1])))
    elif len(st) != 1 and len(st) != 3:
        # defensive: a longer residue cannot occur (Proofs/Lemmas/Periodic*: the rotated word ends in [M, m, M] or [M]); kept so that a
        # wrong input would still be counted pairwise from the inside instead of raising
        while len(st) >= 3:
            cycles.append((min(st[-3], st[-2]), max(st[-3], st[-2])))
            del st[-3:-1]
    return sorted(cycles)


# ---------------------------------------------------------------- reference: which reversals the two passes are fed
def _interior_reversals(sig):
    """[(i, v)] interior reversals, a plateau reported at its first sample (naive)."""
    out = []
    n = len(sig)
    for i in range(1, n - 1):
        v = sig[i]
        if sig[i - 1] == v:
            continue
        nxt = next((sig[j] for j in range(i + 1, n) if sig[j] != v), None)
        if nxt is None:
            continue
        if (sig[i - 1] < v and nxt < v) or (sig[i - 1] > v and nxt > v):
            out.append((i, v))
    return out


def _ref_new_turns(tail, chunk, flush):
    swt = list(tail) + list(chunk)
    tps = _interior_reversals(swt)
    turns = [v for _i, v in tps]
    tail = swt[tps[-1][0]:] if tps else swt
    if flush and tail:
        turns.append(tail[-1])
        tail = tail[-1:]
    return turns, tail


def ref_feed(samples):
    """Reversal sequences handed to pass 1 and pass 2 for a one-point load sequence."""
    s = list(samples)
    n = len(s)
    idx = [i for i, _v in _interior_reversals(s + s) if i < n]
    if idx and idx[-1] != n - 1 and idx[-1] != 0:
        s = s[:idx[-1] + 1]
    x1 = [0] + s
    flush1 = (len(x1) - 1) in [i for i, _v in _interior_reversals(x1 + x1)]
    t1, tail = _ref_new_turns([], x1, flush1)
    t2, _ = _ref_new_turns(tail, s, True)
    return t1, t2


class RefLaw:
    """integer versions of the stub laws for the reference procedure"""

    def __init__(self, name):
        self.name = name

    @staticmethod
    def _sat(a, x):
        return 4 * x if abs(x) <= a else (1 if x > 0 else -1) * (4 * a + (abs(x) - a))

    def sigma(self, l):
        return 2 * l if self.name == "linear" else self._sat(100, l)

    def eps(self, s, l):
        return 3 * l if self.name == "linear" else 2 * s + l * abs(l)

    def dsigma(self, d):
        return 2 * d if self.name == "linear" else self._sat(200, d)

    def deps(self, s, d):
        return 3 * d if self.name == "linear" else 2 * s + d * abs(d)


def ref_guideline(law, turns1, turns2):
    """FKM-nonlinear HCM procedure on one point: primary branch, Masing secondary branches, Memory 1-3.
    Returns (records, strains); a record is (run, closed, loadMin, loadMax, sMin, sMax, eMin, eMax, eMinLF, eMaxLF)."""
    res, ir, lmax = [], 1, 0
    e_min_lf = e_max_lf = 0
    recs, strains = [], []
    prev_load = 0

    def primary(l):
        s = law.sigma(l)
        return (l, s, law.eps(s, l))

    def secondary(p, l):
        d = l - p[0]
        ds = law.dsigma(d)
        return (l, p[1] + ds, p[2] + law.deps(ds, d))

    for run, turns in ((1, turns1), (2, turns2)):
        prev_load = 0 if PREV_LOAD_RESETS else prev_load
        for l in turns:
            while True:
                iz = len(res)
                if iz < ir:
                    p = primary(l)
                    break
                if iz == ir:
                    j = res[-1]
                    if abs(l) > lmax:
                        recs.append((run, False, -abs(j[0]), abs(j[0]), -abs(j[1]), abs(j[1]), -abs(j[2]), abs(j[2]), e_min_lf, e_max_lf))
                        ir += 1
                        p = primary(l)
                    else:
                        p = secondary(j, l)
                    break
                j, i = res[-1], res[-2]
                if abs(l - j[0]) >= abs(j[0] - i[0]):
                    recs.append((run, True, min(i[0], j[0]), max(i[0], j[0]), min(i[1], j[1]), max(i[1], j[1]),
                                 min(i[2], j[2]), max(i[2], j[2]), e_min_lf, e_max_lf))
                    del res[-2:]
                    continue
                p = secondary(j, l)
                break
            res.append(p)
            lmax = max(lmax, abs(l))
            strains.append(p[2])
            if prev_load < l:
                e_max_lf = max(e_max_lf, p[2])
            else:
                e_min_lf = min(e_min_lf, p[2])
            prev_load = l
    return recs, strains


PREV_LOAD_RESETS = False


def first_run_flushes(samples):
    """Does the first HCM run flush its last sample?  (zero-prefixed trimmed sequence, doubled WITH the zero)"""
    s = list(samples)
    n = len(s)
    idx = [i for i, _v in _interior_reversals(s + s) if i < n]
    if idx and idx[-1] != n - 1 and idx[-1] != 0:
        s = s[:idx[-1] + 1]
    x1 = [0] + s
    return (len(x1) - 1) in [i for i, _v in _interior_reversals(x1 + x1)]
