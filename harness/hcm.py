"""Shared implementation-side code for C04 / C05 / C10: runs the real FKMNonlinearDetector with stub
notch laws whose values are small integers (exact in double arithmetic) and canonicalises the
recorder's collective."""
import itertools
import math

import numpy as np
import pandas as pd

SOURCES = [
    "src/pylife/stress/rainflow/fkm_nonlinear.py",
    "src/pylife/stress/rainflow/recorders.py",
    "src/pylife/stress/rainflow/general.py",
]


def _sat(a, x):
    x = np.asarray(x, dtype=float)
    ax = np.abs(x)
    return np.where(ax <= a, 4 * x, np.sign(x) * (4 * a + (ax - a)))


class StubLaw:
    """Same four functions as `lean/Model/HCM.lean` (lawLinear / lawSat); returns pandas Series like Binned."""

    def __init__(self, name):
        self.name = name
        self.ramberg_osgood_relation = None

    def _ser(self, vals, like):
        if isinstance(like, pd.Series):
            return pd.Series(np.asarray(vals, dtype=float), index=like.index)
        return pd.Series(np.asarray(vals, dtype=float).reshape(-1))

    def stress(self, load, **kw):
        l = np.asarray(load, dtype=float)
        return self._ser(2 * l if self.name == "linear" else _sat(100, l), load)

    def strain(self, stress, load):
        l = np.asarray(load, dtype=float)
        s = np.asarray(stress, dtype=float)
        return self._ser(3 * l if self.name == "linear" else 2 * s + l * np.abs(l), load)

    def stress_secondary_branch(self, delta_load, **kw):
        d = np.asarray(delta_load, dtype=float)
        return self._ser(2 * d if self.name == "linear" else _sat(200, d), delta_load)

    def strain_secondary_branch(self, delta_stress, delta_load):
        d = np.asarray(delta_load, dtype=float)
        s = np.asarray(delta_stress, dtype=float)
        return self._ser(3 * d if self.name == "linear" else 2 * s + d * np.abs(d), delta_load)


def fint(x):
    x = float(x)
    if x != x:
        return "nan"
    if x == int(x):
        return str(int(x))
    return repr(x)


def make_signal(samples, ratios):
    """samples: list of ints (load of the first node), ratios: list of node factors (first = 1).
    Returns what the detector is fed: a numpy array for one node, a MultiIndex Series otherwise."""
    if len(ratios) == 1:
        return np.asarray(samples, dtype=float)
    mi = pd.MultiIndex.from_product([range(len(samples)), range(len(ratios))], names=["load_step", "node_id"])
    return pd.Series([float(s * r) for s in samples for r in ratios], index=mi)


def run_detector(samples, ratios, law):
    from pylife.stress.rainflow.fkm_nonlinear import FKMNonlinearDetector
    from pylife.stress.rainflow.recorders import FKMNonlinearRecorder
    rec = FKMNonlinearRecorder()
    det = FKMNonlinearDetector(recorder=rec, notch_approximation_law=law)
    sig = make_signal(samples, ratios)
    det.process_hcm_first(sig).process_hcm_second(sig)
    return det, rec


def collective_rows(rec, n_nodes):
    """List of hystereses, each a dict column -> list over nodes."""
    col = rec.collective
    rows = []
    n_h = len(col) // max(n_nodes, 1)
    for h in range(n_h):
        blk = col.iloc[h * n_nodes:(h + 1) * n_nodes]
        rows.append({c: list(blk[c].values) for c in col.columns if c != "debug_output"})
    return rows


def canon(det, rec, n_nodes):
    rows = collective_rows(rec, n_nodes)
    out = []
    for r in rows:
        v = lambda c: ",".join(fint(x) for x in r[c])
        flag = f"{int(r['run_index'][0])}{'C' if bool(r['is_closed_hysteresis'][0]) else 'H'}{'Z' if bool(r['is_zero_mean_stress_and_strain'][0]) else 'N'}"
        out.append("|".join([flag, v("loads_min"), v("loads_max"), v("S_min"), v("S_max"), v("epsilon_min"), v("epsilon_max"),
                             v("epsilon_min_LF"), v("epsilon_max_LF")]))
    strain = " ".join(fint(x) for x in det.strain_values)
    return (f"recs={' '.join(out)};strain={strain};nfirst={len(det.strain_values_first_run)};"
            f"iz={det._iz};ir={det._ir};max={fint(det._load_max_seen)}")


def model_line(lawname, samples, ratios):
    vals = [s * r for s in samples for r in ratios]
    return f"hcm {lawname} {len(ratios)} {' '.join(str(int(v)) for v in vals)}"


# ---------------------------------------------------------------- reference: periodic rainflow (C04 oracle)
def cyclic_reversals(seq):
    """Reversal sequence of the cyclic word seq (consecutive duplicates and non-reversals removed cyclically)."""
    s = [x for i, x in enumerate(seq) if i == 0 or x != seq[i - 1]]
    while len(s) > 1 and s[0] == s[-1]:
        s.pop()
    if len(s) < 2:
        return s
    changed = True
    while changed and len(s) > 2:
        changed = False
        n = len(s)
        for i in range(n):
            a, b, c = s[i - 1], s[i], s[(i + 1) % n]
            if (a < b < c) or (a > b > c) or b == c or a == b:
                del s[i]
                changed = True
                break
    return s


def periodic_rainflow(seq):
    """Closed cycles (as sorted (lo, hi) pairs) of the endlessly repeated sequence: four-point counting of
    the cyclic reversal sequence rotated to start (and end) at its largest absolute value."""
    rev = cyclic_reversals(list(seq))
    if len(rev) < 2:
        return []
    k = max(range(len(rev)), key=lambda i: (abs(rev[i]), -i))
    rot = rev[k:] + rev[:k] + [rev[k]]
    st, cycles = [], []
    for p in rot:
        st.append(p)
        while len(st) >= 4:
            a, b, c, d = st[-4:]
            if abs(b - c) <= abs(a - b) and abs(b - c) <= abs(c - d):
                cycles.append((min(b, c), max(b, c)))
                del st[-3:-1]
            else:
                break
    # residue [M, m, M] -> cycle (m, M)
    if len(st) == 3:
        cycles.append((min(st[0], st[1]), max(st[0], st[1])))
    elif len(st) != 1 and len(st) != 3:
        # ties in |.| can leave a longer residue; count pairwise from the inside (documented in DESIGN C04)
        while len(st) >= 3:
            cycles.append((min(st[-3], st[-2]), max(st[-3], st[-2])))
            del st[-3:-1]
    return sorted(cycles)
