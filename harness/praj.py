"""P_RAJ pipeline of the FKM-nonlinear assessment (extension of the C09 / C10 slices; NOT a property of its own).

Correspondence: the Lean model lean/Model/PRAJ.lean (ops `praj.*` of lean/Driver/PRAJ.lean) against the real
`pylife.strength.damage_parameter.P_RAJ` and `pylife.strength.fkm_nonlinear.damage_calculator.DamageCalculatorPRAJ`
objects, on

  real  : hysteresis tables recorded by real HCM runs of perform_fkm_nonlinear_assessment (batch of 1-3 points and one
          point alone): every hysteresis' crack-closure case, S_open, eps_open_ein, eps_open, S_close, P_RAJ, D, P_RAJ_D,
          eps_open_alt; klass_max, P_RAJ_D_e, a_0, l*; all class edges; class counts, H_0, q, early-failure index,
          verdict; x-bar, lifetimes; N_max_bearable; the parameter formulas (gamma_M_RAJ, f_RAJ, P_RAJ_Z, P_RAJ_D_0)
  synth : hand-built hysteresis tables (1-3 points) that reach every crack-closure case, through the same two objects
  calc  : DamageCalculatorPRAJ alone on synthetic P_RAJ values lying exactly ON class edges, one ulp beside them,
          below P_RAJ_D_e and above klass_max (class indices exact)

Oracle (real code only): P_RAJ >= 0 and zero in case 1; every second-run hysteresis is counted exactly once
(sum h + n_not_in_bin); x-bar equals the direct sum with every class once; a point of a batch gets what it gets
alone from the same recorded table; N_10 <= N_50 <= N_90.

Used by harness/c10.py for the case kind `praj` (functions generate / model_lines / impl_lines / compare / oracle /
nontrivial at the end of this file)."""
import contextlib
import io
import json
import math
import warnings

import numpy as np
import pandas as pd

from .core import f2h, h2f, close

GROUPS = ["Steel", "SteelCast", "Al_wrought"]
PA3 = (0.1, 0.5, 0.9)
DEFAULT_NBINS = 200  # documented default of the number of P_RAJ classes
RTOL = 1e-9          # chained pow / log / exp / Newton steps of ~1e-10 each
TOL_ORACLE = 1e-9    # same recorded table, batch vs alone: no look-up table noise involved


def _quiet():
    st = contextlib.ExitStack()
    w = warnings.catch_warnings()
    st.enter_context(w)
    warnings.simplefilter("ignore")
    st.enter_context(np.errstate(all="ignore"))
    st.enter_context(contextlib.redirect_stdout(io.StringIO()))
    return st


def _consts(group):
    import pylife.strength.fkm_nonlinear.constants as K
    return K.for_material_group(pd.Series({"MatGroupFKM": group}))


def _vec(x, n):
    a = np.asarray(x, dtype=float).reshape(-1)
    if len(a) == 1 and n > 1:
        a = np.repeat(a, n)
    return [float(a[i]) for i in range(n)]


class NewtonFailure(Exception):
    pass


def run_objects(df, ap, n_bins=None):
    """P_RAJ(...) followed by DamageCalculatorPRAJ(...) on a recorder-style collective; returns (dp, dc, ap)"""
    import pylife.strength.damage_parameter as DP
    import pylife.strength.fkm_nonlinear.damage_calculator as DC
    import pylife.strength.woehler_fkm_nonlinear  # noqa: F401  (accessor)
    ap = ap.copy()
    if n_bins is not None:
        ap["n_bins"] = int(n_bins)
    with _quiet():
        curve = ap[["P_RAJ_Z", "P_RAJ_D_0", "d_RAJ"]].woehler_P_RAJ
        try:
            dp = DP.P_RAJ(df, ap, curve)
        except RuntimeError as e:
            if "Failed to converge" in str(e) or "Derivative was zero" in str(e):
                raise NewtonFailure(str(e))
            raise
        dc = DC.DamageCalculatorPRAJ(dp.collective, ap, curve)
    return dp, dc, ap


def point_frame(col, k):
    """the recorder columns of point k of a (multi-point) collective, as a single-point collective"""
    ck = col[col.index.get_level_values("assessment_point_index") == k]
    keep = ["S_min", "S_max", "R", "epsilon_min", "epsilon_max", "S_a", "S_m", "epsilon_a", "epsilon_min_LF", "epsilon_max_LF",
            "is_closed_hysteresis", "is_zero_mean_stress_and_strain", "run_index"]
    out = ck[keep].copy()
    out.index = pd.MultiIndex.from_product([range(len(out)), [0]], names=["hysteresis_index", "assessment_point_index"])
    return out


def frame_of_points(points, flags):
    """points: per point a list of [S_min, S_max, e_min, e_max, e_min_LF, e_max_LF]; flags: per hysteresis (closed, zero_mean, run)"""
    nh, npts = len(flags), len(points)
    idx = pd.MultiIndex.from_product([range(nh), range(npts)], names=["hysteresis_index", "assessment_point_index"])
    rows = [(points[k][i], flags[i]) for i in range(nh) for k in range(npts)]
    smin = np.array([r[0][0] for r in rows])
    smax = np.array([r[0][1] for r in rows])
    emin = np.array([r[0][2] for r in rows])
    emax = np.array([r[0][3] for r in rows])
    zm = np.array([bool(r[1][1]) for r in rows])
    with np.errstate(all="ignore"):
        R = np.where(zm, -1, smin / smax)
    return pd.DataFrame(index=idx, data={
        "S_min": smin, "S_max": smax, "R": R, "epsilon_min": emin, "epsilon_max": emax,
        "S_a": 0.5 * (smax - smin), "S_m": np.where(zm, 0, 0.5 * (smin + smax)), "epsilon_a": 0.5 * (emax - emin),
        "epsilon_min_LF": np.array([r[0][4] for r in rows]), "epsilon_max_LF": np.array([r[0][5] for r in rows]),
        "is_closed_hysteresis": np.array([bool(r[1][0]) for r in rows]), "is_zero_mean_stress_and_strain": zm,
        "run_index": np.array([int(r[1][2]) for r in rows], dtype=np.int64)})


# ---------------------------------------------------------------- protocol lines of one point
def run_line(group, Rm, K, n, PZ, PD0, nbins, jmin, betas, ck):
    toks = ["praj.run", group, f2h(Rm), f2h(K), f2h(n), f2h(PZ), f2h(PD0), str(nbins), "-" if jmin is None else str(jmin),
            str(len(betas)), str(len(ck))]
    toks += [f2h(b) for b in betas]
    for _, r in ck.iterrows():
        toks += [f2h(r.S_min), f2h(r.S_max), f2h(r.epsilon_min), f2h(r.epsilon_max), f2h(r.epsilon_min_LF), f2h(r.epsilon_max_LF),
                 str(int(bool(r.is_closed_hysteresis))), str(int(bool(r.is_zero_mean_stress_and_strain))), str(int(r.run_index))]
    return " ".join(toks)


def impl_run_line(dc, ap, k, npts, pas):
    col = dc.collective
    ck = col[col.index.get_level_values("assessment_point_index") == k]
    SF = float(ap.S_F)
    rows = []
    for _, r in ck.iterrows():
        cn = int(r.case_name) if r.case_name in ("1", "2", "3", "4") else 0
        rows.append(f"{cn} {int(cn == 4 and r.S_a >= 0.4 * SF)} " + " ".join(
            f2h(v) for v in (r.S_open, r.epsilon_open_ein, r.epsilon_open, r.S_close, r.P_RAJ, r.D, r.P_RAJ_D, r.epsilon_open_alt)))
    n = int(ap.n_bins)
    kmax = _vec(ap.P_RAJ_klass_max, npts)[k]
    pde = _vec(ap.P_RAJ_D_e, npts)[k]
    a0 = _vec(ap.a_0, npts)[k]
    ls = _vec(ap.l_star, npts)[k]
    es = np.asarray(dc._binned_P_RAJ, dtype=float)
    es = es[:, k] if es.ndim == 2 else es
    h = np.asarray(dc._binned_h)[k]
    idx = int(np.asarray(dc._n_cycles_until_damage).reshape(-1)[k])
    xb = float(np.asarray(dc._xbar_minus_2, dtype=float).reshape(-1)[k])
    nseq = _vec(dc.lifetime_n_times_load_sequence, npts)[k]
    ncyc = _vec(dc.lifetime_n_cycles, npts)[k]
    inf = bool(np.asarray(dc.is_life_infinite).reshape(-1)[k] if npts > 1 else np.asarray(dc.is_life_infinite).reshape(-1)[0])
    with _quiet():
        nmaxf, _ = dc.get_lifetime_functions()
        nmax = [_vec(nmaxf(pa), npts)[k] for pa in pas]
    if not kmax > pde:
        # ascending "grid" (the whole load history lies below the final endurance value): numpy's binary search runs on an
        # unsorted array there; outside the domain of the class-index model (counting), only rows / edges / verdict are compared
        return " | ".join([" ".join(rows), " ".join(f2h(v) for v in (kmax, pde, a0, ls)), " ".join(f2h(v) for v in es), f"ascending-grid {int(inf)}"])
    return " | ".join([
        " ".join(rows),
        " ".join(f2h(v) for v in (kmax, pde, a0, ls)),
        " ".join(f2h(v) for v in es),
        " ".join(str(int(v)) for v in h) + f" {int(np.asarray(dc._n_not_in_bin).reshape(-1)[k])} {int(np.asarray(dc._H_0).reshape(-1)[k])} "
        f"{int(np.asarray(dc._q).reshape(-1)[k])} {idx} {int(idx < dc._n_hystereses)} {int(inf)}",
        " ".join(f2h(v) for v in (xb, nseq, ncyc, xb)),
        " ".join(f2h(v) for v in nmax)])


def model_and_impl(dc, ap, group, npts, points=None, pas=PA3, nbins=None):
    """protocol line + implementation line for every point (or the given ones) of an evaluated pair of objects;
    nbins: the number of P_RAJ classes the MODEL uses (default: what the implementation's parameters say)"""
    from . import c10
    betas = [c10.beta_of(pa) for pa in pas]
    col = dc.collective
    qmin = int(np.min(np.asarray(dc._q)))
    jmin = None if npts == 1 else max(qmin, 0)
    ml, il = [], []
    for k in (range(npts) if points is None else points):
        ck = col[col.index.get_level_values("assessment_point_index") == k]
        ml.append(run_line(group, float(ap.R_m), float(ap.K_prime), float(ap.n_prime), _vec(ap.P_RAJ_Z, npts)[k], _vec(ap.P_RAJ_D_0, npts)[k],
                           int(ap.n_bins) if nbins is None else int(nbins), jmin, betas, ck))
        il.append(impl_run_line(dc, ap, k, npts, pas))
    return ml, il


# ---------------------------------------------------------------- comparison
def _cmp_tokens(mt, it, atols, where):
    if len(mt) != len(it):
        return f"{where}: token count {len(mt)} vs {len(it)}"
    for j, (a, b) in enumerate(zip(mt, it)):
        if a == b:
            continue
        if len(a) == 16 and len(b) == 16:
            try:
                x, y = h2f(a), h2f(b)
            except ValueError:
                return f"{where} token {j}: {a} vs {b}"
            if close(x, y, rtol=RTOL, atol=atols(j)):
                continue
            return f"{where} token {j}: model={x!r} impl={y!r}"
        return f"{where} token {j}: model={a!r} impl={b!r}"
    return None


def compare_run(m, i, where):
    if m == i:
        return None
    if m == "fail" or i == "fail":
        return f"{where}: closure-stress iteration: model={m[:40]!r} impl={i[:40]!r}"
    ms, is_ = m.split(" | "), i.split(" | ")
    if len(is_) == 4 and is_[3].startswith("ascending-grid") and len(ms) == 6:
        verdict = ms[3].split()[-1]
        ms = ms[:3]
        if verdict != is_[3].split()[1]:
            return f"{where}: infinite-life verdict model={verdict} impl={is_[3].split()[1]}"
        is_ = is_[:3]
    if len(ms) != len(is_):
        return f"{where}: section count {len(ms)} vs {len(is_)}"
    # scales for absolute tolerances: stresses, strains, parameter values
    rt = is_[0].split()
    S = max([abs(h2f(rt[r + 2])) for r in range(0, len(rt), 10)] + [abs(h2f(rt[r + 5])) for r in range(0, len(rt), 10)] + [1e-300])
    Ee = max([abs(h2f(rt[r + c])) for r in range(0, len(rt), 10) for c in (3, 4, 9)] + [1e-300])
    kmax = abs(h2f(is_[1].split()[0]))
    names = ["case", "4a", "S_open", "eps_open_ein", "eps_open", "S_close", "P_RAJ", "D", "P_RAJ_D", "eps_open_alt"]
    mt0 = ms[0].split()
    for r in range(0, min(len(rt), len(mt0)), 10):
        if mt0[r] != rt[r] and {mt0[r], rt[r]} == {"3", "4"}:
            # case 3 / case 4 is decided by eps_open_ein >= eps_open_alt, both results of pow chains: when they agree to
            # rounding (a hysteresis repeated with last-digit differences) the two sides may legitimately decide differently
            alt_prev = h2f(rt[r - 1]) if r else 0.0
            if abs(h2f(rt[r + 3]) - alt_prev) <= 1e-12 * Ee:
                _P.stats["near_ties_skipped"] = _P.stats.get("near_ties_skipped", 0) + 1
                return None
            break
    at = {2: 1e-9 * S, 3: 1e-9 * Ee, 4: 1e-9 * Ee, 5: 1e-9 * S, 6: 1e-11 * kmax, 7: 1e-300, 8: 1e-300, 9: 1e-9 * Ee}
    r = _cmp_tokens(ms[0].split(), rt, lambda j: at.get(j % 10, 0.0), f"{where} hysteresis rows")
    if r:
        j = int(r.split("token ")[1].split(":")[0]) if "token " in r else -1
        return r + (f" (hysteresis {j // 10}, column {names[j % 10]})" if j >= 0 else "")
    for s, nm in ((1, "klass_max/P_RAJ_D_e/a_0/l*"), (2, "class edges"), (3, "class counts/H_0/q/idx/early/verdict"),
                  (4, "xbar/n_seq/n_cycles/direct sum"), (5, "N_max_bearable"))[:len(ms) - 1]:
        r = _cmp_tokens(ms[s].split(), is_[s].split(), lambda j: 1e-300, f"{where} {nm}")
        if r:
            return r
    return None


# ---------------------------------------------------------------- synthetic tables
def _ro_delta(E, K, n, ds):
    return 2 * (ds / 2 / E + np.sign(ds) * (abs(ds) / 2 / K) ** (1 / n))


def synth_points(rng, mat, nh, npts):
    """strain paths that visit all crack-closure cases: hysteresis i of point k is a Masing loop between S_min and S_max
    placed at a running strain level; the history extremes grow in jumps (case 2), are revisited (3, 4a, 4b) or the loop
    lies below the current opening strain (case 1)"""
    E, K, n, Rm = mat
    SF = 0.5 * (0.002 ** n * K + Rm)
    n1 = min(rng.choice([0, 0, 1, 2, nh // 2]), nh - 1)
    flags = [(1 if (i >= n1 or rng.random() < 0.6) else 0, 0, 1 if i < n1 else 2) for i in range(nh)]
    flags = [(c, 1 if c == 0 else 0, run) for c, _, run in flags]
    pts = []
    for _ in range(npts):
        amp0 = rng.uniform(0.2, 1.1) * SF
        lo, hi = 0.0, 0.0
        rows = []
        for i in range(nh):
            style = rng.random()
            if flags[i][1]:                                   # Memory 3: symmetric about zero
                sa = rng.uniform(0.3, 1.0) * amp0
                smin, smax = -sa, sa
                de = _ro_delta(E, K, n, smax - smin)
                emin, emax = -de / 2, de / 2
            else:
                sa = (rng.uniform(0.02, 0.39) if style < 0.45 else rng.uniform(0.4, 1.0)) * amp0
                if rng.random() < 0.3:
                    sa = rng.uniform(0.34, 0.47) * SF         # around the case 4a / 4b threshold S_a = 0.4 S_F
                sm = rng.uniform(-0.8, 0.8) * amp0
                if rng.random() < 0.15:
                    sm = rng.choice([1, -1]) * (sa + rng.uniform(0.01, 0.4) * amp0)     # R >= 0 or R > 1
                smin, smax = sm - sa, sm + sa
                de = _ro_delta(E, K, n, smax - smin)
                if rng.random() < 0.2:
                    de *= rng.uniform(0.97, 1.03)             # not exactly on the Masing branch
                span = max(hi - lo, de)
                emin = rng.uniform(lo - 0.3 * span, hi + 0.3 * span - de)
                if rng.random() < 0.25:
                    emin = lo - rng.uniform(0.2, 1.5) * de    # far below: candidates for case 1
                emax = emin + de
            if rng.random() < 0.35:                           # the history went beyond every recorded loop
                lo2, hi2 = min(lo, emin) - rng.uniform(0, 1) * de, max(hi, emax) + rng.uniform(0, 1) * de
            else:
                lo2, hi2 = (min(lo, emin), max(hi, emax)) if rng.random() < 0.5 else (lo, hi)
            lo, hi = min(lo, lo2), max(hi, hi2)
            rows.append([smin, smax, emin, emax, lo, hi])
        pts.append(rows)
    return pts, flags


def gen_mat(rng):
    g = rng.choice(GROUPS)
    Rm = rng.choice({"Steel": [400.0, 600.0, 900.0, 1200.0], "SteelCast": [400.0, 600.0, 800.0], "Al_wrought": [180.0, 250.0, 350.0, 480.0]}[g])
    import pylife.strength.fkm_nonlinear.parameter_calculations as pc
    with _quiet():
        ap = pc.calculate_cyclic_assessment_parameters(pd.Series({"MatGroupFKM": g, "R_m": Rm}))
    return g, Rm, float(ap.E), float(ap.K_prime), float(ap.n_prime)


def synth_ap(group, Rm, E, K, n, PZ, PD0, nbins):
    c = _consts(group)
    return pd.Series({"MatGroupFKM": group, "R_m": Rm, "E": E, "K_prime": K, "n_prime": n, "P_RAJ_Z": PZ, "P_RAJ_D_0": PD0,
                      "d_RAJ": float(c.d_RAJ), "n_bins": int(nbins), "P_A": 0.5})


# ---------------------------------------------------------------- the helper
class Praj:
    """generation, correspondence lines and oracle of the case kind `praj` (sub-kinds real / synth / calc)"""

    def __init__(self):
        self.stats = {"sub": {}, "cases_hit": {}, "points": 0, "hystereses": 0, "newton_failures": 0, "infinite": 0, "finite": 0,
                      "early": 0, "xbar_inf": 0, "q_at_grid_end": 0, "P_above_klass_max": 0, "edge_values": 0, "ascending_grid": 0, "near_ties_skipped": 0, "nan_lifetime": 0, "lost_to_top_edge_rounding": 0}
        self._cache = {}

    def _count(self, d, k):
        self.stats[d][str(k)] = self.stats[d].get(str(k), 0) + 1

    # ------------------------------------------------------------ generation
    def generate(self, rng, tier):
        from . import c10
        quick = tier == "quick"
        n_real, n_synth, n_calc = (6, 24, 10) if quick else (60, 300, 80)
        cases = []
        for _ in range(n_real):
            par = c10.gen_par(rng)
            if rng.random() < 0.5:
                par["PA"] = 0.5
            nn = rng.randint(1, 3)
            L = c10.gen_loads(rng, par["Rm"], rng.randint(4, 9 if quick else 12), extreme=rng.random() < 0.15)
            par["nbinsJ"] = rng.choice([None, 200, 50, 17])       # None: the documented default (200) is left to the code
            c = {"kind": "praj", "sub": "real", "par": par, "L": L, "cs": c10.gen_cs(rng, nn), "G": c10.gen_G(rng, nn), "k": rng.randrange(nn)}
            if nn > 1:
                c["lay"] = c10.gen_lay(rng, nn)          # node labels / row order / load_step labels of the batch
            cases.append(c)
        for _ in range(n_synth):
            g, Rm, E, K, n = gen_mat(rng)
            npts = rng.choice([1, 1, 2, 3])
            nh = rng.randint(2, 9)
            pts, flags = synth_points(rng, (E, K, n, Rm), nh, npts)
            c = _consts(g)
            pz = float(c.a_PZ_RAJ) * Rm ** float(c.b_PZ_RAJ) * rng.choice([1.0, 0.4, 2.0, 0.004, 0.001])
            pd0 = float(c.a_PD_RAJ) * Rm ** float(c.b_PD_RAJ) * rng.choice([1.0, 0.4, 0.1, 0.02])
            cases.append({"kind": "praj", "sub": "synth", "group": g, "Rm": Rm, "E": E, "K": K, "n": n, "PZ": pz, "PD0": pd0,
                          "nbins": rng.choice([200, 200, 40, 7, 3]), "points": pts, "flags": flags})
        for _ in range(n_calc):
            g, Rm, E, K, n = gen_mat(rng)
            c = _consts(g)
            nb = rng.choice([200, 50, 8, 3, 2])
            pz = float(c.a_PZ_RAJ) * Rm ** float(c.b_PZ_RAJ)
            pd0 = float(c.a_PD_RAJ) * Rm ** float(c.b_PD_RAJ) * rng.choice([1.0, 0.3])
            cases.append({"kind": "praj", "sub": "calc", "group": g, "Rm": Rm, "E": E, "PZ": pz, "PD0": pd0, "nbins": nb,
                          "kmax_f": rng.choice([1.5, 5.0, 40.0, 900.0]), "npts": rng.choice([1, 2, 3]), "seed": rng.randrange(1 << 30),
                          "nh": rng.randint(2, 12), "dfrac": rng.choice([0.0, 1e-7, 1e-3, 0.2, 0.9, 1.7])})
        return cases

    # ------------------------------------------------------------ evaluation of a case on the real code
    def _key(self, case):
        return json.dumps(case, sort_keys=True)

    def _eval_nocache(self, case):
        """the real code is evaluated ahead of the oracle (the model needs the recorded tables): an exception of the
        implementation is carried into the case (c10.exc_verdict) instead of ending the run as an infrastructure error"""
        from . import c10
        try:
            return getattr(self, "_eval_" + case["sub"])(case)
        except NewtonFailure:
            self.stats["newton_failures"] += 1
            return {"ml": [], "il": [], "oracle": None, "trivial": True}
        except c10.NodeOrderDefect as e:
            return {"ml": [], "il": [], "oracle": (c10.node_order_desc(case, str(e)), "batch-node-order"), "trivial": True}
        except Exception as e:
            v = c10.exc_verdict(e)
            return {"ml": [], "il": [f"EXC {type(e).__name__}: {str(e)[:200]}"], "oracle": v, "trivial": True}

    def _eval(self, case):
        key = self._key(case)
        if key not in self._cache:
            self._cache[key] = self._eval_nocache(case)
        return self._cache[key]

    def _eval_fresh(self, case):
        """for forked workers: the result together with the statistics it produced"""
        from .core import _zero_stats
        saved, self.stats = self.stats, _zero_stats(self.stats)
        try:
            r = self._eval_nocache(case)
            return r, self.stats
        finally:
            self.stats = saved

    def precompute(self, cases, procs):
        """evaluate the real code for all `praj` cases over forked processes (the parent then only looks results up)"""
        from . import c10
        from .core import _merge_stats
        todo = [c for c in cases if c.get("kind") == "praj" and self._key(c) not in self._cache]
        for c, (r, st) in zip(todo, c10.par_map(self._eval_fresh, todo, procs)):
            self._cache[self._key(c)] = r
            _merge_stats(self.stats, st)

    def _note(self, dc, ap, npts):
        col = dc.collective
        self.stats["points"] += npts
        self.stats["hystereses"] += len(col)
        for cn, cnt in col["case_name"].value_counts().items():
            self.stats["cases_hit"][str(cn)] = self.stats["cases_hit"].get(str(cn), 0) + int(cnt)
        c4 = col[col.case_name == "4"]
        a = int((c4.S_a >= 0.4 * float(ap.S_F)).sum())
        self.stats["cases_hit"]["4a"] = self.stats["cases_hit"].get("4a", 0) + a
        self.stats["cases_hit"]["4b"] = self.stats["cases_hit"].get("4b", 0) + len(c4) - a
        inf = np.asarray(dc.is_life_infinite).reshape(-1)
        self.stats["infinite"] += int(inf.sum())
        self.stats["finite"] += int((~inf).sum())
        self.stats["early"] += int(np.sum(np.asarray(dc._n_cycles_until_damage).reshape(-1) < dc._n_hystereses))
        self.stats["xbar_inf"] += int(np.sum(np.isinf(np.asarray(dc._xbar_minus_2, dtype=float))))
        self.stats["q_at_grid_end"] += int(np.sum(np.asarray(dc._q).reshape(-1) >= int(ap.n_bins) - 1))

    def _oracle_objects(self, dc, ap, npts, ctx, df_rec):
        """the property relations on an evaluated pair of objects; df_rec = the recorder-style input table"""
        col = dc.collective
        n = int(ap.n_bins)
        P = col["P_RAJ"].values
        if np.any(P < 0) or np.any(np.isnan(P)):
            return (f"P_RAJ of a hysteresis is negative or NaN: {P[(P < 0) | np.isnan(P)][:3]}; {ctx}", "praj-negative")
        c1 = (col["case_name"] == "1").values
        if np.any(P[c1] != 0):
            return (f"P_RAJ is not zero although the crack stays closed (case 1); {ctx}", "praj-closed-nonzero")
        kmaxs, pdes = _vec(ap.P_RAJ_klass_max, npts), _vec(ap.P_RAJ_D_e, npts)
        es_all = np.asarray(dc._binned_P_RAJ, dtype=float)
        pending = None          # a finding that is reported only if no other clause fails on this case
        for k in range(npts):
            ck = col[col.index.get_level_values("assessment_point_index") == k]
            P2 = ck[ck.run_index == 2]["P_RAJ"].values
            es_k = es_all[:, k] if es_all.ndim == 2 else es_all
            top = float(es_k[0])                       # the first class edge of the code's grid: np.logspace(log10(klass_max), ...)[0]
            above = int(np.sum(P2 > max(kmaxs[k], top)))
            self.stats["P_above_klass_max"] += above
            # 10**log10(klass_max) can be a few ulp BELOW klass_max: a hysteresis with P_RAJ = klass_max (crack fully open over the
            # whole range +-max|S|; seen only for loads of 4-6 R_m, where the point fails within the two recorded passes and the
            # class counts are not used) then lies above the grid and is counted in no class: finding praj-top-edge-rounding
            lost = int(np.sum((P2 > top) & (P2 <= kmaxs[k])))
            # (rounding of 10**log10(x): relative error up to about eps * ln(x) / 2 + eps, i.e. 8 ulp for x ~ 1e6 - the distance
            # depends on the last digits of klass_max, hence on the notch law's solver: 1 ulp with pylife b50f603, 8 ulp with the
            # more accurate Seeger-Beste solver of /repo commit 8e3c607; the guard admits 4 * max(1, ln klass_max) ulp)
            if lost and kmaxs[k] - top <= 4 * max(1.0, math.log(max(kmaxs[k], 1.0))) * np.spacing(kmaxs[k]):
                self.stats["lost_to_top_edge_rounding"] = self.stats.get("lost_to_top_edge_rounding", 0) + lost
                pending = (f"point {k}: {lost} second-run hysteresis with P_RAJ = {float(np.max(P2))!r} <= P_RAJ_klass_max = {kmaxs[k]!r} is counted in no class: the first "
                           f"class edge np.logspace(log10(klass_max), ...)[0] = {top!r} is {(kmaxs[k] - top) / np.spacing(kmaxs[k]):.0f} ulp below klass_max (rounding of 10**log10(x); "
                           f"up to 4 * max(1, ln klass_max) ulp are filed under this class); {ctx}", "praj-top-edge-rounding")
            else:
                lost = 0
            counted = float(np.sum(np.asarray(dc._binned_h)[k]) + np.asarray(dc._n_not_in_bin).reshape(-1)[k])
            if kmaxs[k] > pdes[k] and counted != len(P2) - above - lost:
                return (f"point {k}: {len(P2)} second-run hystereses ({above} above klass_max) but the classes hold {counted}; {ctx}", "praj-class-partition")
            if kmaxs[k] <= pdes[k]:
                self.stats["ascending_grid"] += 1
                continue                       # ascending grid: class indices are those of a binary search on an unsorted array
            es = es_all[:, k] if es_all.ndim == 2 else es_all
            # x-bar: the direct sum, every class once
            mids = (es[:-1] + es[1:]) / 2
            h = np.asarray(dc._binned_h)[k]
            pdv = ck["P_RAJ_D"].values
            pdv = pdv[~np.isnan(pdv)]
            if len(pdv) == 0:
                continue
            last = float(pdv[-1])          # groupby(...).last(): the last value that is not NaN
            q = int(np.asarray(dc._q).reshape(-1)[k])
            pz, pd0, d = _vec(ap.P_RAJ_Z, npts)[k], _vec(ap.P_RAJ_D_0, npts)[k], float(ap.d_RAJ)
            a0, ls, m = _vec(ap.a_0, npts)[k], _vec(ap.l_star, npts)[k], -1 / float(ap.d_RAJ)
            with np.errstate(all="ignore"):
                dmg = np.where(mids > last, h / (mids / pz) ** (1 / d), 0.0)
                den = np.cumsum(dmg)
                br = pd0 / mids * (a0 + ls * (1 - mids / pd0))
                f = (a0 ** (1 - m) - br ** (1 - m)) / (a0 ** (1 - m) - 0.5 ** (1 - m))
            want = 0.0
            if q < 0:
                want = math.inf
            for j in range(max(q, 0), n - 1):
                want += (f[j + 1] - f[j]) / den[j] if abs(den[j]) > 1e-13 else math.inf
            got = float(np.asarray(dc._xbar_minus_2, dtype=float).reshape(-1)[k])
            if not (got == want or close(got, want, rtol=1e-9)):
                return (f"point {k}: xbar-2 = {got!r}, the sum over the classes q..n-2 with every class counted once gives {want!r} (q={q}); {ctx}", "praj-xbar-sum")
        # batch independence on the same recorded table
        if npts > 1:
            for k in range(npts):
                try:
                    _, dck, apk = run_objects(point_frame(df_rec, k), self._ap_single(ap, k, npts))
                except NewtonFailure:
                    continue
                a = (_vec(dc.lifetime_n_cycles, npts)[k], bool(np.asarray(dc.is_life_infinite).reshape(-1)[k]), _vec(ap.P_RAJ_klass_max, npts)[k])
                b = (_vec(dck.lifetime_n_cycles, 1)[0], bool(np.asarray(dck.is_life_infinite).reshape(-1)[0]), _vec(apk.P_RAJ_klass_max, 1)[0])
                if not close(a[2], b[2], rtol=TOL_ORACLE):
                    return (f"P_RAJ_klass_max of point {k} is {a[2]!r} in the batch and {b[2]!r} alone (same recorded hystereses); {ctx}", "batch-P_RAJ-lifetime")
                if a[1] != b[1]:
                    return (f"infinite-life verdict of point {k} differs between batch and alone (same recorded hystereses); {ctx}", "batch-P_RAJ-verdict")
                if not (a[0] == b[0] or close(a[0], b[0], rtol=TOL_ORACLE)):
                    return (f"P_RAJ lifetime of point {k}: {a[0]!r} in the batch, {b[0]!r} alone (same recorded hystereses); {ctx}", "batch-P_RAJ-lifetime")
        with _quiet():
            nmaxf, _ = dc.get_lifetime_functions()
            n10, n50, n90 = (np.asarray(nmaxf(pa), dtype=float).reshape(-1) for pa in PA3)
        life = np.asarray(dc.lifetime_n_cycles, dtype=float).reshape(-1)
        for k in range(len(life)):
            if life[k] != life[k]:
                # NaN lifetime (no second-run hysteresis in or below the class grid: H_0 = 0, the code's 0 * inf): there is no
                # ordering to speak of; counted
                self.stats["nan_lifetime"] = self.stats.get("nan_lifetime", 0) + 1
                continue
            if life[k] < 0:
                # hypothesis `0 <= lifetime` of PRAJ.N10_le_N50_le_N90_PRAJ_partial: never seen on the real code; reported if it ever is
                return (f"P_RAJ lifetime of point {k} is negative ({life[k]!r}); {ctx}", "praj-negative-lifetime")
            if not (n10[k] <= n50[k] <= n90[k]):
                return (f"P_RAJ: N_10={n10[k]!r}, N_50={n50[k]!r}, N_90={n90[k]!r} not ordered, point {k}; {ctx}", "n105090-P_RAJ")
        return pending

    def _ap_single(self, ap, k, npts):
        a = pd.Series({key: ap[key] for key in ap.index})
        for key in ("P_RAJ_Z", "P_RAJ_D_0", "P_RAJ_D", "G"):
            if key in a.index and isinstance(a[key], (pd.Series, np.ndarray)):
                a[key] = float(np.asarray(a[key]).reshape(-1)[k])
        return a

    def _eval_real(self, case):
        from . import c10
        par, L, cs, Gs, k = case["par"], case["L"], case["cs"], case["G"], case["k"]
        nn = len(cs)
        try:
            rb = c10.assess_batch(case, par, L, cs, Gs, list(range(nn)), ram=False, raj=True, as_batch=nn > 1)
            rs = c10.assess(par, L, cs, Gs, [k], ram=False, raj=True, as_batch=False) if nn > 1 else None
        except c10.SolverFailure:
            return {"ml": [], "il": [], "oracle": None, "trivial": True}
        except RuntimeError as e:
            if "Failed to converge" in str(e) or "Derivative was zero" in str(e):
                raise NewtonFailure(str(e))
            raise
        dcb = rb["P_RAJ_damage_calculator"]
        apb = dcb._assessment_parameters
        is05 = abs(par["PA"] - 0.5) < 1e-9
        aps = rb["assessment_parameters"]
        ml = [" ".join(["praj.par", par["group"], f2h(par["Rm"]), f2h(_vec(aps.K_RP, nn)[k]), f2h(float(aps.beta)), "1" if is05 else "0",
                        f2h(par["Aref"]), f2h(par["Asigma"]), f2h(Gs[k])])]
        il = [" ".join(f2h(v) for v in (float(aps.gamma_M_RAJ), _vec(aps.f_RAJ, nn)[k], _vec(aps.P_RAJ_Z, nn)[k], _vec(aps.P_RAJ_D_0, nn)[k]))]
        # the model is told the number of classes of the CASE; when the case leaves it to the code that is the documented
        # default of perform_fkm_nonlinear_assessment ("n_bins: int, optional (default: 200)")
        nb_doc = par.get("nbinsJ") or DEFAULT_NBINS
        m2, i2 = model_and_impl(dcb, apb, par["group"], nn, nbins=nb_doc)
        ml += m2
        il += i2
        if rs is not None:
            dcs = rs["P_RAJ_damage_calculator"]
            m3, i3 = model_and_impl(dcs, dcs._assessment_parameters, par["group"], 1, nbins=nb_doc)
            ml += m3
            il += i3
        self._note(dcb, apb, nn)
        ctx = f"real HCM table: group={par['group']} R_m={par['Rm']} K_p={par['Kp']} P_A={par['PA']} n_bins={par.get('nbinsJ')} loads={L} ratios={[c / cs[0] for c in cs]} G={Gs} layout={case.get('lay')}"
        orc = self._oracle_objects(dcb, apb, nn, ctx, rb["P_RAJ_recorder_collective"])
        if orc is None and par.get("nbinsJ") is None:
            # the documented default on the real code: the same point with n_bins = 200 spelled out
            try:
                r2 = c10.assess(dict(par, nbinsJ=DEFAULT_NBINS), L, cs, Gs, [k], ram=False, raj=True, as_batch=False)
            except c10.SolverFailure:
                r2 = None
            a = _vec((rs if rs is not None else rb)["P_RAJ_lifetime_n_cycles"], 1)[0]
            b = _vec(r2["P_RAJ_lifetime_n_cycles"], 1)[0] if r2 is not None else a
            if not (a == b or close(a, b, rtol=1e-12)):
                orc = (f"P_RAJ lifetime of point {k} with the number of classes left to the code is {a!r}, with the documented default n_bins = {DEFAULT_NBINS} "
                       f"spelled out {b!r}; {ctx}", "praj-default-classes")
        return {"ml": ml, "il": il, "oracle": orc, "trivial": False}

    def _eval_synth(self, case):
        df = frame_of_points(case["points"], case["flags"])
        npts = len(case["points"])
        ap0 = synth_ap(case["group"], case["Rm"], case["E"], case["K"], case["n"], case["PZ"], case["PD0"], case["nbins"])
        _, dc, ap = run_objects(df, ap0)
        ml, il = model_and_impl(dc, ap, case["group"], npts)
        self._note(dc, ap, npts)
        ctx = f"synthetic table: group={case['group']} R_m={case['Rm']} n_bins={case['nbins']} P_RAJ_Z={case['PZ']!r} P_RAJ_D_0={case['PD0']!r} points={case['points']} flags={case['flags']}"
        return {"ml": ml, "il": il, "oracle": self._oracle_objects(dc, ap, npts, ctx, df), "trivial": False}

    def _eval_calc(self, case):
        """DamageCalculatorPRAJ alone: P_RAJ values on / beside the class edges"""
        import random
        import pylife.strength.fkm_nonlinear.damage_calculator as DC
        import pylife.strength.woehler_fkm_nonlinear  # noqa: F401
        r = random.Random(case["seed"])
        nb, npts, nh = case["nbins"], case["npts"], case["nh"]
        c = _consts(case["group"])
        d, pz, pd0, E = float(c.d_RAJ), case["PZ"], case["PD0"], case["E"]
        m = -1 / d
        C = 1e-5 * (5e5) ** m * E ** (-m)
        a0 = (0.5 ** (1 - m) - (1 - m) * C * pz ** m) ** (1 / (1 - m))
        dJ = E / 5e6
        ls = dJ / pd0 - a0
        pde = pd0 * (a0 + ls) / (0.5 + ls)
        kmaxs = [pd0 * case["kmax_f"] * r.choice([1.0, 1.0, 0.7, 2.5]) for _ in range(npts)]
        if npts > 1 and r.random() < 0.5:
            kmaxs = [kmaxs[0]] * npts
        kmax = np.array(kmaxs) if npts > 1 else kmaxs[0]
        es = np.logspace(np.log10(kmax), np.log10(pde), nb + 1)
        n1 = r.choice([0, 1, nh // 2])
        flags = [(True, False, 1 if i < n1 else 2) for i in range(nh)]
        Ps, rows = [], []
        Dfin = case["dfrac"]
        for i in range(nh):
            for k in range(npts):
                e = es[:, k] if npts > 1 else es
                j = r.randrange(nb + 1)
                style = r.random()
                if style < 0.3:
                    p = float(e[j]); self.stats["edge_values"] += 1
                elif style < 0.45:
                    p = float(np.nextafter(e[j], math.inf))
                elif style < 0.6:
                    p = float(np.nextafter(e[j], 0.0))
                elif style < 0.7:
                    p = float(pde) * r.choice([1.0, 0.5, 0.999])
                elif style < 0.75:
                    p = float(e[0]) * r.choice([1.0000001, 1.5])
                else:
                    lo, hi = math.log(float(e[-1])), math.log(float(e[0]))
                    p = math.exp(r.uniform(lo, hi))
                if i == nh - 1 and not (float(e[-1]) < p <= float(e[0])) and not any(
                        float(e[-1]) < Ps[ii * npts + k] <= float(e[0]) or Ps[ii * npts + k] <= pde for ii in range(n1, nh - 1)):
                    p = math.exp(r.uniform(math.log(float(e[-1])), math.log(float(e[0]))))   # H_0 = 0 makes the code return 0 * inf = NaN
                Ps.append(p)
        idx = pd.MultiIndex.from_product([range(nh), range(npts)], names=["hysteresis_index", "assessment_point_index"])
        Dcol = np.array([Dfin / (nh * 1.0)] * (nh * npts)) * np.array([r.choice([0.0, 1.0, 2.0]) * r.uniform(0.5, 1.5) for _ in range(nh * npts)])   # no sums within an ulp of 1 (pandas' cumsum is compensated)
        # P_RAJ_D of the last hysteresis decides q: anywhere in the grid, also on an edge
        pdcol = []
        for i in range(nh):
            for k in range(npts):
                e = es[:, k] if npts > 1 else es
                j = r.randrange(nb + 1)
                pdcol.append(float(e[j]) if r.random() < 0.3 else float(e[j]) * r.uniform(0.9, 1.1))
        df = pd.DataFrame(index=idx, data={"S_min": 0.0, "P_RAJ": np.array(Ps), "D": Dcol, "P_RAJ_D": np.array(pdcol),
                                           "run_index": np.array([f[2] for f in flags for _ in range(npts)], dtype=np.int64)})
        ap = pd.Series({"MatGroupFKM": case["group"], "P_RAJ_Z": pz, "P_RAJ_D_0": pd0, "d_RAJ": d, "n_bins": nb, "a_0": a0, "a_end": 0.5, "l_star": ls,
                        "P_RAJ_D_e": pde, "P_RAJ_klass_max": kmax})
        with _quiet():
            curve = ap[["P_RAJ_Z", "P_RAJ_D_0", "d_RAJ"]].woehler_P_RAJ
            dc = DC.DamageCalculatorPRAJ(df, ap, curve)
        qmin = max(int(np.min(np.asarray(dc._q))), 0)
        ml, il = [], []
        for k in range(npts):
            e = es[:, k] if npts > 1 else es
            ck = df[df.index.get_level_values("assessment_point_index") == k]
            toks = ["praj.calc", f2h(d), f2h(pz), f2h(pd0), f2h(a0), f2h(ls), f2h(pde), str(nb), "-" if npts == 1 else str(qmin), str(nh)]
            for _, row in ck.iterrows():
                toks += [f2h(row.P_RAJ), f2h(row.D), f2h(row.P_RAJ_D), str(int(row.run_index))]
            toks += [f2h(v) for v in e]
            ml.append(" ".join(toks))
            idxk = int(np.asarray(dc._n_cycles_until_damage).reshape(-1)[k])
            inf = bool(np.asarray(dc.is_life_infinite).reshape(-1)[k] if npts > 1 else np.asarray(dc.is_life_infinite).reshape(-1)[0])
            il.append(" ".join(str(int(v)) for v in np.asarray(dc._binned_h)[k]) +
                      f" {int(np.asarray(dc._n_not_in_bin).reshape(-1)[k])} {int(np.asarray(dc._H_0).reshape(-1)[k])} {int(np.asarray(dc._q).reshape(-1)[k])} "
                      f"{idxk} {int(idxk < dc._n_hystereses)} {int(inf)} " +
                      " ".join(f2h(v) for v in (float(np.asarray(dc._xbar_minus_2, dtype=float).reshape(-1)[k]),
                                                _vec(dc.lifetime_n_times_load_sequence, npts)[k], _vec(dc.lifetime_n_cycles, npts)[k])))
        self.stats["points"] += npts
        return {"ml": ml, "il": il, "oracle": None, "trivial": False}

    # ------------------------------------------------------------ the interface used by harness/c10.py
    def model_lines(self, case):
        self._count("sub", case["sub"])
        return self._eval(case)["ml"]

    def impl_lines(self, case):
        return self._eval(case)["il"]

    def compare(self, case, model_out, impl_out):
        if len(model_out) != len(impl_out):
            return f"length {len(model_out)} vs {len(impl_out)}"
        for li, (m, i) in enumerate(zip(model_out, impl_out)):
            if m == i:
                continue
            if "|" in i or m == "fail":
                r = compare_run(m, i, f"P_RAJ pipeline ({case['sub']}), line {li}")
            else:
                r = _cmp_tokens(m.split(), i.split(), lambda j: 1e-300, f"P_RAJ pipeline ({case['sub']}), line {li}")
            if r:
                return r
        return None

    def oracle(self, case):
        return self._eval(case)["oracle"]

    def nontrivial(self, case, model_out):
        if not model_out or self._eval(case)["trivial"]:
            return None
        return self._key(case)[:400]


_P = Praj()


def generate(rng, tier):
    return _P.generate(rng, tier)


def model_lines(case):
    return _P.model_lines(case)


def impl_lines(case):
    return _P.impl_lines(case)


def compare(case, model_out, impl_out):
    return _P.compare(case, model_out, impl_out)


def oracle(case):
    return _P.oracle(case)


def nontrivial(case, model_out):
    return _P.nontrivial(case, model_out)


def precompute(cases, procs=16):
    _P.precompute(cases, procs)


def stats():
    return _P.stats
