"""Entry point: ./check Cxx [--tier quick|thorough] [--replay file]"""
import argparse
import importlib
import os
import sys
import traceback

REGISTRY = {
    "C01": ("harness.rainflow", "C01"),
    "C02": ("harness.rainflow", "C02"),
    "C03": ("harness.rainflow", "C03"),
}


def main():
    ap = argparse.ArgumentParser()
    ap.add_argument("prop")
    ap.add_argument("--tier", default=os.environ.get("VERIF_TIER", "quick"), choices=["quick", "thorough"])
    ap.add_argument("--replay")
    args = ap.parse_args()
    seed = int(os.environ.get("VERIF_SEED", "1"))
    if args.prop not in REGISTRY:
        # convention: harness/cxx.py defines class Cxx
        if os.path.exists(os.path.join(os.path.dirname(__file__), args.prop.lower() + ".py")):
            REGISTRY[args.prop] = ("harness." + args.prop.lower(), args.prop)
        else:
            print(f"unknown property {args.prop}")
            return 2
    try:
        if os.environ.get("PYLIFE_REPO"):   # a scratch copy of the repository instead of /repo
            sys.path.insert(0, os.path.join(os.environ["PYLIFE_REPO"], "src"))
        from harness import core
        modname, clsname = REGISTRY[args.prop]
        mod = importlib.import_module(modname)
        prop = getattr(mod, clsname)()
        return core.run_check(prop, args.tier, seed, args.replay)
    except Exception:
        traceback.print_exc()
        print("infrastructure error (not a verdict on the property)")
        return 2


if __name__ == "__main__":
    sys.exit(main())
