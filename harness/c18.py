"""C18: Woehler test-data analysis (pylife/materialdata/woehler): equivariance under load / cycle scaling, permutation
invariance, zone partition, exact recovery of a Basquin line, maximum likelihood not worse than its start.

Implementation side + generators + direct property oracle.  Lean model: lean/Model/WoehlerAnalysis.lean, protocol handler
lean/Driver/WoehlerAnalysis.lean (ops `c18.*`), theorems lean/Proofs/C18.lean.

Tolerances (documented choice).  Elementary and Probit are closed forms (sums, two regressions, sort): a transformed run
must reproduce every parameter to 1e-9 relative (summation order and libm ulps, amplified by the regressions; observed
<= 4e-14).  MaxLikeInf / MaxLikeFull end in scipy's Nelder-Mead (`optimize.fmin`, xtol = ftol = 1e-4 ABSOLUTE): the
simplex path is scale-equivariant but the absolute stopping rule is not, so two runs agree only as far as the optimiser
resolves the optimum; the property's relations are checked at ML_RTOL relative (measured, see ML_RTOL below) and the
log-likelihood of the two answers must agree within ML_LTOL."""
import json
import math
import os
import random
import subprocess
import sys
import warnings

import numpy as np
import pandas as pd

from .core import Prop, f2h, h2f, close

SOURCES = [
    "src/pylife/materialdata/woehler/fatigue_data.py",
    "src/pylife/materialdata/woehler/elementary.py",
    "src/pylife/materialdata/woehler/probit.py",
    "src/pylife/materialdata/woehler/maxlike.py",
    "src/pylife/materialdata/woehler/likelihood.py",
    "src/pylife/materialdata/woehler/pearl_chain.py",
    "src/pylife/utils/probability_data.py",
]

KEYS = ["k_1", "ND", "SD", "TN", "TS"]
CF_RTOL = 1e-9        # closed-form analyzers
ML_RTOL = 1e-5        # ML analyzers: an optimum of a double-precision objective is located to about sqrt(eps) ~ 1e-8 in the parameters, ND amplifies SD by the slope (<= 12) and Nelder-Mead adds path noise: measured <= 4e-7 on the repaired code, 1e-5 is the no-flake bound (unrepaired code: up to 6e-4 MaxLikeInf, 0.13 MaxLikeFull)
ML_LTOL = 2e-4        # agreement of the log-likelihood of two optimiser answers; slack of "not worse than the start"
K_RTOL = 1e-9         # model (Float) vs code
FACTORS = [3.0, 7.0, 1000.0]
C_STD = 0.39015207303618954


def _woe():
    import pylife.materialdata.woehler as woe
    return woe


def make_df(rows, labels=None):
    """the data frame handed to the real code; `labels` = row labels (None: a fresh RangeIndex)"""
    return pd.DataFrame({"load": [float(r[0]) for r in rows], "cycles": [float(r[1]) for r in rows],
                         "fracture": [bool(r[2]) for r in rows]}, index=labels)


def analyze(name, rows, labels=None):
    """run one analyzer of the real code; returns dict of floats or {'error': kind}"""
    woe = _woe()
    A = getattr(woe, name)
    with warnings.catch_warnings():
        warnings.simplefilter("ignore")
        with np.errstate(all="ignore"):
            try:
                r = A(make_df(rows, labels)).analyze()
            except ValueError as e:
                return {"error": "ValueError: " + str(e)[:60]}
            except Exception as e:      # any other exception of the code under test is an answer, not an infrastructure error
                return {"error": type(e).__name__ + ": " + str(e)[:60]}
    return {k: float(r[k]) for k in KEYS}


_FRESH_SCRIPT = """
import json, sys, warnings
sys.path.insert(0, sys.argv[1]); sys.path.insert(0, sys.argv[2])
from harness.c18 import analyze
job = json.load(sys.stdin)
print("RESULT " + json.dumps({n: analyze(n, job["rows"]) for n in job["names"]}))
"""


def analyze_fresh(names, rows):
    """the analyzers' results for `rows` as the FIRST analyses of a fresh interpreter (same pylife source tree)"""
    import pylife
    src = os.path.dirname(os.path.dirname(os.path.abspath(pylife.__file__)))
    verif = os.path.dirname(os.path.dirname(os.path.abspath(__file__)))
    p = subprocess.run([sys.executable, "-W", "ignore", "-c", _FRESH_SCRIPT, verif, src],
                       input=json.dumps({"rows": rows, "names": names}), capture_output=True, text=True, timeout=900)
    for line in p.stdout.splitlines():
        if line.startswith("RESULT "):
            return json.loads(line[7:])
    raise RuntimeError("fresh-interpreter reference failed: " + (p.stderr or p.stdout)[-400:])


def same(a, b, rtol):
    if a != a and b != b:
        return True
    return close(a, b, rtol=rtol)


# ------------------------------------------------------------------ admissibility (independent of pylife)
def zone_info(rows):
    run = [r for r in rows if not r[2]]
    if not run:
        return None, [r for r in rows], []
    m = max(r[0] for r in run)
    return m, [r for r in rows if r[2] and r[0] > m], [r for r in rows if r[0] <= m]


def admissible(rows):
    """at least two load levels with fractures in the finite zone, a spread of their cycle numbers, and the finite-zone
    fractures not (numerically) on one Basquin line - two fractures always are: that is the `exact` kind with its own
    oracle (the scatter estimate is then a 0/0, known finding exact-basquin-scatter)"""
    _m, fin, _inf = zone_info(rows)
    ff = [r for r in fin if r[2]]
    if not (len({r[0] for r in ff}) >= 2 and len({r[1] for r in ff}) >= 2):
        return False
    if len(ff) < 3:
        return False
    x = np.log10([r[0] for r in ff])
    y = np.log10([r[1] for r in ff])
    a, b = np.polyfit(x, y, 1)
    if not a < -1.0:
        return False      # k_1 <= 1: not Woehler data (see ASSUMPTIONS): TS = TN^(1/k_1) < 1 or astronomic, the ML start is outside the model's domain
    return float(np.max(np.abs(y - (a * x + b)))) > 1e-6


def exact_admissible(rows):
    _m, fin, _inf = zone_info(rows)
    ff = [r for r in fin if r[2]]
    return len({r[0] for r in ff}) >= 2 and len({r[1] for r in ff}) >= 2


def ml_admissible(rows):
    """MaxLikeInf: two mixed levels and three fractures on two levels in the infinite zone (else the code raises), and
    the share of fractures per load level of the infinite zone does not fall with the load and rises somewhere: otherwise
    the probit-type likelihood has no interior maximum and the optimiser runs away (see ASSUMPTIONS)"""
    _m, _fin, inf = zone_info(rows)
    fl = {r[0] for r in inf if r[2]}
    rl = {r[0] for r in inf if not r[2]}
    if not (len(fl & rl) >= 2 and sum(1 for r in inf if r[2]) >= 3 and len(fl) >= 2):
        return False
    share = []
    for L in sorted({r[0] for r in inf}):
        g = [r for r in inf if r[0] == L]
        share.append(sum(1 for r in g if r[2]) / len(g))
    return all(b >= a for a, b in zip(share, share[1:])) and share[-1] > share[0]


# ------------------------------------------------------------------ generators
def logu(rng, lo, hi):
    return 10.0 ** rng.uniform(math.log10(lo), math.log10(hi))


def gen_rows(rng, ml=False):
    for _ in range(200):
        k = rng.uniform(3, 12)
        SD = rng.choice([logu(rng, 1, 1000), 300.0, 100.0])
        ND = logu(rng, 3e5, 3e6)
        TN = rng.uniform(1.5, 6)
        TS = rng.uniform(1.05, 1.4) if not ml else rng.uniform(1.1, 1.5)
        sN, sS = C_STD * math.log10(TN), C_STD * math.log10(TS)
        nlev = rng.choice([5, 6, 7])
        lo = rng.choice([0.75, 0.8, 0.85, 0.9]) if not ml else rng.choice([0.8, 0.85])
        step = rng.choice([0.05, 0.08, 0.1]) if not ml else rng.choice([0.06, 0.08])
        levels = [SD * (lo + step * i) for i in range(nlev)]
        if rng.random() < 0.3:
            levels = [float(round(L)) if L > 20 else L for L in levels]
        limit = rng.choice([1e7, 2e6, 5e6])
        rows = []
        mode = rng.choice(["natural", "natural", "natural", "no_runouts", "pure_runout_levels"]) if not ml else "natural"
        for L in levels:
            n = rng.choice([2, 3, 4, 5, 6])
            for _ in range(n):
                sd_i = SD * 10 ** rng.gauss(0, sS)
                N = ND * (L / SD) ** (-k) * 10 ** rng.gauss(0, sN)
                if mode == "no_runouts":
                    rows.append([L, min(N, limit * 0.99), True])
                elif L <= sd_i or N >= limit:
                    rows.append([L, limit, False])
                else:
                    rows.append([L, N, True])
        if mode == "pure_runout_levels":
            for f in rng.sample([0.4, 0.5, 0.6, 0.65], rng.choice([2, 3])):
                rows += [[SD * f, limit, False] for _ in range(rng.choice([1, 2]))]
        rng.shuffle(rows)
        if admissible(rows) and (not ml or ml_admissible(rows)):
            return rows, {"k_1": k, "ND": ND, "SD": SD, "TN": TN, "TS": TS}
    raise RuntimeError("generator could not produce an admissible data set")


def gen_labels(rng, rows):
    """row labels: they carry no information about the tests.  `concat` = two series put together with pd.concat
    without ignore_index (each part numbered from 0: labels repeat ACROSS the zones)"""
    n = len(rows)
    scheme = rng.choice(["concat", "concat", "concat", "shuffled", "strings", "level", "const", "concat_str", "halves"])
    m, _fin, _inf = zone_info(rows)
    if scheme in ("concat", "concat_str"):
        cnt, labels = [0, 0], []
        for r in rows:
            part = 0 if (m is None or r[0] > m) else 1
            labels.append(cnt[part])
            cnt[part] += 1
        if scheme == "concat_str":
            labels = [f"s{v}" for v in labels]
    elif scheme == "halves":
        labels = [i % ((n + 1) // 2) for i in range(n)]
    elif scheme == "shuffled":
        labels = list(range(n))
        rng.shuffle(labels)
    elif scheme == "strings":
        labels = [f"test-{i:03d}" for i in range(n)]
        rng.shuffle(labels)
    elif scheme == "level":
        labels = [f"L{r[0]:.6g}" for r in rows]
    else:
        labels = [0] * n
    return labels


def gen_data(rng):
    rows, p = gen_rows(rng)
    q = {k: v * rng.uniform(0.8, 1.25) for k, v in p.items()}
    q["TN"], q["TS"] = max(q["TN"], 1.05), max(q["TS"], 1.02)
    return {"kind": "data", "rows": rows, "points": [p, q], "perm_seed": rng.randrange(10 ** 6),
            "labels": gen_labels(rng, rows)}


def gen_ml(rng, name):
    rows, p = gen_rows(rng, ml=True)
    return {"kind": "ml", "analyzer": name, "rows": rows, "points": [p], "perm_seed": rng.randrange(10 ** 6),
            "factor": rng.choice(FACTORS), "labels": gen_labels(rng, rows)}


def gen_one_mixed(rng):
    """a data set with run-outs but ONE mixed load level (and one pure run-out level below): MaxLikeFull then fixes TS to
    the pearl-chain value ('less than two mixed load levels')"""
    k = rng.uniform(4, 9)
    SD = rng.choice([logu(rng, 50, 600), 300.0])
    ND = logu(rng, 5e5, 2e6)
    sN = C_STD * math.log10(rng.uniform(1.05, 2.0))
    limit = 1e7
    rows = []
    for f in rng.sample([1.2, 1.35, 1.5, 1.65, 1.8], rng.choice([3, 4])):
        for _ in range(rng.choice([3, 4, 5])):
            rows.append([SD * f, ND * f ** (-k) * 10 ** rng.gauss(0, sN), True])
    n_mixed = rng.choice([4, 5, 6])
    n_frac = rng.randint(1, n_mixed - 1)
    for i in range(n_mixed):
        rows.append([SD, ND * 10 ** rng.gauss(0, sN), True] if i < n_frac else [SD, limit, False])
    for _ in range(rng.choice([2, 3, 4])):
        rows.append([SD * 0.85, limit, False])
    rng.shuffle(rows)
    return rows


def gen_history(rng):
    """a session: `first` is analysed, then `rows`; the results for `rows` must be those of a fresh interpreter"""
    rows, p = gen_rows(rng, ml=True)
    return {"kind": "history", "first": gen_one_mixed(rng), "rows": rows}


def gen_exact(rng):
    k = rng.choice([rng.uniform(2, 15), float(rng.randint(2, 12)), 0.5 * rng.randint(4, 20)])
    SD = rng.choice([logu(rng, 1, 1000), 100.0, 256.0])
    ND = rng.choice([logu(rng, 1e5, 1e7), 1e6, 2.0 ** 20])
    nlev = rng.randint(2, 7)
    levels = rng.choice([[SD * (1.1 + 0.1 * i) for i in range(nlev)], [SD * 2 ** (i + 1) for i in range(nlev)],
                         [SD * rng.uniform(1.05, 3) for _ in range(nlev)]])
    n = rng.randint(1, 3)
    rows = [[L, ND * (L / SD) ** (-k), True] for L in levels for _ in range(n)]
    if rng.random() < 0.5:
        rows += [[SD * 0.9, 1e9, False]] * rng.choice([1, 2])
    rng.shuffle(rows)
    if not exact_admissible(rows):
        return gen_exact(rng)
    return {"kind": "exact", "rows": rows, "k": k, "SD0": SD, "ND0": ND}


def permuted(rows, seed):
    r = list(rows)
    random.Random(seed).shuffle(r)
    return r


def scaled(rows, cl=1.0, cn=1.0):
    return [[r[0] * cl, r[1] * cn, r[2]] for r in rows]


def wire(rows):
    return " ".join(f"{f2h(r[0])} {f2h(r[1])} {1 if r[2] else 0}" for r in rows)


class C18(Prop):
    ID = "C18"
    SOURCES = SOURCES
    LEAN_MODULES = ["Proofs.C18"]
    THEOREMS = [f"PylifeVerif.C18.{t}" for t in [
        "ols_shift_equivariant", "ols_scale_equivariant", "ols_perm_invariant",
        "zones_partition",
        "elementary_load_scale", "elementary_cycle_scale", "elementary_perm_invariant",
        "probit_load_scale", "probit_cycle_scale", "probit_perm_invariant",
        "exact_basquin_slope", "exact_basquin_no_scatter_partial",
        "likelihood_invariant_under_scaling", "ml_not_worse_than_start_partial"]]
    PARTIAL = {
        "PylifeVerif.C18.exact_basquin_no_scatter_partial":
            "proved: for data exactly on a Basquin line the slope is recovered and all shifted (pearl chain) cycles coincide, i.e. "
            "the probability-net regression the code performs has Sxx = 0 (a 0/0).  NOT provable: TN = TS = 1 - the quotient is "
            "undefined in exact arithmetic; the real code returns NaN / inf / arbitrary values depending on rounding "
            "(known finding exact-basquin-scatter).",
        "PylifeVerif.C18.ml_not_worse_than_start_partial":
            "proved: an optimiser that never returns a point worse than its start (the Nelder-Mead contract: the best vertex of "
            "the simplex is kept) yields a likelihood >= the likelihood of the start point.  ASSUMED: that scipy.optimize.fmin "
            "honours this contract; MaxLikeInf starts from (finite_infinite_transition, TS = 1.2), not from the elementary TS - "
            "the comparison is against the point actually used.  Measured per run on the real code.",
    }
    RULE = ("case = data (synthetic S-N data set: 5-7 load levels x 2-6 tests, log-normal scatter in load and cycle direction, "
            "run-outs at a cycle limit, optionally no run-outs or extra pure run-out levels, shuffled rows) | ml (data set with >= 2 "
            "mixed levels + analyzer MaxLikeInf / MaxLikeFull) | exact (data exactly on a Basquin line).  Correspondence: Lean model "
            "(Float) vs real code for zones, irrelevant-run-out dropping, Elementary, Probit and the likelihood functions (1e-9 "
            "relative, zones exact).  Oracle (real code only): analyzer(transformed data) vs transformed analyzer(data) for load "
            "factors 3, 7, 1000, cycle factors 3, 7, 1000 and a row permutation; each test in exactly one zone on the correct side of "
            "the reported transition; slope / scatter on exact Basquin data; likelihood(result) >= likelihood(start).  "
            "Row labels of the frames handed to the code: fresh RangeIndex, shuffled, strings, and "
            "labels repeating across / within the zones (pd.concat of two series without ignore_index); zone membership is "
            "identified by position and counted.  history = a session (data set with ONE mixed level analysed first, then an "
            "ML-admissible data set by all four analyzers) compared with the same analyses as the first ones of a fresh "
            "interpreter (subprocess).  Non-trivial = every case (distinct cases counted)")
    ASSUMPTIONS = [
        "C18: theorems are over the reals; scipy.stats.linregress is modelled by the OLS closed form, norm.ppf / norm.cdf by "
        "arbitrary functions Q / Phi (the equivariance proofs need nothing about them); np.sort by insertion sort; groupby('load') "
        "by the ascending distinct levels",
        "C18: admissible data set = at least two fractured load levels with a spread of cycles in the FINITE zone and at least three finite-zone fractures that are not collinear in log-log (two points are always an exact Basquin line: kind `exact`) (otherwise the "
        "analyzers warn and return NaN, or raise - loud), positive loads and cycles, the automatic finite/infinite transition "
        "(set_finite_infinite_transition / conservative_finite_infinite_transition are opt-in and not covered)",
        "C18: admissible additionally means that the finite-zone regression is a Woehler line with k_1 > 1 (a falling S-N curve). Few "
        "finite-zone tests with large scatter can give k_1 <= 0; the code then returns TS = TN^(1/k_1) < 1 silently and the ML "
        "analyzers start outside the model's parameter domain and run away (observed on the repaired tree: SD = 2e5, ND = 1e-19, "
        "TS = 3e-26, row-order dependent at 7e-3) - no estimate exists there, nothing is claimed",
        "C18: ML-admissible additionally means that the share of fractures per load level of the infinite zone does not fall with "
        "the load: for staircase data with an inverted level the likelihood in (SD, TS) has no interior maximum and fmin runs "
        "away (observed on the repaired tree: TS = 2e8 / 1.6e29, SD = 4.9e5, ND = 0) - no estimate exists there, nothing is claimed",
        "C18: under load scaling ND is compared only when the reported SD is not 0: with no run-outs the code reports SD = 0 and "
        "evaluates ND at the fixed load 0.1 (a FIXME in the source), which the property's sentence on load scaling does not mention",
        "C18: scipy.optimize.fmin (Nelder-Mead) is external: assumed never to return a point worse than its start; its absolute "
        "stopping tolerances limit the equivariance of the ML analyzers to about 1e-4 relative (documented in the module docstring)",
        "C18: bayesian.py (pymc) is not part of the property",
        "C18 (formalisation choice): 'the estimate for a data set' is a function of the tests (load, cycles, fracture) alone - "
        "not of the row labels of the DataFrame (checked: repeating / shuffled / string labels vs a fresh RangeIndex) and not of "
        "what the process analysed before (checked: history cases, reference = first analysis of a fresh interpreter). The "
        "property quantifies over data sets, not over sessions; without this reading its relations between two runs are meaningless",
    ]

    def __init__(self):
        self.stats = {}
        self.exhaustive = False

    def _count(self, key, n=1):
        self.stats[key] = self.stats.get(key, 0) + n

    # -------------------------------------------------------------- generation
    def generate(self, rng, tier):
        big = tier != "quick"
        n_data, n_exact, n_inf, n_full, n_hist = (32, 30, 5, 1, 1) if not big else (500, 400, 50, 8, 12)
        for _ in range(n_hist):       # first: later cases of the run cannot have prepared the interpreter state for them
            yield gen_history(rng)
        for _ in range(n_data):
            yield gen_data(rng)
        for _ in range(n_exact):
            yield gen_exact(rng)
        for _ in range(n_inf):
            yield gen_ml(rng, "MaxLikeInf")
        for _ in range(n_full):
            yield gen_ml(rng, "MaxLikeFull")

    # -------------------------------------------------------------- correspondence
    def model_lines(self, case):
        w = wire(case["rows"])
        k = case["kind"]
        if k == "history":
            return []
        if k == "exact":
            return [f"c18.elem {w}"]
        lines = [f"c18.zones {w}", f"c18.drop {w}"]
        if k == "data":
            lines += [f"c18.elem {w}", f"c18.probit {w}"]
        for p in case["points"]:
            lines.append(f"c18.lik {f2h(p['SD'])} {f2h(p['TS'])} {f2h(p['k_1'])} {f2h(p['ND'])} {f2h(p['TN'])} {w}")
        return lines

    def impl_lines(self, case):
        woe = _woe()
        k = case["kind"]
        self._count("cases_" + k)
        rows = case["rows"]

        labels = case.get("labels")

        def curve(name):
            r = analyze(name, rows, labels)
            return r["error"] if "error" in r else " ".join(f2h(r[key]) for key in KEYS)
        if k == "history":
            return []
        if k == "exact":
            return [curve("Elementary")]
        self._count("labels_" + ("range" if labels is None else "unique" if len(set(labels)) == len(labels) else "repeating"))
        with warnings.catch_warnings():
            warnings.simplefilter("ignore")
            df = make_df(rows, labels)
            df["pos"] = range(len(df))          # the position identifies a test whatever its row label is
            fd = df.fatigue_data
            tr = float(fd.finite_infinite_transition)
            fi, ii = list(fd.finite_zone.pos), list(fd.infinite_zone.pos)
            flags = ["B" if (i in fi and i in ii) else "F" if i in fi else "I" if i in ii else "N" for i in range(len(df))]
            self._count("zone_tests_finite", len(fi))
            self._count("zone_tests_infinite", len(ii))
            self._count("datasets_without_runouts" if fd.num_runouts == 0 else "datasets_with_runouts")
            kept = fd.irrelevant_runouts_dropped()._obj
            if len(kept) < len(df):
                self._count("datasets_with_dropped_runouts")
            out = [f"{f2h(tr)} {len(fi)} {len(ii)} | " + " ".join(flags),
                   f"{len(kept)} | " + " ".join(f2h(v) for v in kept.load.values)]
            if k == "data":
                out += [curve("Elementary"), curve("Probit")]
            lh = woe.likelihood.Likelihood(fd)
            for p in case["points"]:
                with np.errstate(all="ignore"):
                    q = {key: np.float64(v) for key, v in p.items()}      # the code expects numpy scalars (`(SD > 0.0).all()`)
                    a = float(lh.likelihood_finite(q["SD"], q["k_1"], q["ND"], q["TN"]))
                    b = float(lh.likelihood_infinite(q["SD"], q["TS"]))
                out.append(" ".join("-inf" if v == -math.inf else f2h(v) for v in (a, b)))
        return out

    def compare(self, case, model_out, impl_out):
        if len(model_out) != len(impl_out):
            return f"length {len(model_out)} vs {len(impl_out)}"
        for i, (a, b) in enumerate(zip(model_out, impl_out)):
            if a == b:
                continue
            ta, tb = a.split(), b.split()
            if len(ta) != len(tb):
                return f"line {i}: model={a[:200]!r} impl={b[:200]!r}"
            for j, (x, y) in enumerate(zip(ta, tb)):
                if x == y:
                    continue
                if len(x) == 16 and len(y) == 16:
                    fx, fy = h2f(x), h2f(y)
                    if case["kind"] == "exact" and j >= 3:
                        continue      # TN / TS of a 0/0 regression: rounding noise on both sides (see the oracle)
                    if same(fx, fy, K_RTOL) or abs(fx - fy) <= 1e-9:
                        continue
                    return f"line {i} token {j}: model={fx!r} impl={fy!r}"
                return f"line {i} token {j}: model={x!r} impl={y!r}"
        return None

    def nontrivial(self, case, model_out):
        return json.dumps(case, sort_keys=True)

    # -------------------------------------------------------------- oracle
    def oracle(self, case):
        k = case["kind"]
        if k == "history":
            return self._oracle_history(case)
        if k == "data":
            return self._oracle_zones(case) or self._oracle_equivariance(case, ["Elementary", "Probit"], CF_RTOL, FACTORS)
        if k == "ml":
            return (self._oracle_equivariance(case, [case["analyzer"]], ML_RTOL, [case["factor"]])
                    or self._oracle_ml_start(case))
        if k == "exact":
            return self._oracle_exact(case)
        return None

    def _oracle_zones(self, case):
        rows, labels = case["rows"], case.get("labels")
        _woe()                                  # registers the `fatigue_data` accessor
        with warnings.catch_warnings():
            warnings.simplefilter("ignore")
            df = make_df(rows, labels)
            df["pos"] = range(len(df))          # the position identifies a test whatever its row label is
            fd = df.fatigue_data
            tr = float(fd.finite_infinite_transition)
            fi, ii = [int(v) for v in fd.finite_zone.pos], [int(v) for v in fd.infinite_zone.pos]
        if len(fi) + len(ii) != len(rows):
            return (f"the zones hold {len(fi)} + {len(ii)} of the {len(rows)} tests (transition {tr!r}; row labels "
                    f"{'repeat' if labels is not None and len(set(labels)) < len(labels) else 'are unique'})", "zones-partition")
        for i, r in enumerate(rows):
            n = fi.count(i) + ii.count(i)
            if n != 1:
                return (f"test {i} (load {r[0]!r}, fracture {bool(r[2])}, label {labels[i] if labels else i!r}) is in {n} zones "
                        f"(transition {tr!r})", "zones-partition")
            L = float(r[0])
            if i in fi and not (L > tr and bool(r[2])):
                return (f"finite-zone test {i}: load {L!r} not above the reported transition {tr!r} or not a fracture", "zones-partition")
            if i in ii and fi and not L < tr:
                return (f"infinite-zone test {i}: load {L!r} not below the reported transition {tr!r}", "zones-partition")
        return None

    def _oracle_equivariance(self, case, names, rtol, factors):
        rows = case["rows"]
        for name in names:
            base = analyze(name, rows)
            variants = [("rows permuted", permuted(rows, case["perm_seed"]), {}, None)]
            if case.get("labels") is not None:
                lab = case["labels"]
                variants.append((f"same rows with {'repeating' if len(set(lab)) < len(lab) else 'other unique'} row labels "
                                 f"(e.g. {lab[:4]!r}) instead of a fresh RangeIndex", rows, {}, lab))
            for c in factors:
                variants.append((f"loads x {c:g}", scaled(rows, cl=c), {"SD": c}, None))
                variants.append((f"cycles x {c:g}", scaled(rows, cn=c), {"ND": c}, None))
            for what, vrows, fac, vlabels in variants:
                got = analyze(name, vrows, vlabels)
                self._count("analyzer_runs_" + name)
                if ("error" in base) != ("error" in got):
                    return (f"{name}: {what}: {got.get('error', 'a result')} but the original data give "
                            f"{base.get('error', 'a result')}", "equivariance-" + name)
                if "error" in base:
                    self._count("analyzer_rejects_" + name)
                    continue
                for key in KEYS:
                    if key == "ND" and what.startswith("loads") and base["SD"] == 0.0:
                        continue
                    want = base[key] * fac.get(key, 1.0)
                    if not same(got[key], want, rtol):
                        return (f"{name}: {what}: {key} = {got[key]!r}, expected {want!r} (original {base[key]!r}); "
                                f"relative deviation {abs(got[key] - want) / abs(want) if want else float('inf'):.3g}",
                                "equivariance-" + name)
        return None

    def _oracle_history(self, case):
        """the estimate for a data set is a function of the data set: analysing `first` before it changes nothing"""
        names = ["Elementary", "Probit", "MaxLikeInf", "MaxLikeFull"]
        ref = analyze_fresh(names, case["rows"])                  # fresh interpreter: B alone
        for name in ("Elementary", "Probit", "MaxLikeFull"):      # A (one mixed level: MaxLikeInf rejects it)
            analyze(name, case["first"])
        self._count("history_sessions")
        for name in names:
            got = analyze(name, case["rows"])                     # B after A, in this (long-lived) process
            base = ref[name]
            if ("error" in base) != ("error" in got):
                return (f"{name}: after analysing another data set first: {got.get('error', 'a result')}, as the first analysis "
                        f"of a fresh interpreter: {base.get('error', 'a result')}", "history-" + name)
            if "error" in base:
                continue
            rtol = CF_RTOL if name in ("Elementary", "Probit") else ML_RTOL
            for key in KEYS:
                if not same(got[key], base[key], rtol):
                    return (f"{name}: the result depends on what was analysed before: {key} = {got[key]!r} after a data set with "
                            f"one mixed load level, {base[key]!r} as the first analysis of a fresh interpreter (relative deviation "
                            f"{abs(got[key] - base[key]) / abs(base[key]) if base[key] else float('inf'):.3g})", "history-" + name)
        return self._oracle_ml_start(dict(case, analyzer="MaxLikeFull"))

    def _oracle_ml_start(self, case):
        woe = _woe()
        name = case["analyzer"]
        with warnings.catch_warnings():
            warnings.simplefilter("ignore")
            with np.errstate(all="ignore"):
                try:
                    an = getattr(woe, name)(make_df(case["rows"]))
                    res = an.analyze()
                except ValueError:
                    return None
                lh = woe.likelihood.Likelihood(an._fd)
                if name == "MaxLikeInf":
                    start = (float(an._fd.finite_infinite_transition), 1.2)
                    l0 = float(lh.likelihood_infinite(*start))
                    l1 = float(lh.likelihood_infinite(float(res["SD"]), float(res["TS"])))
                else:
                    el = woe.Elementary(make_df(case["rows"])).analyze()
                    start = tuple(float(el[k]) for k in KEYS)
                    l0 = float(lh.likelihood_total(el["SD"], el["TS"], el["k_1"], el["ND"], el["TN"]))
                    l1 = float(lh.likelihood_total(res["SD"], res["TS"], res["k_1"], res["ND"], res["TN"]))
        self._count("ml_start_checks_" + name)
        if not (l1 >= l0 - 1e-9 * max(1.0, abs(l0))):
            return (f"{name}: log-likelihood of the result {l1!r} is lower than at its start point {start!r}: {l0!r}",
                    "ml-worse-than-start")
        return None

    def _oracle_exact(self, case):
        r = analyze("Elementary", case["rows"])
        if "error" in r:
            return (f"Elementary on exact Basquin data: {r['error']}", "exact-basquin-slope")
        if not same(r["k_1"], case["k"], 1e-9):
            return (f"exact Basquin data with slope {case['k']!r}: k_1 = {r['k_1']!r}", "exact-basquin-slope")
        for key in ("TN", "TS"):
            if not (abs(r[key] - 1.0) <= 1e-6):
                self._count("exact_scatter_" + ("nan" if r[key] != r[key] else "inf" if abs(r[key]) == math.inf else "off"))
                return (f"exact Basquin data (k = {case['k']!r}): {key} = {r[key]!r} instead of 1", "exact-basquin-scatter")
        self._count("exact_scatter_one")
        return None

    # -------------------------------------------------------------- shrinking
    def shrink(self, case, still_fails):
        import time
        cur = dict(case)
        changed = True
        t_end = time.time() + (45 if case["kind"] in ("history", "ml") else 90)     # ML / history oracles cost seconds per call
        while changed and len(cur["rows"]) > 2 and time.time() < t_end:
            changed = False
            for i in range(len(cur["rows"])):
                if time.time() >= t_end:
                    break
                rows = cur["rows"][:i] + cur["rows"][i + 1:]
                if not (exact_admissible(rows) if cur["kind"] == "exact" else admissible(rows)):
                    continue
                if cur["kind"] in ("ml", "history") and not ml_admissible(rows):
                    continue
                cand = dict(cur, rows=rows)
                if cur.get("labels") is not None:
                    cand["labels"] = cur["labels"][:i] + cur["labels"][i + 1:]
                try:
                    if still_fails(cand):
                        cur, changed = cand, True
                        break
                except Exception:
                    continue
        return cur
