"""C18: Woehler test-data analysis (pylife/materialdata/woehler): equivariance under load / cycle scaling, permutation
invariance, zone partition, exact recovery of a Basquin line, maximum likelihood not worse than its start.

Implementation side + generators + direct property oracle.  Lean model: lean/Model/WoehlerAnalysis.lean, protocol handler
lean/Driver/WoehlerAnalysis.lean (ops `c18.*`), theorems lean/Proofs/C18.lean.

Tolerances (documented choice).  Elementary and Probit are closed forms (sums, two regressions, sort): a transformed run
must reproduce every parameter to 1e-9 relative (summation order and libm ulps, amplified by the regressions; observed
<= 4e-14).  MaxLikeInf / MaxLikeFull end in scipy's Nelder-Mead (`optimize.fmin`); since fix fc45e06 the code optimises
parameters RELATIVE to their start values (a zero start value is left unscaled) with xtol = 1e-10 and scipy's default ftol, so the objective handed to the optimiser is the
same function for a scaled / permuted data set (theorems maxLikeInf_* / maxLikeFull_*: equivariance for ANY optimiser);
two real runs still differ by rounding in the objective, which Nelder-Mead amplifies to about sqrt(eps) in the
parameters: the relations are checked at ML_RTOL (measured, see below).

The optimiser is the one external ingredient.  The harness puts a recording proxy in the place of the name `optimize`
inside pylife.materialdata.woehler.maxlike: it passes every call on to scipy's real `fmin` (oracle runs), or - for the
model correspondence only - answers with a vector chosen by the case (`stub`), which is exactly the model's
"optimiser = arbitrary function" parameter.  One shortcut: MaxLikeFull on data WITHOUT run-outs fixes SD = 0, for which
`likelihood_finite` returns -inf: the objective is the constant +inf, Nelder-Mead can only shrink its simplex towards
the start vertex and returns the start after exhausting maxiter = maxfun = 1e4 (about 6 s per call, measured; about 100 s
with the budget of 1e5 that fc45e06 had introduced and /repo commit 8a1c973 took back).  There the proxy
verifies that the objective is +inf on the start simplex and on probe points and returns the start at once (counted as
`fmin_constant_inf_shortcuts`); `norun_real` cases run scipy's real Nelder-Mead on it (capped at 4000 evaluations) and
compare.

Warnings of the code under test are suppressed in every run except the real-optimiser runs of the flat-ridge repository
data cases (`repo_data`): there `analyze(..., warns=[...])` records them and `C18._limit_warning` demands the UserWarning
of /repo d747c6e - exactly one when fmin stopped at its iteration limit with a finite objective, none when it converged."""
import json
import math
import os
import random
import subprocess
import sys
import warnings

import numpy as np
import pandas as pd

from .core import Prop, f2h, h2f, close

SOURCES = [
    "src/pylife/materialdata/woehler/fatigue_data.py",
    "src/pylife/materialdata/woehler/elementary.py",
    "src/pylife/materialdata/woehler/probit.py",
    "src/pylife/materialdata/woehler/maxlike.py",
    "src/pylife/materialdata/woehler/likelihood.py",
    "src/pylife/materialdata/woehler/pearl_chain.py",
    "src/pylife/utils/probability_data.py",
    "src/pylife/utils/functions.py",
]

KEYS = ["k_1", "ND", "SD", "TN", "TS"]
CF_RTOL = 1e-9        # closed-form analyzers
ML_RTOL = 1e-5        # ML analyzers: an optimum of a double-precision objective is located to about sqrt(eps) ~ 1e-8 in the parameters, ND amplifies SD by the slope (<= 12) and Nelder-Mead adds path noise: measured <= 4e-7 on the repaired code, 1e-5 is the no-flake bound (unrepaired code: up to 6e-4 MaxLikeInf, 0.13 MaxLikeFull)
K_RTOL = 1e-9         # model (Float) vs code
FACTORS = [1e-4, 0.37, 3.0, 1000.0]                 # cases without their own `factors` (corpus)
FACTOR_POOL_SMALL = [1e-4, 2.0 ** -10, 0.37]
FACTOR_POOL_LARGE = [3.0, 7.0, 1000.0]
C_STD = 0.39015207303618954
C_RANGE = 2.5631031310892007
PROBIT_TS_MAX = 1e6           # Probit TS = 10^(2.56 / slope) beyond this: the probit regression has slope 0 within rounding (guard `hps` of probit_load_scale)
EXACT_SPREAD = 1e-12          # log10-spread of the shifted cycles below which the pearl-chain regression is a 0/0
EXACT_RATE_MIN = 0.55         # exact data sets returning TN = TS = 1 within 1e-6: measured 0.81 (484/600, 27/32); a batch of 40 must stay above this


FMIN_BUDGET = 30000           # objective evaluations per optimiser run; the unchanged code needs < 1500 on admissible data with a well-defined optimum and never more than its own limit maxfun = 1e4 (8a1c973): the stats value `max_fmin_evaluations` is 10000 in every run, because the flat-ridge repository data sets (repo_data) run to that limit


REAL_FMIN_CAP = 4000          # iterations / evaluations of scipy's real Nelder-Mead in the `norun_real` validation of the constant-objective shortcut
LIMIT_WARNING = "MaxLikeHood: the optimizer stopped at its iteration limit"      # start of the UserWarning of /repo d747c6e (maxlike._warn_if_not_converged)


class OptimiserBudgetExceeded(Exception):
    pass


def _woe():
    import pylife.materialdata.woehler as woe
    return woe


# ------------------------------------------------------------------ the optimiser proxy
class _OptimizeProxy:
    """Stands for the module `scipy.optimize` inside pylife.materialdata.woehler.maxlike: records every `fmin` call
    (objective, start, answer); passes it on to scipy unless a stub answer is set or the constant-+inf shortcut applies."""

    def __init__(self, real):
        self.__dict__["_real"] = real
        self.calls = []
        self.stub = None
        self.shortcut = False
        self.shortcuts_taken = 0
        self.max_evaluations = 0
        self.budget = FMIN_BUDGET
        self.cap = None

    def __getattr__(self, name):
        return getattr(self.__dict__["_real"], name)

    @staticmethod
    def _constant_inf(func, x0, args):
        pts = [x0]
        for i in range(len(x0)):
            v = x0.copy()
            v[i] = 1.05 * v[i] if v[i] != 0 else 0.00025          # scipy's initial simplex
            pts.append(v)
        r = random.Random(20260927)
        for _ in range(6):
            pts.append(x0 * np.array([10.0 ** r.uniform(-0.7, 0.7) for _ in x0]))
        return all(func(np.array(p, dtype=np.float64), *args) == math.inf for p in pts)

    def fmin(self, func, x0, args=(), **kw):
        x0 = np.array(x0, dtype=np.float64)
        call = {"func": func, "args": args, "x0": x0, "kw": dict(kw), "xopt": None, "mode": "real"}
        self.calls.append(call)
        full = kw.get("full_output", False)

        def answer(x):
            x = np.array(x, dtype=np.float64)
            call["xopt"] = x
            return (x, func(x, *args), 0, 1, 0) if full else x
        if self.stub is not None:
            call["mode"] = "stub"
            return answer(self.stub(call))
        if self.shortcut and self._constant_inf(func, x0, args):
            call["mode"] = "shortcut"
            self.shortcuts_taken += 1
            return answer(x0)
        n = [0]

        def counted(x, *a):
            n[0] += 1
            if self.budget is not None and n[0] > self.budget:
                raise OptimiserBudgetExceeded(f"scipy.optimize.fmin asked for more than {self.budget} objective evaluations")
            return func(x, *a)
        if self.cap is not None:      # (norun_real) scipy's real Nelder-Mead, with a smaller iteration budget than the code asks for
            kw = dict(kw, maxiter=self.cap, maxfun=self.cap)
            call["mode"] = "real-capped"
        r = self.__dict__["_real"].fmin(counted, x0, args=args, **kw)
        call["xopt"] = np.array(r[0] if full else r, dtype=np.float64)
        call["evaluations"] = n[0]
        call["warnflag"] = int(r[4]) if full else None
        call["fopt"] = float(r[1]) if full else None
        if self.cap is None:
            self.max_evaluations = max(self.max_evaluations, n[0])
        return r


def _rec():
    """the recording proxy (installed on first use); None when maxlike.py no longer reaches the optimiser through the
    module attribute `optimize` (then nothing is recorded and the ML correspondence lines say so)"""
    _woe()
    import pylife.materialdata.woehler.maxlike as M
    opt = getattr(M, "optimize", None)
    if isinstance(opt, _OptimizeProxy):
        return opt
    if opt is None or not hasattr(opt, "fmin"):
        return None
    M.optimize = _OptimizeProxy(opt)
    return M.optimize


def make_df(rows, labels=None, int_load=False, no_fracture_column=False, int_cycles=False):
    """the data frame handed to the real code; `labels` = row labels (None: a fresh RangeIndex)"""
    df = pd.DataFrame({"load": [float(r[0]) for r in rows], "cycles": [float(r[1]) for r in rows],
                       "fracture": [bool(r[2]) for r in rows]}, index=labels)
    if int_load:
        df["load"] = df["load"].astype("int64")
    if int_cycles:
        df["cycles"] = df["cycles"].astype("int64")
    if no_fracture_column:
        df = df[["load", "cycles"]]
    return df


def has_runouts(rows):
    return any(not r[2] for r in rows)


def analyze(name, rows, labels=None, stub=None, calls=None, real_fmin=False, fixed=None, warns=None, **dfkw):
    """run one analyzer of the real code; returns dict of floats or {'error': kind}.  `stub(call)` = answer of the
    optimiser (correspondence only); `calls` collects the recorded fmin calls.  Warnings of the code are suppressed, unless a
    list `warns` is given: then they are recorded (every one, filter "always") and appended to it as (category, message)."""
    woe = _woe()
    A = getattr(woe, name)
    rec = _rec()
    if rec is not None:
        rec.calls = []
        rec.stub = stub
        rec.shortcut = (name == "MaxLikeFull" and not has_runouts(rows) and not real_fmin)
        rec.cap = REAL_FMIN_CAP if real_fmin else None
    try:
        with warnings.catch_warnings(record=warns is not None) as caught:
            warnings.simplefilter("ignore" if warns is None else "always")
            with np.errstate(all="ignore"):
                try:
                    try:
                        an = A(make_df(rows, labels, **dfkw))
                        r = an.analyze(fixed_parameters=dict(fixed)) if fixed is not None else an.analyze()
                    finally:
                        if warns is not None:
                            warns.extend((w.category, str(w.message)) for w in caught)
                except ValueError as e:
                    return {"error": "ValueError: " + str(e)[:60]}
                except OptimiserBudgetExceeded as e:
                    return {"error": "BUDGET: " + str(e), "budget": True}
                except Exception as e:      # any other exception of the code under test is an answer, not an infrastructure error
                    return {"error": type(e).__name__ + ": " + str(e)[:60]}
        out = {k: float(r[k]) for k in KEYS}
        if rec is not None and rec.calls and rec.calls[-1]["mode"] == "real":
            out["warnflag"] = rec.calls[-1].get("warnflag")
            out["evaluations"] = rec.calls[-1].get("evaluations")
            out["fopt"] = rec.calls[-1].get("fopt")
        return out
    finally:
        if rec is not None:
            if calls is not None:
                calls.extend(rec.calls)
            rec.stub = None
            rec.shortcut = False
            rec.cap = None


_FRESH_SCRIPT = """
import json, sys, warnings
sys.path.insert(0, sys.argv[1]); sys.path.insert(0, sys.argv[2])
from harness.c18 import analyze
job = json.load(sys.stdin)
print("RESULT " + json.dumps({n: analyze(n, job["rows"]) for n in job["names"]}))
"""


def analyze_fresh(names, rows):
    """the analyzers' results for `rows` as the FIRST analyses of a fresh interpreter (same pylife source tree)"""
    import pylife
    src = os.path.dirname(os.path.dirname(os.path.abspath(pylife.__file__)))
    verif = os.path.dirname(os.path.dirname(os.path.abspath(__file__)))
    p = subprocess.run([sys.executable, "-W", "ignore", "-c", _FRESH_SCRIPT, verif, src],
                       input=json.dumps({"rows": rows, "names": names}), capture_output=True, text=True, timeout=900)
    for line in p.stdout.splitlines():
        if line.startswith("RESULT "):
            return json.loads(line[7:])
    raise RuntimeError("harness: fresh-interpreter reference failed: " + (p.stderr or p.stdout)[-400:])


_FRESH_JOBS_SCRIPT = """
import json, sys, warnings
sys.path.insert(0, sys.argv[1]); sys.path.insert(0, sys.argv[2])
from harness.c18 import analyze
jobs = json.load(sys.stdin)
print("RESULT " + json.dumps([analyze(j["name"], j["rows"], fixed=j.get("fixed")) for j in jobs]))
"""


def analyze_fresh_jobs(jobs):
    """[analyze(name, rows, fixed)] in a FRESH interpreter, every analysis on a frame and a FatigueData object of its own: no
    memo of this (long-lived, forked) process - on an object, a class, a module or in a default argument - can reach it"""
    import pylife
    src = os.path.dirname(os.path.dirname(os.path.abspath(pylife.__file__)))
    verif = os.path.dirname(os.path.dirname(os.path.abspath(__file__)))
    p = subprocess.run([sys.executable, "-W", "ignore", "-c", _FRESH_JOBS_SCRIPT, verif, src],
                       input=json.dumps(jobs), capture_output=True, text=True, timeout=900)
    for line in p.stdout.splitlines():
        if line.startswith("RESULT "):
            return json.loads(line[7:])
    raise RuntimeError("harness: fresh-interpreter reference failed: " + (p.stderr or p.stdout)[-400:])


def same(a, b, rtol):
    if a != a and b != b:
        return True
    return close(a, b, rtol=rtol)


# ------------------------------------------------------------------ admissibility (independent of pylife)
def zone_info(rows):
    run = [r for r in rows if not r[2]]
    if not run:
        return None, [r for r in rows], []
    m = max(r[0] for r in run)
    return m, [r for r in rows if r[2] and r[0] > m], [r for r in rows if r[0] <= m]


def dropped(rows):
    """`irrelevant_runouts_dropped` re-stated: with at least two pure run-out levels, the highest of them below every
    fractured level, the tests below that level go"""
    fl = {r[0] for r in rows if r[2]}
    pure = {r[0] for r in rows if not r[2]} - fl
    if len(pure) <= 1 or not fl or not max(pure) < min(fl):
        return list(rows)
    return [r for r in rows if not r[0] < max(pure)]


def admissible(rows):
    """at least two load levels with fractures in the finite zone, a spread of their cycle numbers, and the finite-zone
    fractures not (numerically) on one Basquin line - two fractures always are: that is the `exact` kind with its own
    oracle (the scatter estimate is then a 0/0, known finding exact-basquin-scatter)"""
    _m, fin, _inf = zone_info(rows)
    ff = [r for r in fin if r[2]]
    if not (len({r[0] for r in ff}) >= 2 and len({r[1] for r in ff}) >= 2):
        return False
    if len(ff) < 3:
        return False
    x = np.log10([r[0] for r in ff])
    y = np.log10([r[1] for r in ff])
    a, b = np.polyfit(x, y, 1)
    if not a < -1.0:
        return False      # k_1 <= 1: not Woehler data (see ASSUMPTIONS): TS = TN^(1/k_1) < 1 or astronomic, the ML start is outside the model's domain
    return float(np.max(np.abs(y - (a * x + b)))) > 1e-6


def exact_admissible(rows):
    _m, fin, _inf = zone_info(rows)
    ff = [r for r in fin if r[2]]
    return len({r[0] for r in ff}) >= 2 and len({r[1] for r in ff}) >= 2


def monotone_shares(rows):
    """the share of fractures per load level of the infinite zone does not fall with the load and rises somewhere"""
    _m, _fin, inf = zone_info(rows)
    share = []
    for L in sorted({r[0] for r in inf}):
        g = [r for r in inf if r[0] == L]
        share.append(sum(1 for r in g if r[2]) / len(g))
    return len(share) >= 2 and all(b >= a for a, b in zip(share, share[1:])) and share[-1] > share[0]


def mlinf_accepts(rows):
    """MaxLikeInf's own preconditions re-stated (on the reduced data): two mixed levels and three fractures on two
    levels in the infinite zone (else the code raises ValueError)"""
    _m, _fin, inf = zone_info(dropped(rows))
    fl = {r[0] for r in inf if r[2]}
    rl = {r[0] for r in inf if not r[2]}
    return len(fl & rl) >= 2 and sum(1 for r in inf if r[2]) >= 3 and len(fl) >= 2


def mlfull_accepts(rows):
    d = dropped(rows)
    return sum(1 for r in d if r[2]) >= 3 and len({r[0] for r in d if r[2]}) >= 2


def mlfull_mode(rows):
    """which parameters MaxLikeFull fixes (no user-fixed parameters): norun | fixTS | free"""
    d = dropped(rows)
    if not has_runouts(d):
        return "norun"
    mixed = {r[0] for r in d if r[2]} & {r[0] for r in d if not r[2]}
    return "fixTS" if len(mixed) < 2 else "free"


def ml_admissible(rows):
    """MaxLikeInf's preconditions, and the share of fractures per load level of the infinite zone does not fall with the
    load and rises somewhere: otherwise the probit-type likelihood has no interior maximum and the optimiser runs away
    (see ASSUMPTIONS)"""
    return mlinf_accepts(rows) and monotone_shares(rows)


def staircase_admissible(rows):
    """run-out-topped series: no fracture above the highest run-out level (empty finite zone), at least two levels with
    fractures, a spread of the fracture cycles, monotone shares (a well-conditioned probit regression)"""
    m, fin, _inf = zone_info(rows)
    fr = [r for r in rows if r[2]]
    return (m is not None and not fin and len({r[0] for r in fr}) >= 2 and len({r[1] for r in fr}) >= 2
            and len({r[0] for r in rows}) >= 3 and monotone_shares(rows))


def nonmonotonic(rows):
    """a load level on which every specimen broke lies below the highest load level that has a run-out"""
    m, _fin, _inf = zone_info(rows)
    if m is None:
        return False
    rl = {r[0] for r in rows if not r[2]}
    return any(L < m for L in {r[0] for r in rows if r[2]} - rl)


# ------------------------------------------------------------------ generators
def logu(rng, lo, hi):
    return 10.0 ** rng.uniform(math.log10(lo), math.log10(hi))


def gen_sd(rng):
    """endurance limits from strain amplitudes (1e-4) to forces (1e4)"""
    return rng.choice([logu(rng, 1, 1000), logu(rng, 1e-4, 1e4), logu(rng, 1e-4, 1e-1), 300.0, 100.0])


def gen_rows(rng, ml=False, mode=None, early=False):
    for _ in range(400):
        k = rng.uniform(3, 12)
        SD = gen_sd(rng)
        ND = logu(rng, 3e5, 3e6)
        TN = rng.uniform(1.5, 6)
        TS = rng.uniform(1.05, 1.4) if not ml else rng.uniform(1.1, 1.5)
        sN, sS = C_STD * math.log10(TN), C_STD * math.log10(TS)
        nlev = rng.choice([5, 6, 7])
        lo = rng.choice([0.75, 0.8, 0.85, 0.9]) if not ml else rng.choice([0.8, 0.85])
        step = rng.choice([0.05, 0.08, 0.1]) if not ml else rng.choice([0.06, 0.08])
        levels = [SD * (lo + step * i) for i in range(nlev)]
        if rng.random() < 0.3:
            levels = [float(round(L)) if L > 20 else L for L in levels]
        limit = rng.choice([1e7, 2e6, 5e6])
        rows = []
        md = mode or (rng.choice(["natural", "natural", "nonmonotonic", "nonmonotonic", "no_runouts", "pure_runout_levels"])
                      if not ml else "natural")
        for L in levels:
            n = rng.choice([2, 3, 4, 5, 6])
            for _ in range(n):
                sd_i = SD * 10 ** rng.gauss(0, sS)
                N = ND * (L / SD) ** (-k) * 10 ** rng.gauss(0, sN)
                if md == "no_runouts":
                    rows.append([L, min(N, limit * 0.99), True])
                elif L <= sd_i or N >= limit:
                    rows.append([L, limit, False])
                else:
                    rows.append([L, N, True])
        if md == "pure_runout_levels":
            for f in rng.sample([0.4, 0.5, 0.6, 0.65], rng.choice([2, 3])):
                rows += [[SD * f, limit, False] for _ in range(rng.choice([1, 2]))]
        if md == "nonmonotonic":
            # a level on which every specimen broke, below the highest level with a run-out (Probit: the all-fracture
            # Rossow estimate 0.5^(1/n) in the infinite zone; the reported transition must still lie above that run-out)
            m, _fin, _inf = zone_info(rows)
            if m is None:
                continue
            below = sorted({r[0] for r in rows if r[0] < m})
            L = rng.choice(below) if below and rng.random() < 0.7 else m * rng.choice([0.93, 0.96, 0.98])
            rows = [r for r in rows if r[0] != L]
            for _ in range(rng.choice([1, 2, 3])):
                rows.append([L, min(ND * (L / SD) ** (-k) * 10 ** rng.gauss(0, sN), limit * 0.99), True])
            if not nonmonotonic(rows):
                continue
        if early and md != "no_runouts":
            # the run-outs were taken off early: their cycle number lies below the knee of the S-N curve (the zones and
            # the likelihood do not look at the cycle number of a run-out)
            stop = ND * rng.uniform(0.05, 0.3)
            rows = [[r[0], r[1] if r[2] else stop, r[2]] for r in rows]
        rng.shuffle(rows)
        if admissible(rows) and (not ml or ml_admissible(rows)):
            return rows, {"k_1": k, "ND": ND, "SD": SD, "TN": TN, "TS": TS}
    raise RuntimeError("harness: generator could not produce an admissible data set")


def gen_labels(rng, rows):
    """row labels: they carry no information about the tests.  `concat` = two series put together with pd.concat
    without ignore_index (each part numbered from 0: labels repeat ACROSS the zones)"""
    n = len(rows)
    scheme = rng.choice(["concat", "concat", "concat", "shuffled", "strings", "level", "const", "concat_str", "halves"])
    m, _fin, _inf = zone_info(rows)
    if scheme in ("concat", "concat_str"):
        cnt, labels = [0, 0], []
        for r in rows:
            part = 0 if (m is None or r[0] > m) else 1
            labels.append(cnt[part])
            cnt[part] += 1
        if scheme == "concat_str":
            labels = [f"s{v}" for v in labels]
    elif scheme == "halves":
        labels = [i % ((n + 1) // 2) for i in range(n)]
    elif scheme == "shuffled":
        labels = list(range(n))
        rng.shuffle(labels)
    elif scheme == "strings":
        labels = [f"test-{i:03d}" for i in range(n)]
        rng.shuffle(labels)
    elif scheme == "level":
        labels = [f"L{r[0]:.6g}" for r in rows]
    else:
        labels = [0] * n
    return labels


def gen_factors(rng):
    return [rng.choice(FACTOR_POOL_SMALL), rng.choice(FACTOR_POOL_LARGE)]


def gen_rel(rng):
    """relative parameter vectors at which the objectives of the ML analyzers are compared / the stub optimiser's answer"""
    def one():
        return {"k_1": rng.uniform(0.8, 1.25), "ND": rng.uniform(0.5, 2.0), "SD": rng.uniform(0.85, 1.15),
                "TN": rng.uniform(1.0, 1.3), "TS": rng.uniform(1.0, 1.3)}
    neg = one()
    neg["SD"], neg["k_1"] = -neg["SD"], -neg["k_1"]          # `np.abs` in __make_parameters
    zero_nd = dict(one(), ND=0.0)                            # log10(ND) = -inf: the likelihood is -inf
    return {"stub": one(), "points": [{k: 1.0 for k in KEYS}, one(), one(), neg, zero_nd]}


def gen_data(rng, mode=None, early=False):
    rows, p = gen_rows(rng, mode=mode, early=early)
    q = {k: v * rng.uniform(0.8, 1.25) for k, v in p.items()}
    q["TN"], q["TS"] = max(q["TN"], 1.05), max(q["TS"], 1.02)
    return {"kind": "data", "rows": rows, "points": [p, q], "perm_seed": rng.randrange(10 ** 6),
            "labels": gen_labels(rng, rows), "factors": gen_factors(rng) + gen_factors(rng), "rel": gen_rel(rng)}


def gen_ml(rng, name, early=False):
    rows, p = gen_rows(rng, ml=True, early=early)
    return {"kind": "ml", "analyzer": name, "rows": rows, "points": [p], "perm_seed": rng.randrange(10 ** 6),
            "factors": gen_factors(rng), "labels": gen_labels(rng, rows), "rel": gen_rel(rng)}


def gen_one_mixed(rng):
    """a data set with run-outs but ONE mixed load level (and one pure run-out level below): MaxLikeFull then fixes TS to
    the pearl-chain value ('less than two mixed load levels')"""
    k = rng.uniform(4, 9)
    SD = rng.choice([logu(rng, 50, 600), logu(rng, 1e-3, 1e4), 300.0])
    ND = logu(rng, 5e5, 2e6)
    sN = C_STD * math.log10(rng.choice([rng.uniform(1.05, 2.0), rng.uniform(1.4, 3.0)]))
    limit = 1e7
    rows = []
    for f in rng.sample([1.2, 1.35, 1.5, 1.65, 1.8], rng.choice([3, 4])):
        for _ in range(rng.choice([3, 4, 5])):
            rows.append([SD * f, ND * f ** (-k) * 10 ** rng.gauss(0, sN), True])
    n_mixed = rng.choice([4, 5, 6])
    n_frac = rng.randint(1, n_mixed - 1)
    for i in range(n_mixed):
        rows.append([SD, ND * 10 ** rng.gauss(0, sN), True] if i < n_frac else [SD, limit, False])
    for _ in range(rng.choice([2, 3, 4])):
        rows.append([SD * 0.85, limit, False])
    rng.shuffle(rows)
    return rows


def gen_ml_one_mixed(rng):
    for _ in range(200):
        rows = gen_one_mixed(rng)
        if admissible(rows) and mlfull_mode(rows) == "fixTS":
            p = {"k_1": 6.0, "ND": 1e6, "SD": max(r[0] for r in rows if not r[2]), "TN": 1.5, "TS": 1.1}
            return {"kind": "ml", "analyzer": "MaxLikeFull", "rows": rows, "points": [p], "perm_seed": rng.randrange(10 ** 6),
                    "factors": gen_factors(rng), "labels": gen_labels(rng, rows), "rel": gen_rel(rng)}
    raise RuntimeError("harness: generator could not produce a one-mixed-level data set")


def gen_ml_fixed(rng):
    """MaxLikeFull with user-fixed parameters: values near the elementary estimate (`fixed_rel` = multiples of it; a fixed
    value far from the data, e.g. k_1 = 30 on data with k about 7, makes the remaining optimum ill-posed: both the old and
    the repaired code end in false optima there - nothing is claimed)"""
    c = gen_ml(rng, "MaxLikeFull")
    keys = rng.choice([["k_1"], ["TN"], ["k_1", "TN"], ["ND"], ["SD"], ["TS"], ["SD", "TS"]])
    c["fixed_rel"] = {k: (rng.uniform(1.0, 1.15) if k in ("TN", "TS") else rng.uniform(0.9, 1.1)) for k in keys}
    return c


REPO_DATA = ["data_one_runout_load_level", "data_no_mixed_horizons"]


def repo_rows(name):
    """a data set of the repository's own tests (tests/materialdata/woehler/data.py), run-outs at 1e7 cycles"""
    import importlib.util
    from . import core
    spec = importlib.util.spec_from_file_location("c18_repo_woehler_data", os.path.join(core.REPO, "tests/materialdata/woehler/data.py"))
    m = importlib.util.module_from_spec(spec)
    spec.loader.exec_module(m)
    df = getattr(m, name)
    return [[float(l), float(c), bool(c < 1e7)] for l, c in zip(df["load"].values, df["cycles"].values)]


def gen_ml_repo(rng, name, only=None):
    """MaxLikeFull on a repository data set whose likelihood has a flat ridge (one run-out level only / no mixed level:
    the endurance limit is not determined by the data): the optimiser ends on its budget wherever it is"""
    rows = repo_rows(name)
    c = {"kind": "ml", "analyzer": "MaxLikeFull", "rows": rows, "repo_data": name, "points": [], "perm_seed": rng.randrange(10 ** 6),
         "factors": gen_factors(rng), "labels": None, "rel": gen_rel(rng)}
    if only:
        c["only_variants"] = only          # (quick tier: every run ends on the optimiser's budget, 10 s each)
    return c


def gen_zero_start(rng):
    """a data set whose Elementary estimate is k_1 = -0.0, TS = 0 EXACTLY: the finite zone holds two load levels with the
    same two cycle numbers (powers of ten: the regression slope cancels exactly, in this row order) - the start values of
    MaxLikeFull's search for k_1 and TS are 0.  The fractures of the infinite zone still determine a slope."""
    for _ in range(200):
        rows, p = gen_rows(rng, ml=True)
        m, fin, inf = zone_info(rows)
        tops = sorted({r[0] for r in fin})
        L1, L2 = (tops[0], tops[-1]) if len(tops) >= 2 else (m * 1.15, m * 1.3)
        a, b = rng.choice([(1e4, 1e5), (1e5, 1e6), (1e4, 1e6)])
        out = [[L1, a, True], [L1, b, True], [L2, a, True], [L2, b, True]] + [r for r in rows if r[0] <= m]
        if ml_admissible(out) and mlfull_mode(out) == "free":
            return {"kind": "zero_start", "rows": out, "rel": gen_rel(rng), "points": [p]}
    raise RuntimeError("harness: generator could not produce a zero-start data set")


def big_rows(seed, n_per_level):
    """a very large series (9 levels x n specimens; |log-likelihood| about 7e3 for n = 3000)"""
    rng = np.random.default_rng(seed)
    SD, k, ND, TN, TS = 320., 6., 1e6, 4., 1.2
    rows = []
    for L in [500., 450., 400., 370., 345., 330., 315., 300., 285.]:
        sd_i = SD * 10 ** (rng.normal(size=n_per_level) * C_STD * math.log10(TS))
        N = ND * (L / SD) ** (-k) * 10 ** (rng.normal(size=n_per_level) * C_STD * math.log10(TN))
        rows += [[L, 1e7, False] if (L < s_ or c_ >= 1e7) else [L, float(c_), True] for s_, c_ in zip(sd_i, N)]
    return rows


def gen_intcycles(rng):
    """a series whose cycle numbers are small whole numbers (10 .. 5000: written in thousands / millions of cycles) - handed to
    the code as an int64 `cycles` column, as a float column, and multiplied by 1000 (int64), 2.5 and 0.001 (float)"""
    for _ in range(400):
        rows, _p = gen_rows(rng, ml=rng.random() < 0.5)
        fr = sorted(r[1] for r in rows if r[2])
        f = rng.choice([30.0, 200.0, 1500.0]) / fr[len(fr) // 2]
        lim = max((r[1] for r in rows if not r[2]), default=None)
        out = []
        for L, N, fr_ in rows:
            n = float(max(1, round(N * f)))
            if lim is not None and fr_ and n >= round(lim * f):
                n = float(round(lim * f) - 1)
            out.append([L, n, fr_])
        if (admissible(out) and all(5 <= r[1] <= 50000 for r in out if r[2]) and min(r[1] for r in out if r[2]) <= 5000
                and len({r[1] for r in out if r[2]}) >= 3):
            return {"kind": "intcycles", "rows": out, "perm_seed": rng.randrange(10 ** 6), "points": [], "labels": None}
    raise RuntimeError("harness: generator could not produce an integer-cycles data set")


def gen_session(rng):
    """a working session: data set A, a data set B with the SAME loads, flags and row count but other cycle numbers (so that a memo
    keyed by anything but the whole data collides), an unrelated data set C; an order of analyses; user-fixed parameters"""
    A, _p = gen_rows(rng, ml=True)
    for _ in range(50):
        B = [[r[0], r[1] * (10 ** rng.uniform(-0.3, 0.3)) if r[2] else r[1], r[2]] for r in A]
        lim = min((r[1] for r in B if not r[2]), default=None)
        if lim is not None:
            B = [[r[0], min(r[1], 0.99 * lim) if r[2] else r[1], r[2]] for r in B]
        if admissible(B) and ml_admissible(B):
            break
    else:
        B = gen_rows(rng, ml=True)[0]
    C, _p = gen_rows(rng, ml=True)
    order = ["Elementary", "Probit", "MaxLikeInf", "MaxLikeFull", "MaxLikeFull+fixed", rng.choice(["Elementary", "Probit", "MaxLikeInf"])]
    rng.shuffle(order)
    keys = rng.choice([["k_1"], ["TN"], ["k_1", "TN"], ["TS"]])
    return {"kind": "session", "rows": A, "B": B, "C": C, "order": order, "labels": gen_labels(rng, A),
            "fixed_rel": {k: (rng.uniform(1.0, 1.15) if k in ("TN", "TS") else rng.uniform(0.9, 1.1)) for k in keys}}


def gen_history(rng):
    """a session: `first` is analysed, then `rows`; the results for `rows` must be those of a fresh interpreter"""
    rows, p = gen_rows(rng, ml=True)
    return {"kind": "history", "first": gen_one_mixed(rng), "rows": rows}


def gen_staircase(rng):
    """a staircase series topped by a run-out level: the finite zone is empty, the transition is guessed from the two
    highest load levels (`_guess_from_second_highest_runout`); Probit and MaxLikeInf still estimate SD and TS"""
    for _ in range(2000):
        SD = gen_sd(rng)
        TS = rng.uniform(1.1, 1.5)
        sS = C_STD * math.log10(TS)
        k, ND, sN = rng.uniform(3, 10), logu(rng, 3e5, 3e6), C_STD * math.log10(rng.uniform(1.5, 5))
        nlev = rng.choice([3, 4, 5, 6])
        step = rng.choice([0.04, 0.06, 0.08])
        lo = 1.0 - step * (nlev - 1) / 2 + rng.uniform(-0.03, 0.03)
        levels = [SD * (lo + step * i) for i in range(nlev)]
        if rng.random() < 0.3 and SD > 50:
            levels = [float(round(L)) for L in levels]
        limit = rng.choice([1e7, 2e6])
        rows = []
        for L in levels:
            for _ in range(rng.choice([2, 3, 4, 5, 6])):
                if L <= SD * 10 ** rng.gauss(0, sS):
                    rows.append([L, limit, False])
                else:
                    rows.append([L, min(ND * (L / SD) ** (-k) * 10 ** rng.gauss(0, sN), 0.99 * limit), True])
        top = max(levels)
        if not any(r[0] == top and not r[2] for r in rows):
            rows.append([top, limit, False])
        rng.shuffle(rows)
        if staircase_admissible(rows):
            return {"kind": "staircase", "rows": rows, "perm_seed": rng.randrange(10 ** 6), "labels": gen_labels(rng, rows),
                    "factors": gen_factors(rng) + gen_factors(rng), "rel": gen_rel(rng)}
    raise RuntimeError("harness: generator could not produce a staircase data set")


def gen_exact_rows(rng):
    k = rng.choice([rng.uniform(2, 15), float(rng.randint(2, 12)), 0.5 * rng.randint(4, 20)])
    SD = rng.choice([logu(rng, 1, 1000), logu(rng, 1e-4, 1e4), 100.0, 256.0])
    ND = rng.choice([logu(rng, 1e5, 1e7), 1e6, 2.0 ** 20])
    nlev = rng.randint(2, 7)
    levels = rng.choice([[SD * (1.1 + 0.1 * i) for i in range(nlev)], [SD * 2 ** (i + 1) for i in range(nlev)],
                         [SD * rng.uniform(1.05, 3) for _ in range(nlev)]])
    n = rng.randint(1, 3)
    rows = [[L, ND * (L / SD) ** (-k), True] for L in levels for _ in range(n)]
    if rng.random() < 0.5:
        rows += [[SD * 0.9, 1e9, False]] * rng.choice([1, 2])
    rng.shuffle(rows)
    if not exact_admissible(rows):
        return gen_exact_rows(rng)
    return rows, k, SD, ND


def gen_exact(rng):
    rows, k, SD, ND = gen_exact_rows(rng)
    return {"kind": "exact", "rows": rows, "k": k, "SD0": SD, "ND0": ND}


def gen_exact_batch(rng, n=40):
    """one case = a batch of exact data sets: the share that comes back with TN = TS = 1 is part of the known finding"""
    sets = []
    for _ in range(n):
        rows, k, _SD, _ND = gen_exact_rows(rng)
        sets.append({"rows": rows, "k": k})
    return {"kind": "exact_batch", "sets": sets}


def permuted(rows, seed):
    r = list(rows)
    random.Random(seed).shuffle(r)
    return r


def scaled(rows, cl=1.0, cn=1.0):
    return [[r[0] * cl, r[1] * cn, r[2]] for r in rows]


def wire(rows):
    return " ".join(f"{f2h(r[0])} {f2h(r[1])} {1 if r[2] else 0}" for r in rows)


def rel5(p):
    return " ".join(f2h(p[k]) for k in KEYS)


# ------------------------------------------------------------------ the documented defective computation (known finding)
def pearl_chain_repro(rows, k_1):
    """The pearl-chain scatter estimate as pearl_chain.py + probability_data.py + functions.py compute it (the computation
    documented in the known finding exact-basquin-scatter), re-stated with numpy / scipy on the finite-zone fractures of the
    reduced data in row order.  Returns (log10-spread of the shifted cycles, TN, TS); TN = TS = 'raise' if the regression
    raises."""
    from scipy import stats
    _m, fin, _inf = zone_info(dropped(rows))
    ff = [r for r in fin if r[2]]
    load = pd.Series([float(r[0]) for r in ff])
    cyc = pd.Series([float(r[1]) for r in ff])
    slope = -k_1
    with np.errstate(all="ignore"), warnings.catch_warnings():
        warnings.simplefilter("ignore")
        nc = np.sort(cyc * ((load.mean() / load) ** slope))
        n = len(nc)
        fp = (3.0 * np.arange(1, n + 1) - 1.0) / (3.0 * n + 1.0)
        x = np.log10(np.array(nc, dtype=np.float64))
        spread = float(x.max() - x.min())
        try:
            s = stats.linregress(x, stats.norm.ppf(fp))[0]
            TN = float(10 ** (C_RANGE * (1. / s)))
            TS = float(TN ** (1. / -slope))
        except ValueError:
            TN = TS = "raise"
    return spread, TN, TS


def basquin_spread(rows, k):
    """log10-spread of the cycles shifted along the TRUE slope (no code result involved)"""
    _m, fin, _inf = zone_info(dropped(rows))
    ff = [r for r in fin if r[2]]
    x = [math.log10(r[1]) + k * math.log10(r[0]) for r in ff]
    return max(x) - min(x)


class C18(Prop):
    ID = "C18"
    SOURCES = SOURCES
    PARALLEL = 8
    LEAN_MODULES = ["Proofs.C18"]
    THEOREMS = [f"PylifeVerif.C18.{t}" for t in [
        "ols_shift_equivariant", "ols_scale_equivariant", "ols_perm_invariant",
        "zones_partition", "zones_partition_runout_topped",
        "elementary_load_scale", "elementary_cycle_scale", "elementary_perm_invariant",
        "probit_load_scale", "probit_cycle_scale", "probit_perm_invariant",
        "maxLikeInf_load_scale", "maxLikeInf_cycle_scale", "maxLikeInf_perm_invariant",
        "maxLikeFull_load_scale", "maxLikeFull_cycle_scale", "maxLikeFull_perm_invariant",
        "maxLikeFull_no_runouts_objective_constant",
        "exact_basquin_slope", "exact_basquin_slope_probit_maxLikeInf", "exact_basquin_no_scatter_partial",
        "likelihood_invariant_under_scaling", "ml_not_worse_than_start_partial"]]
    PARTIAL = {
        "PylifeVerif.C18.exact_basquin_no_scatter_partial":
            "proved: for data exactly on a Basquin line the slope is recovered and all shifted (pearl chain) cycles coincide, i.e. "
            "the probability-net regression the code performs has Sxx = 0 (a 0/0).  NOT provable: TN = TS = 1 - the quotient is "
            "undefined in exact arithmetic; the real code returns NaN / inf / arbitrary values depending on rounding "
            "(known finding exact-basquin-scatter).",
        "PylifeVerif.C18.ml_not_worse_than_start_partial":
            "proved about the model PIPELINES maxLikeInf / maxLikeFull (start point, objective, fixed parameters, scaling of the "
            "optimisation variables by relScale and post-processing as in maxlike.py, tied to the code by the correspondence ops "
            "c18.mlinf / c18.mlinfobj / c18.mlfull / c18.mlfullobj) under TWO contracts: NeverWorseThanStart (1, 1) for MaxLikeInf's "
            "one-argument optimiser (a function of the objective, started at (1, 1)) and NeverWorseThanItsStart for MaxLikeFull's "
            "two-argument optimiser (objective and start vector; the start is fullStart = 1 per parameter, 0 where the elementary "
            "start value is 0).  For every optimiser honouring them the infinite-zone likelihood of "
            "MaxLikeInf's result is >= that of (finite_infinite_transition, 1.2) and the total likelihood of MaxLikeFull's result "
            "is >= the objective at fullStart, which IS the total likelihood of the elementary estimate when nothing is "
            "fixed (also when some of its entries are 0).  ASSUMED (the hypotheses of the theorem, not provable here): scipy.optimize.fmin keeps the best vertex of its "
            "simplex, the start being one of them.  Measured per run on the real code (ml_start_checks_*).  MaxLikeInf starts "
            "from TS = 1.2, not from the elementary TS: its result is compared with the point actually used.",
    }
    RULE = ("case = data (synthetic S-N data set: 5-7 load levels x 2-6 tests, log-normal scatter in load and cycle direction, "
            "run-outs at a cycle limit; modes: natural | nonmonotonic (a level on which every specimen broke below the highest "
            "level with a run-out) | no run-outs | extra pure run-out levels; endurance limits 1e-4 .. 1e4; shuffled rows) | "
            "staircase (series topped by a run-out level: empty finite zone, transition guessed from the two highest levels) | ml "
            "(data set with >= 2 mixed levels + analyzer MaxLikeInf / MaxLikeFull, or ONE mixed level + MaxLikeFull: TS fixed) | "
            "exact (data exactly on a Basquin line) | exact_batch (40 exact data sets: share with TN = TS = 1) | history | ml with "
            "user-fixed parameters near the elementary estimate | ml on the repository's flat-ridge data sets | zero_start (Elementary "
            "gives k_1 = -0.0, TS = 0 exactly: start values 0 of MaxLikeFull's search) | big (27000 tests: MaxLikeInf / MaxLikeFull must "
            "converge - warnflag 0 - within 600 / 4000 objective evaluations) | norun_real (data without run-outs: scipy's real Nelder-Mead "
            "on MaxLikeFull's constant +inf objective, capped at 4000 evaluations, must return what the constant-objective shortcut of the "
            "proxy returns).  "
            "Correspondence: Lean model (Float) vs real code for zones (membership in the model's zone lists), irrelevant-run-out "
            "dropping, Elementary, Probit, the likelihood functions, and the ML pipelines with the optimiser replaced on both "
            "sides by the same given answer (objective values at given relative points, fixed-parameter mode, result) (1e-9 "
            "relative, zones exact).  Oracle (real code, real optimiser): analyzer(transformed data) vs transformed analyzer(data) "
            "for two load factors and two cycle factors out of {1e-4, 2^-10, 0.37, 3, 7, 1000} per case, a row permutation, other "
            "row labels, integer-dtype loads, omitted fracture column; df.fatigue_data transition / zones under the same "
            "transformations; each test in exactly one zone on the correct side of the reported transition; slope / scatter on "
            "exact Basquin data; likelihood(result) >= likelihood(start).  Ridge rule: a parameter deviation between two ML runs is not a "
            "failure when the two answers have the same likelihood to 2e-9 and their geometric midpoint is not better (flat ridge: counted, "
            "parameters not compared).  Frozen parameter: a free parameter that comes back bit-identical to its start value although "
            "changing it alone by 0.1 % raises the likelihood is a failure (class ml-frozen-parameter; checked with the start check, "
            "zero_start cases aim at it).  Iteration-limit warning (flat-ridge repository data cases only): a run that stops at its "
            "iteration limit with a finite likelihood emits exactly one UserWarning 'MaxLikeHood: the optimizer stopped at its iteration "
            "limit ...' (/repo d747c6e), a converged run none (class ml-limit-warning).  MaxLikeFull runs on every data set without run-outs "
            "(SD = 0, TS = 1 fixed).  history = a session (data set with ONE mixed level analysed first, then an ML-admissible "
            "data set by all four analyzers) compared with the same analyses as the first ones of a fresh interpreter "
            "(subprocess).  distinct_nontrivial counts distinct cases (every case exercises at least one analyzer on a "
            "non-degenerate data set; the per-branch counts are in `distribution`)")
    ASSUMPTIONS = [
        "C18: theorems are over the reals; scipy.stats.linregress is modelled by the OLS closed form, norm.ppf / norm.cdf by "
        "arbitrary functions Q / Phi (the equivariance proofs need nothing about them; the driver uses its own Phi and a "
        "bisection for Phi^-1, agreement with scipy is seen only through the compared outputs); np.sort by insertion sort; "
        "groupby('load') by the ascending distinct levels (pandas groups by exact float equality and sorts the keys); "
        "np.unique / setxor1d / intersect1d / setdiff1d by exact float set algebra",
        "C18: scipy.optimize.fmin is a PARAMETER of the model pipelines maxLikeInf / maxLikeFull (an arbitrary function of the "
        "objective): the equivariance / permutation theorems hold for every optimiser because the objective handed over is the "
        "same function for the transformed data set; on the real code two runs see objectives that differ by rounding, which "
        "Nelder-Mead amplifies: the oracle compares at 1e-5 relative (measured <= 4e-7).  'Not worse than the start' is proved "
        "under the hypothesis that the optimiser keeps its best vertex (not verified for scipy; measured per run)",
        "C18: admissible data set (kind data) = at least two fractured load levels with a spread of cycles in the FINITE zone and at "
        "least three finite-zone fractures that are not collinear in log-log (two points are always an exact Basquin line: kind "
        "`exact`), positive loads and cycles, the automatic finite/infinite transition (set_finite_infinite_transition / "
        "conservative_finite_infinite_transition are opt-in and not covered; MaxLikeFull's user `fixed_parameters` are not in the Lean "
        "model but are checked by the oracle, see the item on user-fixed parameters below).  Series "
        "topped by a run-out level (kind staircase) have an empty finite zone: Elementary and MaxLikeFull return k_1 = inf and "
        "NaN (loud: UserWarning) - this branch of Elementary.analyze is not in the Lean model; there zones, transition, and "
        "SD / TS of Probit and MaxLikeInf are compared with the model and all five keys (NaN = NaN) between transformed runs",
        "C18: admissible additionally means that the finite-zone regression is a Woehler line with k_1 > 1 (a falling S-N curve). Few "
        "finite-zone tests with large scatter can give k_1 <= 0; the code then returns TS = TN^(1/k_1) < 1 silently and the ML "
        "analyzers start outside the model's parameter domain and run away (observed on the repaired tree: SD = 2e5, ND = 1e-19, "
        "TS = 3e-26, row-order dependent at 7e-3) - no estimate exists there, nothing is claimed",
        "C18: ML-admissible additionally means that the share of fractures per load level of the infinite zone does not fall with "
        "the load: for staircase data with an inverted level the likelihood in (SD, TS) has no interior maximum and fmin runs "
        "away (observed on the repaired tree: TS = 2e8 / 1.6e29, SD = 4.9e5, ND = 0) - no estimate exists there, nothing is "
        "claimed (the real optimiser is not run there; the stub-optimiser correspondence is)",
        "C18: under load scaling ND is compared only when the reported SD is not 0: with no run-outs the code reports SD = 0 and "
        "evaluates ND at the fixed load 0.1 (a FIXME in the source), which the property's sentence on load scaling does not mention",
        "C18: MaxLikeFull on data without run-outs fixes SD = 0, for which likelihood_finite is -inf: the objective is constant "
        "(theorem maxLikeFull_no_runouts_objective_constant), the result is the elementary estimate with TS = 1, 'likelihood >= "
        "start' holds there only as -inf >= -inf (counted: ml_start_vacuous_minus_inf), and the real Nelder-Mead needs its whole "
        "budget of 1e4 evaluations (about 6 s; the budget was 1e5 = about 100 s between /repo commits fc45e06 and 8a1c973) to "
        "return the start: the harness's optimiser proxy verifies the objective is +inf "
        "on the start simplex and 6 probe points and returns the start at once; `norun_real` cases run scipy's real Nelder-Mead "
        "on that objective, capped at 4000 evaluations (every iteration is the same shrink step towards the start vertex, which "
        "is never replaced), and compare",
        "C18: when the likelihood at the START of an ML search is -inf (objective +inf on the whole start simplex; e.g. one mixed level "
        "and an elementary TS so close to 1 that a fracture below SD has probability 0 in double precision) Nelder-Mead only "
        "shrinks its simplex and the code returns the start after its whole budget of 1e4 evaluations (seconds; about 100 s with "
        "the 1e5 of fc45e06): the real optimiser is not run "
        "on such data sets (counted: ml_start_likelihood_minus_inf_not_optimised); any other run that asks for more than 30000 "
        "objective evaluations is reported (class optimiser-budget-exceeded; the unchanged code needs < 1500 where the optimum is well "
        "defined and 1e4 = its own limit on the flat-ridge repository data sets; with the code's "
        "own limit maxfun = 1e4 since 8a1c973 this can fire only if that limit is raised or dropped)",
        "C18 (ill-posed optima): the relations between PARAMETERS of two ML runs are claimed where the optimum is well defined.  "
        "Where the optimiser stops on its iteration budget (warnflag 1; since /repo d747c6e the code warns - that warning is demanded on "
        "the flat-ridge repository data cases, class ml-limit-warning; every other run suppresses warnings) "
        "the likelihood is flat along a ridge - e.g. one run-out level only or no mixed level (repository data sets "
        "data_one_runout_load_level, data_no_mixed_horizons): ND * SD^k is determined, SD is not - and the answer depends on the row "
        "order at EQUAL likelihood (also with warnflag 0: it may stop anywhere on the ridge).  The oracle recognises the ridge by "
        "the likelihoods: the two answers (transformed one mapped back) agree to 2e-9 and their geometric midpoint is not better - "
        "then the parameters are not compared (counted: ml_flat_ridge_equal_likelihood); otherwise a parameter deviation is a failure",
        "C18 (user-fixed parameters of MaxLikeFull): checked by the oracle only (not in the Lean model), with fixed values within "
        "10 - 15 % of the elementary estimate; a fixed value far from the data (k_1 = 30 on data with k about 7, ND = 1e9) leaves "
        "an optimum that Nelder-Mead does not find reliably (old and repaired code end in different false optima, a restart "
        "improves both): nothing is claimed there",
        "C18 (formalisation choice): a parameter the analyzer is free to move must be movable: a free parameter that comes back "
        "bit-identical to its start value although changing it alone raises the likelihood is reported (class ml-frozen-parameter; "
        "mechanism: start value 0 times the optimisation variable).  Whether a converged answer is a local maximum in every "
        "parameter is recorded only (Nelder-Mead may stop at a non-stationary point).  Exact zero start values arise when the "
        "finite-zone regression slope cancels exactly (two levels with the same cycle numbers, in this row order); a slope of "
        "1e-17 instead of 0 is scaled by itself and moves as slowly as before the repair - not covered",
        "C18: a very large series (27000 tests, |log-likelihood| 7e3) must converge within 4000 objective evaluations (an absolute "
        "ftol below the rounding noise of the objective never stops: 1e4 evaluations, 9 x slower)",
        "C18 (sessions): stale state and aliasing are checked against references from a fresh interpreter: one FatigueData object "
        "under several analyzers and repeated analyze() calls, data sets with equal loads / flags / size alive at once and analysed "
        "interleaved, the caller's DataFrame (values, index labels and order) and fixed_parameters dict unchanged after every call, "
        "results of analyses handed out (Woehler parameter Series, pearl-chain arrays) modified in place before the same objects "
        "analyse again.  NOT required (counted only): a changed dtype of a column of the caller's frame with equal values, added or "
        "reordered columns - no later result depends on them; and: FatigueData.finite_zone / infinite_zone return the stored frames "
        "(a caller overwriting them in place changes later analyses on that object; counted in properties_that_alias_internal_state) - "
        "outside the property, which does not quantify over callers editing frames they were handed",
        "C18: bayesian.py (pymc) is not part of the property",
        "C18 (formalisation choice): 'the estimate for a data set' is a function of the tests (load, cycles, fracture) alone - "
        "not of the row labels of the DataFrame (checked: repeating / shuffled / string labels vs a fresh RangeIndex), not of the "
        "dtype of the load column or of whether the fracture flags are given or derived from the cycle limit, and not of "
        "what the process analysed before (checked: history cases, reference = first analysis of a fresh interpreter). The "
        "property quantifies over data sets, not over sessions; without this reading its relations between two runs are meaningless",
    ]

    def __init__(self):
        self.stats = {}
        self.exhaustive = False
        self._last_base = {}

    def _count(self, key, n=1):
        self.stats[key] = self.stats.get(key, 0) + n

    # -------------------------------------------------------------- generation
    def generate(self, rng, tier):
        big = tier != "quick"
        n_hist, n_data, n_stair, n_exact, n_batch, n_inf, n_full, n_one = \
            (1, 32, 8, 30, 1, 5, 2, 2) if not big else (8, 300, 60, 300, 8, 40, 10, 6)
        for _ in range(n_hist):       # first: later cases of the run cannot have prepared the interpreter state for them
            yield gen_history(rng)
        for _ in range(3 if big else 1):
            yield {"kind": "norun_real", "rows": gen_rows(rng, mode="no_runouts")[0]}
        for i in range(n_data):
            # every mode is present in every run, whatever the seed draws
            yield gen_data(rng, mode=["nonmonotonic", "no_runouts", "pure_runout_levels", "natural"][i] if i < 4 else None)
        for _ in range(n_stair):
            yield gen_staircase(rng)
        for _ in range(n_exact):
            yield gen_exact(rng)
        for _ in range(n_batch):
            yield gen_exact_batch(rng)
        for _ in range(n_inf):
            yield gen_ml(rng, "MaxLikeInf")
        for _ in range(n_full):
            yield gen_ml(rng, "MaxLikeFull")
        for _ in range(n_one):
            yield gen_ml_one_mixed(rng)
        for _ in range(8 if big else 2):
            yield gen_ml_fixed(rng)
        for _ in range(6 if big else 2):
            yield gen_zero_start(rng)
        for name in (REPO_DATA if big else [rng.choice(REPO_DATA)]):
            yield gen_ml_repo(rng, name, only=None if big else ["rows permuted"])
        yield {"kind": "big", "seed": rng.randrange(10 ** 6), "n_per_level": 3000}
        for _ in range(40 if big else 4):
            yield gen_intcycles(rng)
        for _ in range(20 if big else 5):
            yield gen_ml(rng, "MaxLikeInf", early=True)
        for i in range(20 if big else 3):
            yield gen_data(rng, mode=["natural", "nonmonotonic", "pure_runout_levels"][i % 3], early=True)
        for _ in range(8 if big else 2):
            yield gen_session(rng)

    # -------------------------------------------------------------- correspondence
    def _plan(self, case):
        """the correspondence lines of a case: list of (tag, model protocol line); tags steer `impl_lines` and `compare`"""
        k = case["kind"]
        if k in ("history", "exact_batch", "norun_real", "big", "session"):
            return []
        rows = case["rows"]
        w = wire(rows)
        if k == "exact":
            return [("curve_exact", f"c18.elem {w}")]
        plan = [("zones", f"c18.zones {w}"), ("drop", f"c18.drop {w}")]
        if k in ("data", "zero_start", "intcycles"):
            plan += [("curve:Elementary", f"c18.elem {w}"), ("curve:Probit", f"c18.probit {w}")]
        if k == "staircase":
            plan += [("sdts:Probit", f"c18.probit {w}")]
        for p in case.get("points", []):
            plan.append(("lik", f"c18.lik {f2h(p['SD'])} {f2h(p['TS'])} {f2h(p['k_1'])} {f2h(p['ND'])} {f2h(p['TN'])} {w}"))
        rel = case.get("rel")
        if rel:
            regular = k != "staircase"
            if mlinf_accepts(rows):
                for p in rel["points"][:3]:       # (not the negative SD: MaxLikeInf has no np.abs; log10 of a negative ratio is NaN, which pandas' sum skips)
                    plan.append(("obj2", f"c18.mlinfobj {f2h(p['SD'])} {f2h(p['TS'])} {w}"))
                plan.append((("curve" if regular else "sdts") + ":MaxLikeInf",
                             f"c18.mlinf {f2h(rel['stub']['SD'])} {f2h(rel['stub']['TS'])} {w}"))
            if regular and mlfull_accepts(rows):
                for p in self._points5(case):
                    plan.append(("obj5", f"c18.mlfullobj {rel5(p)} {w}"))
                plan.append(("full", f"c18.mlfull {rel5(rel['stub'])} {w}"))
        return plan

    @staticmethod
    def _points5(case):
        # zero-start data: the all-ones vector would mean TS = 1 * relScale(0) = 1, a zero standard deviation (0/0 in Phi)
        return case["rel"]["points"][1:] if case["kind"] == "zero_start" else case["rel"]["points"]

    def model_lines(self, case):
        return [line for _tag, line in self._plan(case)]

    def _stub_run(self, name, case):
        """the analyzer with the optimiser answering `rel.stub`; returns (result, recorded call or None)"""
        stub = case["rel"]["stub"]

        def answer(call):
            if name == "MaxLikeInf":
                return [stub["SD"], stub["TS"]]
            return [stub[key] for key in call["args"][0]]
        calls = []
        r = analyze(name, case["rows"], case.get("labels"), stub=answer, calls=calls)
        return r, (calls[0] if calls else None)

    def impl_lines(self, case):
        woe = _woe()
        k = case["kind"]
        self._count("cases_" + k)
        plan = self._plan(case)
        if not plan:
            return []
        rows = case["rows"]
        labels = case.get("labels")

        def curve(name):
            r = analyze(name, rows, labels)
            return r["error"] if "error" in r else " ".join(f2h(r[key]) for key in KEYS)

        def fmt(v):
            return "-inf" if v == -math.inf else f2h(v)
        out = []
        stubbed = {}
        lik_i = 0
        obj_i = {"obj2": 0, "obj5": 0}
        if k != "exact":
            self._count("labels_" + ("range" if labels is None else "unique" if len(set(labels)) == len(labels) else "repeating"))
            self._count("datasets_nonmonotonic" if nonmonotonic(rows) else "datasets_monotonic")
        with warnings.catch_warnings():
            warnings.simplefilter("ignore")
            df = make_df(rows, labels)
            df["pos"] = range(len(df))          # the position identifies a test whatever its row label is
            fd = df.fatigue_data
            lh = woe.likelihood.Likelihood(fd)
            for tag, _line in plan:
                if tag == "curve_exact":
                    out.append(curve("Elementary"))
                elif tag == "zones":
                    tr = float(fd.finite_infinite_transition)
                    fi, ii = list(fd.finite_zone.pos), list(fd.infinite_zone.pos)
                    flags = ["B" if (i in fi and i in ii) else "F" if i in fi else "I" if i in ii else "N" for i in range(len(df))]
                    self._count("zone_tests_finite", len(fi))
                    self._count("zone_tests_infinite", len(ii))
                    self._count("datasets_without_runouts" if fd.num_runouts == 0 else "datasets_with_runouts")
                    if fd.num_runouts and not fi:
                        self._count("datasets_transition_guessed")
                    out.append(f"{f2h(tr)} {len(fi)} {len(ii)} | " + " ".join(flags))
                elif tag == "drop":
                    kept = fd.irrelevant_runouts_dropped()._obj
                    if len(kept) < len(df):
                        self._count("datasets_with_dropped_runouts")
                    out.append(f"{len(kept)} | " + " ".join(f2h(v) for v in kept.load.values))
                elif tag.startswith("curve:") or tag.startswith("sdts:"):
                    name = tag.split(":")[1]
                    if name == "MaxLikeInf":
                        r = stubbed.setdefault(name, self._stub_run(name, case))[0]
                        out.append(r["error"] if "error" in r else " ".join(f2h(r[key]) for key in KEYS))
                    else:
                        out.append(curve(name))
                    if name == "Probit":
                        self._probit_branches(rows)
                elif tag == "lik":
                    p = case["points"][lik_i]
                    lik_i += 1
                    with np.errstate(all="ignore"):
                        q = {key: np.float64(v) for key, v in p.items()}      # the code expects numpy scalars (`(SD > 0.0).all()`)
                        a = float(lh.likelihood_finite(q["SD"], q["k_1"], q["ND"], q["TN"]))
                        b = float(lh.likelihood_infinite(q["SD"], q["TS"]))
                    out.append(" ".join(fmt(v) for v in (a, b)))
                elif tag in ("obj2", "obj5"):
                    name = "MaxLikeInf" if tag == "obj2" else "MaxLikeFull"
                    r, call = stubbed.setdefault(name, self._stub_run(name, case))
                    p = (self._points5(case) if tag == "obj5" else case["rel"]["points"])[obj_i[tag]]
                    obj_i[tag] += 1
                    if "error" in r:
                        out.append(r["error"])
                    elif call is None:
                        self._count("ml_objective_not_captured")
                        out.append("uncaptured")
                    else:
                        x = [p["SD"], p["TS"]] if tag == "obj2" else [p[key] for key in call["args"][0]]
                        with np.errstate(all="ignore"):
                            v = -float(call["func"](np.array(x, dtype=np.float64), *call["args"]))
                        self._count("ml_objective_points_compared")
                        out.append(fmt(v))
                elif tag == "full":
                    r, call = stubbed.setdefault("MaxLikeFull", self._stub_run("MaxLikeFull", case))
                    if "error" in r:
                        out.append(r["error"])
                    else:
                        n = len(call["x0"]) if call is not None else -1
                        mode = {5: "free", 4: "fixTS", 3: "norun"}.get(n, "uncaptured" if call is None else f"n={n}")
                        self._count("mlfull_mode_" + mode)
                        free = list(call["args"][0]) if call is not None else []
                        x0 = [f2h(call["x0"][free.index(key)]) if key in free else "-" for key in KEYS]     # "-": fixed by the code
                        if any(key in free and call["x0"][free.index(key)] == 0.0 for key in KEYS):
                            self._count("mlfull_zero_start_values")
                        out.append(mode + " " + " ".join(x0) + " " + " ".join(f2h(r[key]) for key in KEYS))
        return out

    def _probit_branches(self, rows):
        _m, _fin, inf = zone_info(dropped(rows))
        lv = sorted({r[0] for r in inf})
        if len(lv) < 2:
            self._count("probit_falls_back_to_elementary")
            return
        for L in lv:
            g = [r for r in inf if r[0] == L]
            f = sum(1 for r in g if r[2])
            self._count("probit_level_" + ("no_fracture" if f == 0 else "all_fractured" if f == len(g) else "mixed"))

    def compare(self, case, model_out, impl_out):
        if len(model_out) != len(impl_out):
            return f"length {len(model_out)} vs {len(impl_out)}"
        tags = [t for t, _l in self._plan(case)]
        for i, (tag, a, b) in enumerate(zip(tags, model_out, impl_out)):
            if a == b:
                continue
            if b == "uncaptured" or b.startswith("uncaptured "):
                continue          # maxlike.py no longer calls `optimize.fmin`: nothing to compare (counted in the distribution)
            ta, tb = a.split(), b.split()
            if len(ta) != len(tb):
                return f"line {i} ({tag}): model={a[:200]!r} impl={b[:200]!r}"
            flat = False
            if tag.endswith(":Probit") and len(ta) == 5 and all(len(t) == 16 for t in ta + tb):
                # probit regression with slope 0 within rounding (e.g. levels with 1 of 1 and 2 of 3 fractures: both 0.5):
                # TS = 10^(c/0), SD = 10^(-i/0) are inf / NaN by the sign of the rounding noise; theorem guard `hps` excludes it
                flat = any(not (abs(h2f(t[4])) < PROBIT_TS_MAX) for t in (ta, tb))
            for j, (x, y) in enumerate(zip(ta, tb)):
                if tag in ("lik", "obj2", "obj5"):      # a log-likelihood of -inf: `none` in the model, or a sum that is -inf
                    x, y = ("-inf" if t == "fff0000000000000" else t for t in (x, y))
                if x == y or (tag == "full" and y == "-"):
                    continue
                if tag in ("lik", "obj2", "obj5") and "-inf" in (x, y):
                    other = y if x == "-inf" else x
                    if len(other) == 16 and h2f(other) < -700.0:
                        continue      # a factor Phi(z) at z < -37: 0 in one implementation of Phi, 1e-310 in the other (ln(2.2e-308) = -708)
                if len(x) == 16 and len(y) == 16:
                    fx, fy = h2f(x), h2f(y)
                    key = (KEYS[(j - 1) % 5] if tag == "full" and 1 <= j <= 10 else
                           KEYS[j] if tag.startswith(("curve", "sdts")) and j < 5 else None)
                    if tag == "curve_exact" and key in ("TN", "TS") and basquin_spread(case["rows"], case["k"]) < EXACT_SPREAD:
                        continue      # TN / TS of a 0/0 regression (shifted cycles coincide within rounding): noise on both sides (see the oracle)
                    if flat and key in ("SD", "ND", "TS"):
                        continue
                    if tag.startswith("sdts") and key not in ("SD", "TS"):
                        continue      # empty finite zone: the k_1 = inf / NaN branch of Elementary.analyze is not modelled
                    if same(fx, fy, K_RTOL):
                        continue
                    if tag in ("lik", "obj2", "obj5") and abs(fx - fy) <= 1e-9:
                        continue      # log-likelihood sums near 0
                    return f"line {i} ({tag}) token {j}{' ' + key if key else ''}: model={fx!r} impl={fy!r}"
                return f"line {i} ({tag}) token {j}: model={x!r} impl={y!r}"
        return None

    def nontrivial(self, case, model_out):
        return json.dumps(case, sort_keys=True)

    # -------------------------------------------------------------- oracle
    def oracle(self, case):
        try:
            return self._oracle(case)
        finally:
            rec = _rec()
            if rec is not None:
                self.stats["max_fmin_evaluations"] = max(self.stats.get("max_fmin_evaluations", 0), rec.max_evaluations)
                if rec.shortcuts_taken:
                    self._count("fmin_constant_inf_shortcuts", rec.shortcuts_taken)
                    rec.shortcuts_taken = 0

    def _oracle(self, case):
        k = case["kind"]
        if k == "history":
            return self._oracle_history(case)
        if k == "data":
            rows = case["rows"]
            names = ["Elementary", "Probit"]
            res = (self._oracle_zones(case) or self._oracle_fatigue_data(case)
                   or self._oracle_equivariance(case, names, CF_RTOL))
            if res is None and not has_runouts(rows) and mlfull_accepts(rows):
                # MaxLikeFull without run-outs: SD = 0 and TS = 1 are fixed
                res = (self._oracle_equivariance(case, ["MaxLikeFull"], ML_RTOL, must_accept=True)
                       or self._oracle_ml_start(dict(case, analyzer="MaxLikeFull")))
            return res
        if k == "staircase":
            names = ["Elementary", "Probit"] + (["MaxLikeInf"] if ml_admissible(case["rows"]) else [])
            return (self._oracle_zones(case) or self._oracle_fatigue_data(case)
                    or self._oracle_equivariance(case, names, CF_RTOL, rtols={"MaxLikeInf": ML_RTOL}))
        if k == "session":
            return self._oracle_session(case)
        if k == "intcycles":
            names = ["Elementary", "Probit"] + (["MaxLikeInf"] if ml_admissible(case["rows"]) else [])
            return self._oracle_equivariance(case, names, CF_RTOL, rtols={"MaxLikeInf": ML_RTOL})
        if k == "zero_start":
            return self._oracle_zero_start(case)
        if k == "big":
            return self._oracle_big(case)
        if k == "ml":
            if not ml_admissible(case["rows"]) and not (case["analyzer"] == "MaxLikeFull" and mlfull_mode(case["rows"]) == "fixTS"):
                self._count("ml_cases_outside_claimed_domain")       # (old corpus cases) the optimiser runs away: nothing is claimed
                return None
            return (self._oracle_equivariance(case, [case["analyzer"]], ML_RTOL, must_accept=True)
                    or self._oracle_ml_start(case))
        if k == "exact":
            return self._oracle_exact(case)
        if k == "exact_batch":
            return self._oracle_exact_batch(case)
        if k == "norun_real":
            return self._oracle_norun_real(case)
        return None

    def _zones_of(self, rows, labels=None):
        _woe()                                  # registers the `fatigue_data` accessor
        with warnings.catch_warnings():
            warnings.simplefilter("ignore")
            df = make_df(rows, labels)
            df["pos"] = range(len(df))          # the position identifies a test whatever its row label is
            fd = df.fatigue_data
            tr = float(fd.finite_infinite_transition)
            fi, ii = [int(v) for v in fd.finite_zone.pos], [int(v) for v in fd.infinite_zone.pos]
        return tr, fi, ii

    def _oracle_zones(self, case):
        rows, labels = case["rows"], case.get("labels")
        tr, fi, ii = self._zones_of(rows, labels)
        if len(fi) + len(ii) != len(rows):
            return (f"the zones hold {len(fi)} + {len(ii)} of the {len(rows)} tests (transition {tr!r}; row labels "
                    f"{'repeat' if labels is not None and len(set(labels)) < len(labels) else 'are unique'})", "zones-partition")
        for i, r in enumerate(rows):
            n = fi.count(i) + ii.count(i)
            if n != 1:
                return (f"test {i} (load {r[0]!r}, fracture {bool(r[2])}, label {labels[i] if labels else i!r}) is in {n} zones "
                        f"(transition {tr!r})", "zones-partition")
            L = float(r[0])
            if i in fi and not (L > tr and bool(r[2])):
                return (f"finite-zone test {i}: load {L!r} not above the reported transition {tr!r} or not a fracture", "zones-partition")
            if i in ii and not L < tr:
                # (with run-outs the transition lies strictly above the highest run-out level, also when it is guessed
                # from the two highest levels of a run-out-topped series: theorem zones_partition_runout_topped)
                return (f"infinite-zone test {i} ({'fracture' if r[2] else 'run-out'}): load {L!r} not below the reported "
                        f"transition {tr!r}", "zones-partition")
        return None

    def _oracle_fatigue_data(self, case):
        """`df.fatigue_data`: the reported transition and the zones under a row permutation and load / cycle scaling"""
        rows = case["rows"]
        tr, fi, ii = self._zones_of(rows)
        n = len(rows)
        order = list(range(n))
        random.Random(case["perm_seed"]).shuffle(order)
        variants = [("rows permuted", [rows[i] for i in order], order, 1.0),
                    ("rows sorted by load", *(lambda o: ([rows[i] for i in o], o))(sorted(range(n), key=lambda i: rows[i][0])), 1.0),
                    ("rows sorted by falling load", *(lambda o: ([rows[i] for i in o], o))(sorted(range(n), key=lambda i: -rows[i][0])), 1.0)]
        for c in case.get("factors", FACTORS):
            variants.append((f"loads x {c:g}", scaled(rows, cl=c), list(range(n)), c))
            variants.append((f"cycles x {c:g}", scaled(rows, cn=c), list(range(n)), 1.0))
        for what, vrows, origin, c in variants:
            tr2, fi2, ii2 = self._zones_of(vrows)
            self._count("fatigue_data_relations")
            if not same(tr2, c * tr, 1e-12):
                return (f"df.fatigue_data.finite_infinite_transition: {what}: {tr2!r}, expected {c * tr!r} (original {tr!r})",
                        "transition-equivariance")
            if sorted(origin[i] for i in fi2) != sorted(fi) or sorted(origin[i] for i in ii2) != sorted(ii):
                return (f"df.fatigue_data zones: {what}: finite zone holds the tests {sorted(origin[i] for i in fi2)}, "
                        f"originally {sorted(fi)}", "transition-equivariance")
        return None

    def _oracle_equivariance(self, case, names, rtol, must_accept=False, rtols=None):
        rows = case["rows"]
        factors = case.get("factors") or ([case["factor"]] if "factor" in case else FACTORS)
        for name in names:
            tol = (rtols or {}).get(name, rtol)
            if name in ("MaxLikeInf", "MaxLikeFull") and not (name == "MaxLikeFull" and not has_runouts(rows)):
                # The likelihood at the START of the search is -inf (e.g. the elementary TS is so small that a fracture below
                # SD has probability 0 in double precision): every vertex of Nelder-Mead's start simplex is +inf, the
                # simplex only shrinks towards the start, and the code returns the start after its whole budget of 1e4
                # evaluations (about 100 s per run were measured with the budget 1e5 of fc45e06; /repo commit 8a1c973 went
                # back to 1e4).  "Not worse than the start" is then -inf >= -inf; the
                # real optimiser is not run there (the stub-optimiser correspondence is).
                calls = []
                probe = analyze(name, rows, stub=lambda call: call["x0"], calls=calls)
                if "error" not in probe and calls:
                    with np.errstate(all="ignore"):
                        f0 = float(calls[0]["func"](calls[0]["x0"], *calls[0]["args"]))
                    if f0 == math.inf:
                        self._count("ml_start_likelihood_minus_inf_not_optimised")
                        self._last_base = {(name, json.dumps(rows)): {"error": "not optimised: likelihood -inf at the start"}}
                        continue
            ridge = bool(case.get("repo_data"))       # flat-ridge repository data: the runs are also examined for the iteration-limit warning
            wrec = [] if ridge else None
            base = analyze(name, rows, warns=wrec)
            self._last_base = {(name, json.dumps(rows)): base}
            if ridge:
                res = self._limit_warning(name, "original data", base, wrec)
                if res is not None:
                    return res
            # ML results: the optimiser resolves each parameter RELATIVE to its start value (xtol on p / start), so a
            # parameter that the optimum drives to ~0 (e.g. k_1 -> 0 on a flat series: 6e-16 vs 7e-17) is resolved
            # absolutely on the scale of its start value: deviations are measured against max(|expected|, |start|)
            floor = analyze("Elementary", rows) if tol != CF_RTOL else {}
            if "error" in floor:
                floor = {}
            fixed_rel = case.get("fixed_rel") if name == "MaxLikeFull" else None
            if fixed_rel and not floor:
                fixed_rel = None

            def fixed_for(fac):
                return {k: floor[k] * m * fac.get(k, 1.0) for k, m in fixed_rel.items()} if fixed_rel else None
            if fixed_rel:
                base = analyze(name, rows, fixed=fixed_for({}))
                self._last_base = {(name, json.dumps(rows)): base}
                self._count("mlfull_user_fixed_" + "+".join(sorted(fixed_rel)))
                for k, v in fixed_for({}).items():
                    if "error" not in base and not same(base[k], abs(v), 1e-12):
                        return (f"MaxLikeFull(fixed_parameters={fixed_for({})!r}): returns {k} = {base[k]!r}", "fixed-parameter-not-kept")
            if base.get("budget"):
                return (f"{name}: {base['error']} (the unchanged code needs < 1500)", "optimiser-budget-exceeded")
            if must_accept and "error" in base:
                return (f"{name} rejects a data set that meets its documented preconditions: {base['error']}",
                        "ml-rejects-admissible-data")
            variants = [("rows permuted", permuted(rows, case["perm_seed"]), {}, None, {})]
            if case.get("labels") is not None and name != "MaxLikeFull":
                # (MaxLikeFull: a run costs a second; its label handling is exercised by the stub-optimiser correspondence,
                # which hands the labelled frame to the code, and by the history / data cases)
                lab = case["labels"]
                variants.append((f"same rows with {'repeating' if len(set(lab)) < len(lab) else 'other unique'} row labels "
                                 f"(e.g. {lab[:4]!r}) instead of a fresh RangeIndex", rows, {}, lab, {}))
            if tol == CF_RTOL:
                if all(float(r[0]).is_integer() and abs(r[0]) < 2 ** 53 for r in rows):
                    variants.append(("load column of dtype int64", rows, {}, None, {"int_load": True}))
                run = [r for r in rows if not r[2]]
                if run and len({r[1] for r in run}) == 1 and all(r[1] < run[0][1] for r in rows if r[2]):
                    variants.append(("fracture column omitted (flags derived from the cycle limit by determine_fractures)",
                                     rows, {}, None, {"no_fracture_column": True}))
            if tol == CF_RTOL or len(factors) < 2:
                for c in factors:
                    variants.append((f"loads x {c:g}", scaled(rows, cl=c), {"SD": c}, None, {}))
                    variants.append((f"cycles x {c:g}", scaled(rows, cn=c), {"ND": c}, None, {}))
            else:       # an optimiser run costs a second: one factor below 1 for the loads, one above 1 for the cycles, or the other way round
                a, b = (factors[0], factors[1]) if case["perm_seed"] % 2 else (factors[1], factors[0])
                variants.append((f"loads x {a:g}", scaled(rows, cl=a), {"SD": a}, None, {}))
                variants.append((f"cycles x {b:g}", scaled(rows, cn=b), {"ND": b}, None, {}))
            if case["kind"] == "intcycles":
                # the same tests with the cycle numbers in an int64 column / in other units: the estimate is a function of the
                # NUMBERS (formalisation choice in ASSUMPTIONS), and scales with the unit of the cycles
                variants = [("cycles column of dtype int64 (same numbers)", rows, {}, None, {"int_cycles": True}),
                            ("int64 cycles column x 1000", scaled(rows, cn=1000.0), {"ND": 1000.0}, None, {"int_cycles": True}),
                            ("cycles x 2.5", scaled(rows, cn=2.5), {"ND": 2.5}, None, {}),
                            ("cycles x 0.001", scaled(rows, cn=0.001), {"ND": 0.001}, None, {}),
                            ("rows permuted, int64 cycles column", permuted(rows, case["perm_seed"]), {}, None, {"int_cycles": True})]
            if case.get("only_variants"):
                variants = [v for v in variants if any(v[0].startswith(p) for p in case["only_variants"])]
            variants.sort(key=lambda v: 0 if v[2] else 1)      # the scalings first (stable): a broken relation shows after few runs
            for what, vrows, fac, vlabels, dfkw in variants:
                wrec = [] if ridge else None
                got = analyze(name, vrows, vlabels, fixed=fixed_for(fac), warns=wrec, **dfkw)
                self._count("analyzer_runs_" + name)
                if ridge:
                    res = self._limit_warning(name, what, got, wrec)
                    if res is not None:
                        return res
                if got.get("budget"):
                    return (f"{name}: {what}: {got['error']} (the unchanged code needs < 1500)", "optimiser-budget-exceeded")
                if dfkw:
                    self._count("variant_" + next(iter(dfkw)))
                if ("error" in base) != ("error" in got):
                    return (f"{name}: {what}: {got.get('error', 'a result')} but the original data give "
                            f"{base.get('error', 'a result')}", "equivariance-" + name)
                if "error" in base:
                    self._count("analyzer_rejects_" + name)
                    continue
                flat = name == "Probit" and not (abs(base["TS"]) < PROBIT_TS_MAX and abs(got["TS"]) < PROBIT_TS_MAX)
                if flat:
                    self._count("probit_slope_zero_within_rounding")
                for key in KEYS:
                    if key == "ND" and what.startswith("loads") and base["SD"] == 0.0:
                        continue
                    if flat and key in ("SD", "ND", "TS"):
                        continue      # probit regression with slope 0 within rounding: inf / NaN by the sign of the noise (theorem guard `hps`)
                    want = base[key] * fac.get(key, 1.0)
                    # SD, ND, TN, TS are computed as 10^x: a relative error eps of x is ln(10) |x| eps in the value
                    cond = max(1.0, abs(math.log10(abs(want))) / 3.0) if (key != "k_1" and want == want and 0 < abs(want) < math.inf) else 1.0
                    scale = abs(floor.get(key, 0.0) * fac.get(key, 1.0))
                    if tol != CF_RTOL and not (base.get("warnflag") or got.get("warnflag")):
                        den = max(abs(want), scale if scale == scale and scale < math.inf else 0.0)
                        if den > 0 and got[key] == got[key]:
                            self.stats["max_ml_relative_deviation_converged"] = max(self.stats.get("max_ml_relative_deviation_converged", 0.0), abs(got[key] - want) / den)
                    if scale == scale and scale < math.inf and abs(got[key] - want) <= tol * cond * scale:
                        if not same(got[key], want, tol * cond):
                            self._count("ml_compared_on_start_scale")
                        continue
                    if not same(got[key], want, tol * cond):
                        if tol != CF_RTOL:
                            # Ill-posed optimum?  If the two answers (the transformed one mapped back onto the original data) have
                            # the SAME likelihood to 2e-9 and the likelihood at their geometric midpoint is not higher either, the
                            # likelihood is flat between them - a ridge: the data do not determine the parameters (e.g. one
                            # run-out level only: ND * SD^k is determined, SD is not; the optimiser wanders along it until its
                            # budget or stops anywhere on it) and the property's relation between the PARAMETERS has no meaning.
                            # (Two answers near a well-defined maximum differ in likelihood by H d^2 / 2 or have a better midpoint.)
                            back = {k2: got[k2] / fac.get(k2, 1.0) for k2 in KEYS}
                            mid = {k2: math.copysign(math.sqrt(abs(base[k2] * back[k2])), base[k2]) for k2 in KEYS}
                            la, lb, lm = (self._likelihood(name, rows, c) for c in (base, back, mid))
                            eps = 2e-9 * max(1.0, abs(la))
                            if abs(la - lb) <= eps and lm <= max(la, lb) + eps:
                                self._count("ml_flat_ridge_equal_likelihood")
                                if base.get("warnflag") or got.get("warnflag"):
                                    self._count("ml_flat_ridge_optimiser_on_budget")
                                break
                            return (f"{name}: {what}: {key} = {got[key]!r}, expected {want!r} (original {base[key]!r}); relative deviation "
                                    f"{abs(got[key] - want) / abs(want) if want else float('inf'):.3g}; log-likelihood of the two answers "
                                    f"{la!r} / {lb!r}, at their midpoint {lm!r}", "equivariance-" + name)
                        return (f"{name}: {what}: {key} = {got[key]!r}, expected {want!r} (original {base[key]!r}); "
                                f"relative deviation {abs(got[key] - want) / abs(want) if want else float('inf'):.3g}",
                                "equivariance-" + name)
        return None

    def _limit_warning(self, name, what, res, warns):
        """/repo d747c6e (maxlike._warn_if_not_converged), on the runs of the flat-ridge repository data cases: a run of the real
        optimiser that stops at its iteration limit (fmin's warnflag != 0) with a finite objective emits exactly one warning of
        category UserWarning that begins with LIMIT_WARNING; a converged run (warnflag 0) emits none.  `warns` = what `analyze`
        recorded during that run.  No further optimiser run is made."""
        if "error" in res or res.get("warnflag") is None:
            return None
        fopt = res.get("fopt")
        on_limit = res["warnflag"] != 0 and fopt is not None and abs(fopt) < math.inf
        seen = [c for c, m in warns if m.startswith(LIMIT_WARNING)]
        self._count("limit_warning_runs_" + ("on_limit" if on_limit else "converged" if res["warnflag"] == 0 else "on_limit_infinite_likelihood"))
        if on_limit and not (len(seen) == 1 and seen[0] is UserWarning):
            return (f"{name}: {what}: the optimiser stopped at its iteration limit (warnflag {res['warnflag']}, {res.get('evaluations')} "
                    f"evaluations, objective {fopt!r}) but the run emitted {[c.__name__ for c in seen] or 'no'} warning "
                    f"'{LIMIT_WARNING} ...' (expected exactly one UserWarning: the estimate is not unique)", "ml-limit-warning")
        if not on_limit and seen:
            return (f"{name}: {what}: the run emitted the warning '{LIMIT_WARNING} ...' {len(seen)} time(s) although the optimiser "
                    f"{'converged (warnflag 0)' if res['warnflag'] == 0 else 'ended with an infinite objective'}", "ml-limit-warning")
        return None

    def _likelihood(self, name, rows, c):
        """the code's own log-likelihood of the curve `c` on the (reduced) data: the objective of the analyzer `name`"""
        woe = _woe()
        with warnings.catch_warnings():
            warnings.simplefilter("ignore")
            with np.errstate(all="ignore"):
                lh = woe.likelihood.Likelihood(make_df(rows).fatigue_data.irrelevant_runouts_dropped())
                q = {k: np.float64(c[k]) for k in KEYS}
                if name == "MaxLikeInf":
                    return float(lh.likelihood_infinite(q["SD"], q["TS"]))
                return float(lh.likelihood_total(q["SD"], q["TS"], q["k_1"], q["ND"], q["TN"]))

    def _oracle_local_max(self, name, rows, res, free, start):
        """A parameter the analyzer is free to move but CANNOT move: it comes back bit-identical to its start value although
        changing it alone by 0.1 % (by 1e-3 when it is 0) raises the likelihood.  (Mechanism: a start value of 0 multiplied by the
        optimisation variable stays 0.)  Whether a converged answer is a local maximum in every free parameter is recorded
        only: Nelder-Mead may report convergence at a non-stationary point (seen on 6-row data sets)."""
        l1 = self._likelihood(name, rows, res)
        if not (abs(l1) < math.inf):
            return None
        self._count("frozen_parameter_checks_" + name)
        better = []
        for key in free:
            for d in (1e-3, -1e-3):
                c = dict(res)
                c[key] = res[key] * (1.0 + d) if res[key] != 0.0 else d
                l2 = self._likelihood(name, rows, c)
                if l2 > l1 + 1e-9 * max(1.0, abs(l1)):
                    better.append((key, c[key], l2))
                    break
        if better and res.get("warnflag") == 0:
            self._count("converged_but_not_a_local_maximum_recorded")
        for key, v, l2 in better:
            if res[key] == abs(start[key]):
                return (f"{name} returns the free parameter {key} = {res[key]!r} bit-identical to its start value, but {key} = {v!r} "
                        f"alone raises the log-likelihood from {l1!r} to {l2!r}: the search cannot move this parameter",
                        "ml-frozen-parameter")
        return None

    def _oracle_zero_start(self, case):
        rows = case["rows"]
        el = analyze("Elementary", rows)
        if "error" in el:
            return (f"Elementary: {el['error']}", "implementation-raises")
        self._count("zero_start_elementary_" + ("exact_zero" if (el["k_1"] == 0.0 and el["TS"] == 0.0) else "not_zero"))
        res = analyze("MaxLikeFull", rows)
        if res.get("budget"):
            return (f"MaxLikeFull: {res['error']}", "optimiser-budget-exceeded")
        if "error" in res:
            return (f"MaxLikeFull rejects a data set that meets its documented preconditions: {res['error']}", "ml-rejects-admissible-data")
        self._last_base = {("MaxLikeFull", json.dumps(rows)): res}
        return self._oracle_ml_start(dict(case, analyzer="MaxLikeFull"))

    def _oracle_big(self, case):
        """a very large data set: the stopping rule must not depend on the size of the log-likelihood (an ABSOLUTE ftol = 1e-12
        is below the rounding noise of a log-likelihood of 7e3: the optimiser then runs into its budget, 9 x slower)"""
        rows = big_rows(case["seed"], case["n_per_level"])
        for name, cap in (("MaxLikeInf", 600), ("MaxLikeFull", 4000)):
            res = analyze(name, rows)
            self._count("big_runs")
            if "error" in res:
                return (f"{name} on {len(rows)} tests: {res['error']}", "optimiser-budget-exceeded" if res.get("budget") else "ml-rejects-admissible-data")
            self.stats["max_big_evaluations_" + name] = max(self.stats.get("max_big_evaluations_" + name, 0), res.get("evaluations") or 0)
            if res.get("warnflag") != 0 or (res.get("evaluations") or 0) > cap:
                return (f"{name} on {len(rows)} tests: {res.get('evaluations')} objective evaluations, warnflag {res.get('warnflag')} "
                        f"(repaired code: about {cap // 4}, converged)", "optimiser-budget-exceeded")
        return None

    # ---------------------------------------------------------- sessions: stale state, argument integrity, aliasing
    def _call(self, make, fixed=None):
        """run `make()` -> analyzer object, then analyze(); returns (analyzer or None, result dict)"""
        rec = _rec()
        if rec is not None:
            rec.calls, rec.stub, rec.shortcut, rec.cap = [], None, False, None
        with warnings.catch_warnings():
            warnings.simplefilter("ignore")
            with np.errstate(all="ignore"):
                try:
                    an = make()
                    r = an.analyze(fixed_parameters=fixed) if fixed is not None else an.analyze()
                except OptimiserBudgetExceeded as e:
                    return None, {"error": "BUDGET: " + str(e)}
                except Exception as e:
                    return None, {"error": type(e).__name__ + ": " + str(e)[:80]}
        self._count("session_analyses")
        return an, {k: float(r[k]) for k in KEYS}, r

    @staticmethod
    def _differs(got, ref, ml):
        if ("error" in got) != ("error" in ref):
            return f"{got.get('error', 'a result')} instead of {ref.get('error', 'a result')}"
        if "error" in ref:
            return None
        for key in KEYS:
            if not same(got[key], ref[key], 1e-7 if ml else CF_RTOL):      # (the same computation on the same numbers: equal but for the fmin path)
                return f"{key} = {got[key]!r} instead of {ref[key]!r}"
        return None

    def _oracle_session(self, case):
        """The estimate is a function of the data set (formalisation choice in ASSUMPTIONS).  Reference: every analysis as one of
        the first analyses of a FRESH interpreter on objects of its own.  Here, in this long-lived process:
        (1) ONE FatigueData object analysed by several analyzers in the case's order, each analyzer object twice;
        (2) data sets A, B (same loads / flags / size, other cycles), C alive at once, analyses interleaved A B A C A;
        (3) the caller's DataFrame and `fixed_parameters` dict keep values, index and contents after every call;
        (4) the results of analyses handed out (parameter Series, pearl-chain arrays) are modified in place, then the same objects
            analyse again: unchanged results.  (Which FatigueData properties hand out stored frames is counted only.)"""
        woe = _woe()
        A, B, C = case["rows"], case["B"], case["C"]
        el = analyze("Elementary", A)
        if "error" in el:
            return (f"Elementary: {el['error']}", "implementation-raises")
        fixedA = {k: el[k] * m for k, m in case["fixed_rel"].items()}
        names = ["Elementary", "Probit", "MaxLikeInf", "MaxLikeFull"]
        # one fresh interpreter PER DATA SET: a memo with too weak a key (B shares A's loads, flags and size) must not reach the reference
        refA = dict(zip(names + ["MaxLikeFull+fixed"], analyze_fresh_jobs(
            [{"name": n, "rows": A} for n in names] + [{"name": "MaxLikeFull", "rows": A, "fixed": fixedA}])))
        refB = dict(zip(names, analyze_fresh_jobs([{"name": n, "rows": B} for n in names])))
        refC = dict(zip(names, analyze_fresh_jobs([{"name": n, "rows": C} for n in names])))

        def cls(step):
            return getattr(woe, step.split("+")[0])

        def ml(step):
            return step.startswith("MaxLike")

        def snapshot(df):
            return (df.copy(deep=True), list(df.index), list(df.columns), [str(t) for t in df.dtypes])

        def integrity(df, snap, what):
            ref_df, idx, cols, dts = snap
            if list(df.index) != idx:
                return (f"{what}: the caller's DataFrame has another index afterwards: {list(df.index)[:6]!r}... instead of {idx[:6]!r}...",
                        "argument-modified")
            for c, t in zip(cols, dts):
                if c not in df.columns:
                    return (f"{what}: column {c!r} of the caller's DataFrame is gone", "argument-modified")
                a, b = df[c].to_numpy(), ref_df[c].to_numpy()
                if len(a) != len(b) or not all((x == y) or (x != x and y != y) for x, y in zip(a, b)):
                    return (f"{what}: column {c!r} of the caller's DataFrame has other values afterwards", "argument-modified")
                if str(df[c].dtype) != t:
                    self._count("argument_column_dtype_changed_not_required")
            if list(df.columns) != cols:
                self._count("argument_columns_added_or_reordered_not_required")
            return None

        # ---- (1) + (3): one FatigueData object, several analyzers, each analyzer object twice
        df = make_df(A, case.get("labels"))
        snap = snapshot(df)
        with warnings.catch_warnings():
            warnings.simplefilter("ignore")
            fd = df.fatigue_data
        objects = []
        for step in case["order"]:
            fixed = dict(fixedA) if step.endswith("+fixed") else None
            fixed_before = dict(fixed) if fixed is not None else None
            out = self._call(lambda: cls(step)(fd), fixed)
            an, got = out[0], out[1]
            d = self._differs(got, refA[step], ml(step))
            if d:
                return (f"one FatigueData object, analyses {case['order']!r}: {step}: {d} (reference: the same analysis on objects of "
                        f"its own in a fresh interpreter)", "stale-state")
            bad = integrity(df, snap, f"after {step}(fd).analyze()")
            if bad:
                return bad
            if fixed is not None and fixed != fixed_before:
                return (f"MaxLikeFull.analyze(fixed_parameters={fixed_before!r}) changed the caller's dict to {fixed!r}", "argument-modified")
            if an is not None:
                objects.append((step, an, out[2], fixed_before))
                with warnings.catch_warnings():
                    warnings.simplefilter("ignore")
                    with np.errstate(all="ignore"):
                        try:
                            r2 = an.analyze(fixed_parameters=dict(fixed_before)) if fixed_before is not None else an.analyze()
                            got2 = {k: float(r2[k]) for k in KEYS}
                        except Exception as e:
                            got2 = {"error": type(e).__name__ + ": " + str(e)[:80]}
                d = self._differs(got2, refA[step], ml(step))
                if d:
                    return (f"{step}: the second analyze() of the same analyzer object: {d}", "stale-state")
        # ---- (4) what was handed out is modified in place; the same objects analyse again
        with warnings.catch_warnings():
            warnings.simplefilter("ignore")
            with np.errstate(all="ignore"):
                for step, an, res, _fx in objects:
                    # results of ANALYSES: the Woehler parameter Series, the pearl-chain estimator's arrays
                    try:
                        for k in KEYS:
                            res[k] = -1.0
                        self._count("handed_out_results_modified")
                    except Exception:
                        self._count("handed_out_result_not_modifiable")
                    try:
                        pc = an.pearl_chain_estimator()
                        for arr in (pc.normed_cycles, pc.occurrences, pc.percentiles):
                            arr[:] = -1.0
                        self._count("handed_out_pearl_chain_arrays_modified")
                    except Exception:
                        self._count("handed_out_pearl_chain_not_modifiable")
        bad = integrity(df, snap, "after modifying the result Series / pearl-chain arrays handed out by the analyzers in place")
        if bad:
            return (bad[0], "aliased-internal-state")
        for step, an, _res, fx in objects[:4]:
            for how, make in (("the same analyzer object", None), ("a new analyzer on the same FatigueData object", lambda: cls(step)(fd))):
                if make is None:
                    with warnings.catch_warnings():
                        warnings.simplefilter("ignore")
                        with np.errstate(all="ignore"):
                            try:
                                r2 = an.analyze(fixed_parameters=dict(fx)) if fx is not None else an.analyze()
                                got = {k: float(r2[k]) for k in KEYS}
                            except Exception as e:
                                got = {"error": type(e).__name__ + ": " + str(e)[:80]}
                else:
                    got = self._call(make, dict(fx) if fx is not None else None)[1]
                d = self._differs(got, refA[step], ml(step))
                if d:
                    return (f"after the result Series and pearl-chain arrays handed out by the analyzers were modified in place, {how} ({step}) gives {d}",
                            "aliased-internal-state")
        # ---- (2) several data sets alive at once, analyses interleaved
        frames = {"A": make_df(A), "B": make_df(B), "C": make_df(C)}
        refs = {"A": refA, "B": refB, "C": refC}
        for name in names:
            seq = ["A", "B", "A", "C", "A"] if name != "MaxLikeFull" else ["A", "B", "A"]
            if case["order"].index("MaxLikeFull") % 2:
                seq = ["B", "A", "B"] + (["C", "A"] if name != "MaxLikeFull" else [])
            for i, which in enumerate(seq):
                got = self._call(lambda: getattr(woe, name)(frames[which]))[1]
                d = self._differs(got, refs[which][name], ml(name))
                if d:
                    return (f"{name} on the data sets {' '.join(seq[:i + 1])} (all alive, B = A's loads and flags with other cycle numbers): "
                            f"the result for {which} is {d}", "stale-state")
        # ---- (4b) NOT part of the property, counted only: which of the FatigueData properties hand out the object's own frames
        # (a caller who overwrites such a frame in place changes later analyses on that object; nothing in the library does)
        for attr in ("finite_zone", "infinite_zone", "fractures", "runouts"):
            df2 = make_df(A)
            with warnings.catch_warnings():
                warnings.simplefilter("ignore")
                with np.errstate(all="ignore"):
                    try:
                        fd2 = df2.fatigue_data
                        self._call(lambda: woe.Elementary(fd2))
                        f = getattr(fd2, attr)
                        f.loc[:, "cycles"] = 1.0
                        f.loc[:, "load"] = 7.0
                    except Exception:
                        continue
            got = self._call(lambda: woe.Elementary(fd2))[1]
            if self._differs(got, refA["Elementary"], False):
                st = self.stats.setdefault("properties_that_alias_internal_state", {})
                st[attr] = st.get(attr, 0) + 1
        self._count("session_cases_passed")
        return None

    def _oracle_history(self, case):
        """the estimate for a data set is a function of the data set: analysing `first` before it changes nothing"""
        names = ["Elementary", "Probit", "MaxLikeInf", "MaxLikeFull"]
        ref = analyze_fresh(names, case["rows"])                  # fresh interpreter: B alone
        for name in ("Elementary", "Probit", "MaxLikeFull"):      # A (one mixed level: MaxLikeInf rejects it)
            analyze(name, case["first"])
        self._count("history_sessions")
        for name in names:
            got = analyze(name, case["rows"])                     # B after A, in this (long-lived) process
            base = ref[name]
            if ("error" in base) != ("error" in got):
                return (f"{name}: after analysing another data set first: {got.get('error', 'a result')}, as the first analysis "
                        f"of a fresh interpreter: {base.get('error', 'a result')}", "history-" + name)
            if "error" in base:
                continue
            rtol = CF_RTOL if name in ("Elementary", "Probit") else ML_RTOL
            for key in KEYS:
                if not same(got[key], base[key], rtol):
                    return (f"{name}: the result depends on what was analysed before: {key} = {got[key]!r} after a data set with "
                            f"one mixed load level, {base[key]!r} as the first analysis of a fresh interpreter (relative deviation "
                            f"{abs(got[key] - base[key]) / abs(base[key]) if base[key] else float('inf'):.3g})", "history-" + name)
        return self._oracle_ml_start(dict(case, analyzer="MaxLikeFull"))

    def _oracle_ml_start(self, case):
        """log-likelihood of the result >= log-likelihood at the point the search starts from (computed with the code's own
        Likelihood class on the data the analyzer works with; for MaxLikeFull the start is the elementary curve with the
        parameters the code fixes)"""
        woe = _woe()
        name = case["analyzer"]
        rows = case["rows"]
        res = self._last_base.get((name, json.dumps(rows))) or analyze(name, rows)
        if "error" in res:
            return None
        el = analyze("Elementary", rows)
        with warnings.catch_warnings():
            warnings.simplefilter("ignore")
            with np.errstate(all="ignore"):
                fd = make_df(rows).fatigue_data.irrelevant_runouts_dropped()
                lh = woe.likelihood.Likelihood(fd)

                def total(c):
                    q = {k: np.float64(v) for k, v in c.items()}
                    return float(lh.likelihood_total(q["SD"], q["TS"], q["k_1"], q["ND"], q["TN"]))
                if name == "MaxLikeInf":
                    start = (float(fd.finite_infinite_transition), 1.2)
                    l0 = float(lh.likelihood_infinite(np.float64(start[0]), np.float64(start[1])))
                    l1 = float(lh.likelihood_infinite(np.float64(res["SD"]), np.float64(res["TS"])))
                    # the property's wording ("than the elementary estimate"): recorded, not required - MaxLikeInf does not
                    # start from the elementary TS and re-evaluates ND, so the TOTAL likelihood may fall
                    # MaxLikeInf keeps k_1, TN and moves the knee ALONG the elementary Basquin line to its SD: the finite-life
                    # part of the likelihood is the elementary one, the infinite-life part was maximised
                    lt, le = total({k: res[k] for k in KEYS}), total({k: el[k] for k in KEYS})
                    self._count("mlinf_total_likelihood_" + ("ge" if lt >= le - 1e-9 else "lt") + "_elementary")
                    if el["SD"] > 0 and all(abs(el[k]) < math.inf for k in KEYS):
                        want = el["ND"] * (res["SD"] / el["SD"]) ** (-el["k_1"])
                        self._count("mlinf_knee_on_line_checks")
                        if want > float(fd.runouts.cycles.max()):
                            self._count("mlinf_knee_beyond_runout_cycles")
                        if not same(res["ND"], want, 1e-8):
                            return (f"MaxLikeInf: the knee (SD = {res['SD']!r}, ND = {res['ND']!r}) is not on the elementary Basquin line "
                                    f"(k_1 = {el['k_1']!r} through SD = {el['SD']!r}, ND = {el['ND']!r}): the line gives ND = {want!r}",
                                    "mlinf-knee-off-basquin-line")
                        if abs(le) < math.inf and not (lt >= le - 1e-6 * max(1.0, abs(le))):
                            return (f"MaxLikeInf: total log-likelihood of the result {lt!r} is lower than that of the elementary estimate {le!r}",
                                    "ml-worse-than-start")
                else:
                    mode = mlfull_mode(rows)
                    start = {k: el[k] for k in KEYS}
                    if mode == "norun":
                        start["SD"], start["TS"] = 0.0, 1.0
                    for k, m in (case.get("fixed_rel") or {}).items():
                        start[k] = abs(el[k] * m)
                    l0, l1 = total(start), total(res)
                    self._count("ml_start_mode_" + mode)
        self._count("ml_start_checks_" + name)
        if l0 == -math.inf and l1 == -math.inf:
            self._count("ml_start_vacuous_minus_inf")
            return None
        if not (l1 >= l0 - 1e-9 * max(1.0, abs(l0))):
            return (f"{name}: log-likelihood of the result {l1!r} is lower than at its start point {start!r}: {l0!r}",
                    "ml-worse-than-start")
        if True:
            fixed = set(case.get("fixed_rel") or {})
            if name == "MaxLikeInf":
                free = ["SD", "TS"]
                start = dict(res, SD=start[0], TS=start[1])
            else:
                mode = mlfull_mode(rows)
                free = [k for k in KEYS if k not in fixed and not (mode == "fixTS" and k == "TS") and not (mode == "norun" and k in ("SD", "TS"))]
            return self._oracle_local_max(name, rows, res, free, start)
        return None

    def _exact_one(self, rows, k):
        """(failure or None, 'one' | 'known' | None) for one exact data set"""
        r = analyze("Elementary", rows)
        if "error" in r:
            return (f"Elementary on exact Basquin data: {r['error']}", "exact-basquin-slope"), None
        if not same(r["k_1"], k, 1e-9):
            return (f"exact Basquin data with slope {k!r}: k_1 = {r['k_1']!r}", "exact-basquin-slope"), None
        if abs(r["TN"] - 1.0) <= 1e-6 and abs(r["TS"] - 1.0) <= 1e-6:
            return None, "one"
        # TN / TS are not 1.  The KNOWN finding is exactly this mechanism: the shifted (pearl chain) cycles coincide within
        # rounding (log10-spread < 1e-12), the probability-net regression is a 0/0 and the code returns what
        # linregress makes of the rounding noise.  Accepted as known only if the code's values ARE that computation.
        spread, TN, TS = pearl_chain_repro(rows, r["k_1"])
        what = "nan" if r["TN"] != r["TN"] else "inf" if abs(r["TN"]) == math.inf else "off"
        desc = (f"exact Basquin data (k = {k!r}): TN = {r['TN']!r}, TS = {r['TS']!r} instead of 1 "
                f"(log10-spread of the shifted cycles {spread:.3g})")
        if spread < EXACT_SPREAD and TN != "raise" and same(r["TN"], TN, 0.0) and same(r["TS"], TS, 0.0):
            self._count("exact_scatter_" + what)
            return (desc + " - the 0/0 pearl-chain regression of the known finding", "exact-basquin-scatter"), "known"
        return (desc + f" - NOT the documented 0/0 regression (that gives TN = {TN!r}, TS = {TS!r})", "exact-basquin-scatter-other"), None

    def _oracle_exact(self, case):
        res, how = self._exact_one(case["rows"], case["k"])
        if how == "one":
            self._count("exact_scatter_one")
        if res is not None and res[1] == "exact-basquin-scatter" and self.known(res[1], res[0]):
            return None
        return res

    def _oracle_exact_batch(self, case):
        ones = known = 0
        for s in case["sets"]:
            res, how = self._exact_one(s["rows"], s["k"])
            if how == "one":
                ones += 1
            elif how == "known":
                known += 1
                self.known(res[1], res[0])
            else:
                return res
        n = len(case["sets"])
        self._count("exact_batch_sets", n)
        self._count("exact_batch_scatter_one", ones)
        self._count("exact_batch_scatter_known_0_div_0", known)
        if ones < EXACT_RATE_MIN * n:
            return (f"only {ones} of {n} exact Basquin data sets come back with TN = TS = 1 (the known 0/0 finding hit "
                    f"{known}); recorded rate 0.81, alarm below {EXACT_RATE_MIN}", "exact-basquin-scatter-rate")
        return None

    def _oracle_norun_real(self, case):
        """MaxLikeFull without run-outs with scipy's real Nelder-Mead (capped at REAL_FMIN_CAP evaluations instead of the
        code's 1e4: on the constant objective every iteration is the same shrink step towards the start vertex, which is
        never replaced) returns what the shortcut returns: the start"""
        a = analyze("MaxLikeFull", case["rows"], real_fmin=True)
        b = analyze("MaxLikeFull", case["rows"])
        self._count("norun_real_fmin_runs")
        for key in KEYS:
            if "error" in a or "error" in b or not same(a[key], b[key], 0.0):
                return (f"MaxLikeFull without run-outs: real fmin gives {a!r}, the constant-objective shortcut {b!r}",
                        "harness-shortcut-differs")
        return None

    # -------------------------------------------------------------- shrinking
    def _in_domain(self, case):
        k = case["kind"]
        rows = case["rows"]
        if k == "exact":
            return exact_admissible(rows)
        if k == "staircase":
            return staircase_admissible(rows)
        if k in ("ml", "history"):
            if k == "ml" and case["analyzer"] == "MaxLikeFull" and mlfull_mode(rows) == "fixTS":
                return admissible(rows) and mlfull_accepts(rows)
            return admissible(rows) and ml_admissible(rows)
        return admissible(rows)

    def shrink(self, case, still_fails):
        import time
        if "rows" not in case or case["kind"] == "session":
            return case
        cur = dict(case)
        changed = True
        t_end = time.time() + (45 if case["kind"] in ("history", "ml") else 90)     # ML / history oracles cost seconds per call
        while changed and len(cur["rows"]) > 2 and time.time() < t_end:
            changed = False
            for i in range(len(cur["rows"])):
                if time.time() >= t_end:
                    break
                cand = dict(cur, rows=cur["rows"][:i] + cur["rows"][i + 1:])
                if cur.get("labels") is not None:
                    cand["labels"] = cur["labels"][:i] + cur["labels"][i + 1:]
                if not self._in_domain(cand):
                    continue
                try:
                    if still_fails(cand):
                        cur, changed = cand, True
                        break
                except Exception:
                    continue
        return cur
