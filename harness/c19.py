"""C19: mesh operators are exact on linear fields and respect mesh connectivity.

Correspondence: the Lean model `Model/Mesh.lean` (driver ops `m19 …`) against `df.gradient`, `df.gradient_3D`,
`df.hotspot`, `df.meshmapper` (whole meshes: the triangulation of `scipy.spatial.Delaunay` is handed to the model;
and single simplices), `df.surface_3D` (hexahedral blocks) on generated meshes:
structured hex blocks up to 4x4x4, tetrahedra from split hexes, quadratic elements (hex20, hex16, tet10), mixed
hex+tet meshes, meshes with an unsupported (6-node) element, planar quad meshes in planes of any orientation
(z/x/y = const, integer lattice planes, rotated planes), bar meshes (nodes on a line), perturbed node positions,
coordinate scales (uniform 1e-6 … 1e3; per-axis scales from 1e-6 up to 1e5 with an anisotropy of at most 1e4, surface
blocks at most 1e3), node / element id maps (1..N, 0-based, offset, gaps,
reversed, permuted, negative), row orders (element blocks, reversed / shuffled blocks, interleaved elements, fully
shuffled rows - the last not for gradient_3D / mapping), both index level orders, and frames that carry more than
[x, y, z, value] (decoy numeric / string
columns, a second value column, permuted column order, other value column names, integer value dtype).
Hot-spot cases also carry NaN nodal values and an `artefact_threshold`; mapping cases use duplicated node rows as the
source in part of the cases and three layouts of the target index.
Oracle: the property's own relations on the real code, independent of the Lean model."""
import json
import math
import os
import random
import warnings

# The mesh code calls LAPACK thousands of times on tiny matrices; multi-threaded OpenBLAS spins on a busy
# machine (a 125-point griddata call took 5 s instead of 0.02 s under load).  One thread, set before numpy loads.
for _v in ("OPENBLAS_NUM_THREADS", "OMP_NUM_THREADS", "MKL_NUM_THREADS"):
    os.environ.setdefault(_v, "1")

import numpy as np
import pandas as pd

from . import core
from .core import Prop, f2h, h2f

SOURCES = [
    "src/pylife/mesh/gradient.py",
    "src/pylife/mesh/meshmapping.py",
    "src/pylife/mesh/hotspot.py",
    "src/pylife/mesh/surface.py",
    "src/pylife/mesh/meshsignal.py",
]

EPS = 2.220446049250313e-16
HEX = [(0, 0, 0), (1, 0, 0), (1, 1, 0), (0, 1, 0), (0, 0, 1), (1, 0, 1), (1, 1, 1), (0, 1, 1)]
# six tetrahedra around the diagonal 0-6 of a hexahedron (local hex numbering)
TETS = [(0, 1, 2, 6), (0, 2, 3, 6), (0, 3, 7, 6), (0, 7, 4, 6), (0, 4, 5, 6), (0, 5, 1, 6)]
# two wedges (6-node prisms: not a supported element of gradient_3D) that fill a hexahedron
WEDGES = [(0, 1, 2, 4, 5, 6), (0, 2, 3, 4, 6, 7)]
# mid-side nodes of the quadratic elements in the Abaqus (C3D20 / C3D10) = Ansys (SOLID186 / SOLID187) order
HEX_EDGES = [(0, 1), (1, 2), (2, 3), (3, 0), (4, 5), (5, 6), (6, 7), (7, 4), (0, 4), (1, 5), (2, 6), (3, 7)]
TET_EDGES = [(0, 1), (1, 2), (0, 2), (0, 3), (1, 3), (2, 3)]
NCORNER = {8: 8, 16: 8, 20: 8, 4: 4, 10: 4}
PLANAR = ("quad", "bar")

_loaded = []


def load():
    if not _loaded:
        import pylife.mesh  # noqa: F401
        import pylife.mesh.gradient  # noqa: F401
        import pylife.mesh.hotspot  # noqa: F401
        import pylife.mesh.surface  # noqa: F401
        import pylife.mesh.meshmapping  # noqa: F401
        _loaded.append(1)


def err(e):
    return "err:" + type(e).__name__


# ------------------------------------------------------------------ meshes
def id_map(spec, n):
    """list: internal 0..n-1 -> id."""
    kind = spec.get("kind", "one")
    r = random.Random(spec.get("seed", 0))
    if kind == "one":
        return [i + 1 for i in range(n)]
    if kind == "zero":
        return list(range(n))
    if kind == "offset":
        off = r.choice([1, 5, 100, 1000])
        return [i + 1 + off for i in range(n)]
    if kind == "gaps":
        out, cur = [], r.randint(1, 4)
        for _ in range(n):
            out.append(cur)
            cur += r.choice([1, 1, 2, 3, 10])
        if out == [i + 1 for i in range(n)]:
            out[-1] += 3
        return out
    if kind == "rev":
        return [n - i for i in range(n)]
    if kind == "perm":
        p = [i + 1 for i in range(n)]
        r.shuffle(p)
        return p
    if kind == "permgaps":
        out, cur = [], r.randint(0, 3)
        for _ in range(n):
            out.append(cur)
            cur += r.choice([1, 2, 7])
        r.shuffle(out)
        return out
    if kind == "neg":
        return [i - n // 2 for i in range(n)]
    raise ValueError(kind)


def is_one_to_n(ids):
    return sorted(ids) == list(range(1, len(ids) + 1))


def quat_rot(q):
    a, b, c, d = np.asarray(q, dtype=float) / np.linalg.norm(q)
    return np.array([[a * a + b * b - c * c - d * d, 2 * (b * c - a * d), 2 * (b * d + a * c)],
                     [2 * (b * c + a * d), a * a - b * b + c * c - d * d, 2 * (c * d - a * b)],
                     [2 * (b * d - a * c), 2 * (c * d + a * b), a * a - b * b - c * c + d * d]])


def plane_frame(mesh):
    """(o, a, b): a planar mesh has the points o + u*a + v*b, a bar mesh o + u*a (before `scale`)."""
    pl = mesh.get("plane") or {"kind": "z", "c": float(mesh.get("z0", 0.0))}
    k = pl["kind"]
    c = float(pl.get("c", 0.0))
    if k == "z":
        return (0.0, 0.0, c), (1.0, 0.0, 0.0), (0.0, 1.0, 0.0)
    if k == "x":
        return (c, 0.0, 0.0), (0.0, 1.0, 0.0), (0.0, 0.0, 1.0)
    if k == "y":
        return (0.0, c, 0.0), (0.0, 0.0, 1.0), (1.0, 0.0, 0.0)
    if k == "lattice":
        return tuple(map(float, pl["o"])), tuple(map(float, pl["a"])), tuple(map(float, pl["b"]))
    if k == "rot":
        R = quat_rot(pl["q"])
        return tuple(map(float, pl["o"])), tuple(R[:, 0]), tuple(R[:, 1])
    raise ValueError(k)


def tangent_basis(mesh):
    """Orthonormal basis (3 x k matrix) of the directions a planar (k = 2) / bar (k = 1) mesh extends in, after
    `scale`; None for 3-D meshes."""
    et = mesh.get("etype", "hex")
    if et not in PLANAR:
        return None
    o, a, b = plane_frame(mesh)
    s = np.array(mesh.get("scale", [1.0, 1.0, 1.0]), dtype=float)
    vec = [np.array(a) * s] + ([np.array(b) * s] if et == "quad" else [])
    q, _ = np.linalg.qr(np.array(vec).T)
    return q


def build(mesh):
    """-> (coords: list of (x,y,z) per internal node, elems: list of internal node lists, grid: list of (i,j,k) (None
    for mid-side nodes), rows: list of (internal node, internal elem) in frame order, nid, eid)."""
    nx, ny, nz = mesh["dims"]
    et = mesh.get("etype", "hex")
    amp = float(mesh.get("amp", 0.0))
    r = random.Random(mesh.get("pseed", 0))
    planar = et in PLANAR
    if planar:
        nz = 0
    if et == "bar":
        ny = 0
    dyadic = planar and (mesh.get("plane") or {}).get("kind") == "lattice"
    o, a, b = plane_frame(mesh) if planar else (None, None, None)
    nn = lambda i, j, k: i + (nx + 1) * (j + (ny + 1) * k)
    coords, grid = [], []
    for k in range(nz + 1):
        for j in range(ny + 1):
            for i in range(nx + 1):
                dx, dy, dz = (amp * r.uniform(-1, 1) for _ in range(3))
                if dyadic:      # every coordinate exactly representable: the rows of the least-squares systems are EXACTLY coplanar
                    dx, dy = round(dx * 64) / 64, round(dy * 64) / 64
                if planar:
                    u, v = i + dx, (j + dy if et == "quad" else 0.0)
                    coords.append(tuple(o[c] + u * a[c] + v * b[c] for c in range(3)))
                else:
                    coords.append((i + dx, j + dy, k + dz))
                grid.append((i, j, k))
    sx, sy, sz = mesh.get("scale", [1.0, 1.0, 1.0])
    ox, oy, oz = mesh.get("shift", [0.0, 0.0, 0.0])      # a mesh that is not anchored at the origin
    coords = [(x * sx + ox, y * sy + oy, z * sz + oz) for x, y, z in coords]
    elems = []
    if et == "bar":
        for a_ in range(nx):
            elems.append([nn(a_, 0, 0), nn(a_ + 1, 0, 0)])
    elif et == "quad":
        for b_ in range(ny):
            for a_ in range(nx):
                elems.append([nn(a_, b_, 0), nn(a_ + 1, b_, 0), nn(a_ + 1, b_ + 1, 0), nn(a_, b_ + 1, 0)])
    else:
        mr = random.Random(mesh.get("mseed", 0))
        ncell = nx * ny * nz
        odd_cell = mr.randrange(ncell) if et == "odd" else -1
        mids = {}

        def mid(p, q):
            key = (min(p, q), max(p, q))
            if key not in mids:
                mids[key] = len(coords)
                coords.append(tuple((coords[p][c] + coords[q][c]) / 2 for c in range(3)))
                grid.append(None)
            return mids[key]
        cell = 0
        for c in range(nz):
            for b_ in range(ny):
                for a_ in range(nx):
                    h = [nn(a_ + di, b_ + dj, c + dk) for di, dj, dk in HEX]
                    split = et in ("tet", "tet10") or (et == "mixed" and mr.random() < 0.5)
                    if cell == odd_cell:
                        for w in WEDGES:
                            elems.append([h[q] for q in w])
                    elif split:
                        for t in TETS:
                            conn = [h[q] for q in t]
                            if et == "tet10":
                                conn += [mid(conn[p], conn[q]) for p, q in TET_EDGES]
                            elems.append(conn)
                    else:
                        conn = list(h)
                        if et in ("hex20", "hex16"):
                            conn += [mid(h[p], h[q]) for p, q in (HEX_EDGES if et == "hex20" else HEX_EDGES[:8])]
                        elems.append(conn)
                    cell += 1
    blocks = [[(n, e) for n in conn] for e, conn in enumerate(elems)]
    ro = mesh.get("rows", "blocks")
    rr = random.Random(mesh.get("rseed", 0))
    if ro == "blocks":
        rows = [x for b in blocks for x in b]
    elif ro == "revblocks":
        rows = [x for b in reversed(blocks) for x in b]
    elif ro == "shufblocks":
        rr.shuffle(blocks)
        rows = [x for b in blocks for x in b]
    elif ro == "interleave":   # elements interleaved, each element's local node order kept
        pool = [e for e, b in enumerate(blocks) for _ in b]
        rr.shuffle(pool)
        ptr = [0] * len(blocks)
        rows = []
        for e in pool:
            rows.append(blocks[e][ptr[e]])
            ptr[e] += 1
    elif ro == "shuffle":      # any order of rows (changes the local node order: not for gradient_3D)
        rows = [x for b in blocks for x in b]
        rr.shuffle(rows)
    else:
        raise ValueError(ro)
    nid = id_map(mesh.get("nid", {}), len(coords))
    eid = id_map(mesh.get("eid", {}), len(elems))
    return coords, elems, grid, rows, nid, eid


HEXN = {0: (1, 3, 4), 1: (0, 2, 5), 2: (1, 3, 6), 3: (0, 2, 7), 4: (0, 5, 7), 5: (1, 4, 6), 6: (2, 5, 7), 7: (3, 4, 6)}


def corner_angles(built):
    """Per (element, local corner) the solid angle spanned by the three element edges at that corner (Van
    Oosterom-Strackee), or None when a corner is inverted against the unperturbed block."""
    coords, elems = built[0], built[1]
    P = np.asarray(coords, dtype=float)
    out = {}
    for ei, conn in enumerate(elems):
        for a, nb in HEXN.items():
            p = P[conn[a]]
            e = [P[conn[q]] - p for q in nb]
            ref = [np.subtract(HEX[q], HEX[a]) for q in nb]
            det = float(np.dot(e[0], np.cross(e[1], e[2])))
            if det * float(np.dot(ref[0], np.cross(ref[1], ref[2]))) <= 0:
                return None
            u = [v / np.linalg.norm(v) for v in e]
            den = 1 + u[0] @ u[1] + u[1] @ u[2] + u[2] @ u[0]
            out[(ei, a)] = 2 * math.atan2(abs(float(np.dot(u[0], np.cross(u[1], u[2])))), den)
    return out


def block_untangled(built, dims):
    """Mesh validity for the surface cases, independent of pyLife: every element corner keeps the orientation
    of the unperturbed block (positive corner Jacobian), the corner solid angles (Van Oosterom-Strackee, spanned
    by the three element edges) tile the full sphere at every interior node (sum = 4*pi) and stay clearly below
    it (<= 3*pi; a block has 2*pi, pi, pi/2 there) at every boundary node.  Strongly perturbed blocks can be tangled; those are not meshes."""
    coords, elems, grid = built[0], built[1], built[2]
    nx, ny, nz = dims
    ang = corner_angles(built)
    if ang is None:
        return False
    tot = np.zeros(len(coords))
    for (ei, a), w in ang.items():
        tot[elems[ei][a]] += w
    for n, (i, j, k) in enumerate(grid):
        boundary = i in (0, nx) or j in (0, ny) or k in (0, nz)
        if boundary and tot[n] > 3 * math.pi:
            return False
        if not boundary and abs(tot[n] - 4 * math.pi) > 1e-9:
            return False
    return True


DECOYS = ("S11", "T", "part", "w")


def frame(mesh, built, values):
    """The mesh frame.  `values`: list per ROW (frame order).  `mesh['cols']` (optional) makes the frame carry more than
    [x, y, z, value]: {'vkey': name of the value column, 'extra': decoy columns out of DECOYS ('w' is a second value
    column), 'shuffle': permute the column order, 'seed', 'vint': integer dtype for integral values}."""
    coords, elems, grid, rows, nid, eid = built
    cols = mesh.get("cols") or {}
    vkey = cols.get("vkey", "v")
    r = random.Random(cols.get("seed", 0))
    vals = [float(v) for v in values]
    if cols.get("vint") and all(v == v and v == int(v) for v in vals):
        vals = [int(v) for v in vals]
    data = {"x": [coords[n][0] for n, e in rows], "y": [coords[n][1] for n, e in rows],
            "z": [coords[n][2] for n, e in rows], vkey: vals}
    for name in cols.get("extra", []):
        if name == "S11":
            data[name] = [r.uniform(-50, 50) for _ in rows]
        elif name == "T":
            data[name] = [r.randint(0, 400) for _ in rows]
        elif name == "part":
            data[name] = [r.choice(["rim", "hub", "web"]) for _ in rows]
        elif name == "w":      # a second value column: another field on the same nodes
            gw = [r.uniform(-3, 3) for _ in range(3)]
            data[name] = [sum(gw[c] * coords[n][c] for c in range(3)) + 7.0 for n, e in rows]
    order = list(data)
    if cols.get("shuffle"):
        r.shuffle(order)
    df = pd.DataFrame({"node_id": [nid[n] for n, e in rows], "element_id": [eid[e] for n, e in rows],
                       **{k: data[k] for k in order}})
    lv = ["element_id", "node_id"] if mesh.get("levels", "en") == "en" else ["node_id", "element_id"]
    return df.set_index(lv)


def vkey_of(mesh):
    return (mesh.get("cols") or {}).get("vkey", "v")


def field_values(field, built):
    """Per-row values of a field spec."""
    coords, elems, grid, rows, nid, eid = built
    t = field["t"]
    if t == "lin":
        g, c = field["g"], field["c"]
        return [g[0] * coords[n][0] + g[1] * coords[n][1] + g[2] * coords[n][2] + c for n, e in rows]
    r = random.Random(field.get("seed", 0))
    if t == "nodal":      # arbitrary nodal values
        nv = [r.uniform(-10, 10) for _ in coords]
        return [nv[n] for n, e in rows]
    if t == "quad":       # smooth non-linear field
        a = [r.uniform(-1, 1) for _ in range(6)]
        f = lambda p: a[0] * p[0] * p[0] + a[1] * p[1] * p[2] + a[2] * p[0] * p[1] + a[3] * p[0] + a[4] * p[1] + a[5] * p[2]
        return [f(coords[n]) for n, e in rows]
    if t == "rowwise":    # element-nodal values: one node carries different values in different elements
        return [r.uniform(-10, 10) for _ in rows]
    if t == "ints":       # small integer nodal values (plateaus and ties), explicit; None = NaN (a node without a result)
        nv = [float("nan") if v is None else v for v in field["nv"]]
        return [nv[n] for n, e in rows]
    if t == "introws":
        return list(field["rv"])
    raise ValueError(t)


def mesh_line(built, values, with_coords=True):
    coords, elems, grid, rows, nid, eid = built
    toks = []
    for (n, e), v in zip(rows, values):
        toks.append(str(nid[n]))
        toks.append(str(eid[e]))
        if with_coords:
            toks.extend(f2h(c) for c in coords[n])
        toks.append(f2h(v))
    return " ".join(toks)


def show_grad(ids, arr):
    return " ".join(f"{int(i)}:" + ",".join(f2h(x) for x in row) for i, row in zip(ids, arr))


def parse_grad(line):
    out = []
    for tok in line.split():
        i, _, rest = tok.partition(":")
        if rest == "nan":
            out.append((int(i), None))
        else:
            out.append((int(i), [h2f(h) for h in rest.split(",")]))
    return out


def lsq_rank_profile(built):
    """Independent of pyLife: singular values of every node's least-squares system (rows x_j - x_i over the nodes that
    share an element).  -> (max s2/s1, min s2/s1, max s3/s1, min s3/s1) over the nodes."""
    coords, elems = built[0], built[1]
    P = np.asarray(coords, dtype=float)
    nb = [set() for _ in coords]
    for conn in elems:
        for n in conn:
            nb[n].update(conn)
    r2, r3 = [], []
    for n, s in enumerate(nb):
        s.discard(n)
        if not s:
            continue
        A = P[sorted(s)] - P[n]
        sv = np.linalg.svd(A, compute_uv=False)
        sv = list(sv) + [0.0] * (3 - len(sv))
        r2.append(sv[1] / sv[0])
        r3.append(sv[2] / sv[0])
    return max(r2), min(r2), max(r3), min(r3)


# ------------------------------------------------------------------ the property
class C19(Prop):
    ID = "C19"
    SOURCES = SOURCES
    LEAN_MODULES = ["Proofs.C19"]
    THEOREMS = []      # filled below
    PARTIAL = {}
    RULE = ("gradient_3D / gradient of f = g.x + c equals g at every node (per component k: 1e4 x eps x max|f| / s_k + 50 x eps x "
            "(s_max / s_min) x max|g|, s_k = the coordinate scale of axis k, not an element size) for every "
            "mesh, id map, row order, column layout and coordinate scale (uniform 1e-6..1e3, per axis up to 1e5 with anisotropy <= 1e4); "
            "excused: exactly (0,0,0) at a mid-side node of a 16/20/10-node element (open finding g3d-midside-zero); required: NaN at "
            "nodes first listed by an element with an unsupported node count; on planar / bar meshes the least-squares gradient "
            "is the tangential part of g (minimum norm); griddata mapping returns the field on the same points and the linear values "
            "on interior points; is_at_surface flags exactly the boundary nodes of an untangled hex block; hot-spot labels: >= 1 iff value >= "
            "frac*max, classes = connected components under shared node / shared element, numbered by descending peak")
    ASSUMPTIONS = [
        "np.linalg.inv is modelled by adjugate/determinant (a Jacobian counts as singular iff its determinant is exactly 0 - the code catches LinAlgError, which LAPACK raises on an exactly zero pivot; no degenerate element is generated - neither exactly collapsed ones nor float-singular Jacobians with a tiny non-zero determinant - so the det = 0 branch of the model is untested); agreement with LAPACK is measured with a per-component tolerance, not proved",
        "np.linalg.lstsq(rcond=None) is modelled as the minimum-norm least-squares solution with a RELATIVE rank decision on the eigenvalue ratios of A^T A (model cut-off 1e-12 on lambda3/lambda1-like ratios; LAPACK gelsd: singular values <= eps*max(n,3)*sigma1 count as zero). The two decisions agree when sigma3/sigma1 <= eps (rows coplanar up to rounding) or >= 1e-5 (generated 3-D meshes: anisotropy <= 1e4); in between (planar meshes whose coordinates carry rounding noise, e.g. a rotated plane far from the origin) the code's component NORMAL to the plane is amplified rounding noise - on such cases only the tangential part is compared / required, the count is recorded (lsq_planar_noisy_normal)",
        "scipy.interpolate.griddata: the Delaunay triangulation (Qhull) and the point location are external; the model interpolates on the triangulation that scipy.spatial.Delaunay returns for the same source points (first simplex whose barycentric weights are >= -1e-9; scipy's own tolerance is 100*eps): agreement is measured on whole meshes, the theorems assume a triangulation of non-degenerate simplices",
        "surface clause: quantified over untangled blocks only (every corner Jacobian positive, corner solid angles tile 4*pi at interior nodes and stay <= 3*pi at boundary nodes - checked by the generator with an independent formula); on tangled or deeply folded perturbed blocks the code's max-over-node-triples estimate of an element's solid angle over- or undershoots and nodes are mis-flagged",
        "surface_3D: the solid-angle arithmetic (arccos/arcsin, < 4*pi - 1e-5) is not modelled; the model flags nodes of a hexahedral block with fewer than 8 incident elements; boundary <=> flagged on perturbed blocks is decided by correspondence + oracle (test, not proof); the oracle also compares the code's per-corner solid angle with the Van Oosterom-Strackee value (1e-6): equality is required on unperturbed cubes with a uniform scale only, everywhere else (boxes with unequal edges, perturbed blocks) the value is a lower bound",
        "pandas semantics modelled by list functions and trusted: groupby (ascending keys, rows in frame order), groupby.first() / .mean(), sort_index(level=..., sort_remaining=False) being STABLE (first-element-wins depends on it), Index.duplicated(keep='first'), Index.get_indexer, Series.max / idxmax (first occurrence; NaN values are skipped: the model filters them out of the maximum, the hot-spot theorems are over a linear order where that filter is the identity - NaN entries are covered by correspondence + oracle only), boolean ^ of mis-aligned Series filling with False (hotspot.py), column selection by name",
        "state between calls: every accessor is used twice on ONE accessor object around an in-place change of the frame (must equal a new accessor on the frame as it is), called repeatedly with the same arguments (same result bit for bit), and on two meshes with the same ids one after the other; arguments must come back with the same index and the same values in every column handed in - informational columns added to the caller's frame, another column order or dtype with equal values change no later result, are outside the property and only counted (state_cosmetic_argument_changes)",
        "first-order elements: on 16/20-node hexahedra and 10-node tetrahedra the code (documented) uses the corner nodes only and returns 0 at the mid-side nodes; the model does the same; clause (a) fails there - open finding g3d-midside-zero",
        "the least-squares model addresses node rows through the id -> position map of the sorted node ids (behaviour after the repair, /repo commit 65c89f2)",
    ]
    # open finding map-hull-vertex-nan: observed 0-1 of ~40 same-point cases per quick run (+ the corpus witness), 2-3 of ~400
    # per thorough run; more than the rate below, more than 2 NaN in one case, or a NaN that does not show the mechanism is a new failure
    HULL_NAN_RATE = (3, 0.04)      # allowed hits = 3 + 0.04 x number of same-point cases of the run (observed: <= 1 of ~40, <= 3 of ~400)
    HULL_NAN_PER_CASE = 2

    def __init__(self):
        self.stats = {"kinds": {}, "etype": {}, "plane": {}, "nid": {}, "eid": {}, "rows": {}, "levels": {}, "field": {},
                      "cols": {}, "scale": {}, "max_rows": 0, "impl_errors": {}, "hot_labels_max": 0, "hot_thresholded_rows": 0,
                      "hot_zero_cases": 0, "map_nan_points": 0, "map_same_cases": 0, "map_hull_nan_cases": 0,
                      "map_hull_nan_nodes": 0, "map_mesh_points": 0, "surface_flagged": 0, "surface_interior": 0,
                      "surface_angles_checked": 0, "lsq_planar_cases": 0, "lsq_planar_normal_checked": 0,
                      "lsq_planar_noisy_normal": 0, "max_lsq_noisy_normal_over_g": 0.0, "g3d_midside_zero_nodes": 0, "g3d_unsupported_nan_nodes": 0,
                      "grad_zero_field": 0, "worst_oracle_ratio": {}, "worst_corr_ratio": {}}
        self.exhaustive = False
        self._cache = {}
        self._results = {}
        self._n_same = 0
        self._hull_hits = 0

    # ---------------------------------------------------------------- generation
    def _cols(self, rng, purpose):
        mode = rng.random()
        if mode < 0.3:
            return None                      # the bare frame [x, y, z, v]
        cols = {"vkey": rng.choice(["v", "v", "mises", "S_max", "fct"]), "seed": rng.randrange(10**6)}
        extra = [n for n in DECOYS if rng.random() < 0.45]
        if purpose == "surf":
            extra = [n for n in extra if n != "part"] if rng.random() < 0.5 else extra
        cols["extra"] = extra
        cols["shuffle"] = rng.random() < 0.6
        if purpose == "hot" and rng.random() < 0.5:
            cols["vint"] = True
        return cols

    def _scale(self, rng, purpose, tilted=False):
        """Coordinate scales: unit conversion (uniform 1e-6 … 1e3) and anisotropy (at most 4 decades; per-axis values 1e-6 … 1e5)."""
        mode = rng.random()
        if mode < 0.45:
            return None
        if purpose == "surf":
            # uniform scaling of any size, anisotropy up to 1e3 (the generator rejects blocks the perturbation tangles or crumples)
            if mode < 0.7:
                s = rng.choice([1e-6, 1e-3, 0.01, 0.5, 3.0, 100.0, 1e3])
                return [s, s, s]
            return [rng.choice([0.1, 0.5, 1.0, 3.0, 10.0, 100.0]) for _ in range(3)]
        if tilted:      # lattice planes stay exactly representable under powers of two
            s = rng.choice([2.0**-20, 2.0**-10, 0.5, 4.0, 1024.0])
            return [s, s, s]
        if mode < 0.75:
            s = rng.choice([1e-6, 1e-4, 1e-3, 0.01, 0.5, 3.0, 100.0, 1e3])
            return [s, s, s]
        base = rng.choice([1e-6, 1e-3, 0.01, 1.0, 10.0])
        return [base * rng.choice([1.0, 0.5, 3.0, 10.0, 100.0, 1e3, 1e4]) for _ in range(3)]

    def _plane(self, rng, purpose):
        if purpose != "lsq":
            return rng.choice([None, None, {"kind": "z", "c": rng.choice([0.0, 1.5, -2.0])}])
        k = rng.choice(["z", "z", "x", "y", "lattice", "lattice", "rot", "rot"])
        if k in ("z", "x", "y"):
            return {"kind": k, "c": rng.choice([0.0, 1.5, -2.0, 100.0])}
        if k == "lattice":
            while True:
                a = [rng.randint(-2, 2) for _ in range(3)]
                b = [rng.randint(-2, 2) for _ in range(3)]
                n = np.cross(a, b)
                if np.abs(n).sum() > 0 and (np.count_nonzero(n) > 1 or rng.random() < 0.2):
                    break
            return {"kind": k, "a": a, "b": b, "o": [float(rng.randint(-3, 3)) for _ in range(3)]}
        q = [rng.gauss(0, 1) for _ in range(4)]
        m = rng.choice([0.0, 0.0, 1.0, 5.0, 100.0])      # a shell part away from the origin: the rotated coordinates carry rounding noise
        return {"kind": k, "q": q, "o": [m * rng.uniform(-1, 1) for _ in range(3)]}

    def _mesh(self, rng, tier, purpose):
        big = tier == "thorough"
        top = 4 if (big or rng.random() < 0.15) else 3
        et = {"g3d": rng.choice(["hex", "hex", "hex", "tet", "tet", "hex20", "hex16", "tet10", "mixed", "mixed", "odd"]),
              "lsq": rng.choice(["hex", "hex", "tet", "quad", "quad", "quad", "hex20", "tet10", "mixed", "bar"]),
              "hot": rng.choice(["hex", "tet", "quad", "quad", "hex20", "mixed"]), "surf": "hex",
              "map": rng.choice(["hex", "quad"])}[purpose]
        if purpose == "surf":
            top = 4 if big else 3
            lo = 2 if rng.random() < 0.6 else 1      # all dims >= 2: the block has interior nodes
            dims = [rng.randint(lo, top) for _ in range(3)]
        elif et in ("tet", "tet10", "hex20", "hex16"):
            dims = [rng.randint(1, 2 if not big else 3) for _ in range(3)]
        elif et == "quad":
            dims = [rng.randint(1, top + 1), rng.randint(1, top + 1), 0]
        elif et == "bar":
            dims = [rng.randint(1, 6), 0, 0]
        else:
            dims = [rng.randint(1, top) for _ in range(3)]
        if purpose == "lsq" and et == "quad" and dims[0] * dims[1] == 1:
            dims[0] = 2
        if et in ("odd", "mixed") and dims[0] * dims[1] * dims[2] == 1:
            dims[rng.randrange(3)] = 2      # at least one supported element next to the unsupported one
        mesh = {"dims": dims, "etype": et, "amp": rng.choice([0.0, 0.05, 0.2, 0.3]), "pseed": rng.randrange(10**6)}
        if et in ("mixed", "odd"):
            mesh["mseed"] = rng.randrange(10**6)
        tilted = False
        if et in PLANAR:
            pl = self._plane(rng, purpose)
            if et == "bar":
                pl = rng.choice([{"kind": "z", "c": 0.0}, {"kind": "x", "c": 1.5},
                                 {"kind": "lattice", "a": [rng.randint(-2, 2), rng.randint(-2, 2), rng.randint(1, 2)], "b": [0, 0, 0],
                                  "o": [float(rng.randint(-3, 3)) for _ in range(3)]}])
            if pl:
                mesh["plane"] = pl
                tilted = pl["kind"] in ("lattice", "rot")
        sc = self._scale(rng, purpose, tilted)
        if sc:
            mesh["scale"] = sc
        cols = self._cols(rng, purpose)
        if cols:
            mesh["cols"] = cols
        kinds = ["one", "one", "zero", "offset", "gaps", "rev", "perm", "permgaps", "neg"]
        mesh["nid"] = {"kind": rng.choice(kinds), "seed": rng.randrange(10**6)}
        mesh["eid"] = {"kind": rng.choice(kinds), "seed": rng.randrange(10**6)}
        orders = ["blocks", "revblocks", "shufblocks", "interleave"]
        if purpose in ("lsq", "hot", "surf"):
            orders.append("shuffle")
        mesh["rows"] = rng.choice(orders)
        mesh["rseed"] = rng.randrange(10**6)
        mesh["levels"] = rng.choice(["en", "ne"])
        return mesh

    def _lin(self, rng, planar=False):
        mode = rng.random()
        if mode < 0.15:
            g = [0.0, 0.0, 0.0]
            g[rng.randrange(2 if planar else 3)] = rng.choice([1.0, -3.0, 2.5])
        elif mode < 0.22:
            g = [0.0, 0.0, 0.0]
        else:
            s = rng.choice([1.0, 1.0, 1e-3, 1e3])
            g = [s * rng.uniform(-5, 5) for _ in range(3)]
        return {"t": "lin", "g": g, "c": rng.choice([0.0, rng.uniform(-100, 100)])}

    def _hot_case(self, rng, tier):
        mesh = self._mesh(rng, tier, "hot")
        built = build(mesh)
        coords, elems, grid, rows, nid, eid = built
        mode = rng.choice(["plateau", "plateau", "peaks", "rowwise", "negative", "smooth", "nan"])
        if mode == "plateau":
            top = rng.choice([2, 3, 5])
            field = {"t": "ints", "nv": [rng.randint(0, top) for _ in coords]}
        elif mode == "peaks":
            nv = [rng.randint(0, 3) for _ in coords]
            for _ in range(rng.randint(1, 4)):
                nv[rng.randrange(len(nv))] = rng.choice([8, 9, 10, 10])
            field = {"t": "ints", "nv": nv}
        elif mode == "rowwise":
            field = {"t": "introws", "rv": [rng.randint(0, 6) for _ in rows]}
        elif mode == "negative":
            field = {"t": "ints", "nv": [rng.randint(-6, -1) for _ in coords]}
        elif mode == "nan":      # some nodes carry no value (NaN): pandas' max / idxmax skip them, they are never labelled
            nv = [rng.randint(0, 5) for _ in coords]
            for _ in range(rng.randint(1, max(1, len(nv) // 3))):
                nv[rng.randrange(len(nv))] = None
            if rng.random() < 0.3:
                nv[0] = None       # the first row
            field = {"t": "ints", "nv": nv}
        else:
            field = {"t": "quad", "seed": rng.randrange(10**6)}
        frac = rng.choice([0.9, 0.9, 0.5, 0.75, 1.0, 0.8, 0.3, 0.0, 1.1, rng.uniform(0.2, 1.0)])
        cap = None
        if rng.random() < 0.25:
            cap = rng.choice([10.0, 9.0, 3.0, 2.0, 0.0, -3.0, 100.0])
        return {"kind": "hot", "mesh": mesh, "field": field, "frac": frac, "cap": cap}

    def _map_case(self, rng, tier):
        mode = rng.choice(["same", "interior", "simplex3", "simplex2", "same", "interior", "simplex3", "simplex2", "same"])
        if mode in ("same", "interior"):
            mesh = self._mesh(rng, tier, "map")
            mesh["levels"] = "en"
            mesh["rows"] = rng.choice(["blocks", "shufblocks"])
            mesh.pop("plane", None)
            if mesh["amp"] == 0.0:
                mesh["amp"] = 0.05   # exactly co-spherical grids make Qhull's choice of simplices arbitrary (harmless for linear fields, but keep it generic)
            if "scale" in mesh and max(mesh["scale"]) / min(mesh["scale"]) > 1e3:
                s = mesh["scale"][0]
                mesh["scale"] = [s, s, s]      # Qhull works on the unscaled point cloud: needle-shaped clouds are another topic
            if rng.random() < 0.4:
                # the source mesh's lower corner is not the origin; in units of the element size (from an offset of ~1e7 element
                # sizes on, Qhull's lifting to the paraboloid loses the triangulation: same-point mapping returns wrong values)
                s0 = (mesh.get("scale") or [1.0])[0]
                mesh["shift"] = [12.0 * s0, -7.5 * s0, 3.25 * s0]
            dup = rng.random() < 0.4           # hand the full mesh frame (node rows repeated per element) to the mapper
            if mode == "same":
                field = rng.choice([{"t": "nodal", "seed": rng.randrange(10**6)}, {"t": "quad", "seed": rng.randrange(10**6)},
                                    self._lin(rng, mesh["etype"] == "quad")])
                # a planar mesh is mapped in 2-D (3-D Delaunay of coplanar points is a Qhull input error, not pyLife's)
                return {"kind": "map", "mode": "same", "mesh": mesh, "field": field, "drop_z": mesh["etype"] == "quad", "dup": dup,
                        "tindex": rng.choice(["node", "range", "shuffled"])}
            return {"kind": "map", "mode": "interior", "mesh": mesh, "field": self._lin(rng, mesh["etype"] == "quad"),
                    "drop_z": mesh["etype"] == "quad", "npts": rng.randint(1, 12), "tseed": rng.randrange(10**6), "dup": dup,
                    "tindex": rng.choice(["range", "shuffled"])}
        d = 3 if mode == "simplex3" else 2
        while True:
            verts = [[rng.choice([rng.uniform(-3, 3), float(rng.randint(-2, 2))]) for _ in range(d)] for _ in range(d + 1)]
            m = np.array([[*v, 1.0] for v in verts])
            if abs(np.linalg.det(m)) > 0.3:
                break
        vals = [rng.uniform(-10, 10) for _ in range(d + 1)]
        pts = []
        for _ in range(rng.randint(1, 8)):
            if rng.random() < 0.7:
                w = [rng.uniform(0.05, 1.0) for _ in range(d + 1)]
            else:
                w = [rng.uniform(0.05, 1.0) for _ in range(d + 1)]
                w[rng.randrange(d + 1)] = -rng.uniform(0.1, 1.0)
            s = sum(w)
            if abs(s) < 0.2:
                continue
            w = [x / s for x in w]
            if min(w) > 0 and min(w) < 0.02 or (min(w) < 0 and min(w) > -0.02):
                continue
            pts.append([sum(w[i] * verts[i][c] for i in range(d + 1)) for c in range(d)])
        if rng.random() < 0.3:
            pts.append(list(verts[rng.randrange(d + 1)]))   # a vertex itself
        if not pts:
            pts.append([sum(v[c] for v in verts) / (d + 1) for c in range(d)])
        return {"kind": "map", "mode": mode, "verts": verts, "vals": vals, "pts": pts}

    def _state_case(self, rng, tier):
        """State kept between calls / arguments modified: ONE accessor object used twice around an in-place change of the frame,
        argument integrity, repeated calls, and two meshes with the same ids through the same class one after the other."""
        acc = rng.choice(["g3d", "g3d", "lsq", "hot", "surf", "map", "map", "map"])
        purpose = acc
        mesh = self._mesh(rng, tier, purpose)
        et = mesh["etype"]
        if et in ("hex20", "hex16", "odd"):
            mesh["etype"] = "hex"
        elif et == "tet10":
            mesh["etype"] = "tet"
        elif et == "bar":
            mesh["etype"] = "quad"
        if mesh["etype"] == "quad":
            mesh["dims"] = [max(1, min(2, mesh["dims"][0])), max(1, min(2, mesh["dims"][1])), 0]
            if acc == "lsq" and mesh["dims"][0] * mesh["dims"][1] == 1:
                mesh["dims"][0] = 2
            pl = mesh.get("plane")
            if pl and pl["kind"] != "z":
                mesh["plane"] = {"kind": "z", "c": 1.5}
        elif mesh["etype"] in ("tet", "mixed") and acc == "g3d":
            mesh["dims"] = [2 if mesh["etype"] == "mixed" else 1, 1, 1]      # gradient_3D costs ~10 ms per element and call
        elif mesh["etype"] in ("tet",):
            mesh["dims"] = [rng.randint(1, 2), 1, 1]
        else:
            mesh["dims"] = [rng.randint(1, 2), rng.randint(1, 2) if acc != "g3d" else 1, rng.randint(1, 2) if acc == "surf" else 1]
        if mesh["etype"] == "mixed" and mesh["dims"][0] * mesh["dims"][1] * mesh["dims"][2] == 1:
            mesh["dims"][0] = 2
        sc = mesh.get("scale")
        if sc and (max(sc) / min(sc) > 100 or acc in ("surf", "map")):
            mesh["scale"] = [sc[0]] * 3
        if acc == "surf":
            mesh["amp"] = min(mesh["amp"], 0.05)
        sh = rng.choice([None, [12.0, -7.5, 3.25], [12.0, -7.5, 3.25], [1e4, -2e4, 5e3]])
        if sh:
            s0 = (mesh.get("scale") or [1.0])[0]
            mesh["shift"] = [v * s0 for v in sh]      # in units of the element size
        lin = self._lin(rng, mesh["etype"] == "quad")
        if not any(lin["g"]):
            lin["g"] = [1.0, -2.0, 0.5]
        if acc in ("g3d", "lsq"):
            base = {"kind": "grad", "op": acc, "mesh": mesh,
                    "field": lin if rng.random() < 0.7 else {"t": "nodal", "seed": rng.randrange(10**6)}}
            change = rng.choice(["coords", "coords", "values", "vkey2", "perm", "eids"])
        elif acc == "hot":
            n_nodes = len(build(mesh)[0])
            base = {"kind": "hot", "mesh": mesh, "field": {"t": "ints", "nv": [rng.randint(0, 5) for _ in range(n_nodes)]},
                    "frac": rng.choice([0.9, 0.5, 0.75, 1.0]), "cap": None}
            change = rng.choice(["values", "vkey2", "perm", "eids"])
        elif acc == "surf":
            if not block_untangled(build(mesh), mesh["dims"]):
                mesh["amp"] = 0.0
            base = {"kind": "surf", "mesh": mesh}
            change = rng.choice(["coords", "perm", "eids"])
        else:
            mesh["levels"], mesh["rows"] = "en", "blocks"
            if mesh["amp"] == 0.0:
                mesh["amp"] = 0.05
            base = {"kind": "map", "mode": "interior", "mesh": mesh, "field": lin, "drop_z": mesh["etype"] == "quad",
                    "npts": rng.randint(1, 6), "tseed": rng.randrange(10**6), "dup": rng.random() < 0.4,
                    "tindex": rng.choice(["range", "shuffled"])}
            change = rng.choice(["coords-src", "coords-src", "values-src", "coords-target", "vkey2"])
        return {"kind": "state", "acc": acc, "base": base, "change": change, "cseed": rng.randrange(10**6)}

    def _lsq_mesh_ok(self, mesh):
        """The least-squares model is only claimed where its rank decision and LAPACK's coincide (an argued bound, see
        ASSUMPTIONS, not a proof): 3-D meshes need sigma3/sigma1 >= 1e-5 at every node, planar ones sigma2/sigma1 >= 1e-5.
        A mesh that is rejected here only loses its `scale` (see generate); the unscaled mesh is not checked again."""
        prof = lsq_rank_profile(build(mesh))
        et = mesh["etype"]
        if et == "bar":
            return True
        if et == "quad":
            return prof[1] >= 1e-5
        return prof[3] >= 1e-5

    def generate(self, rng, tier):
        big = tier == "thorough"
        cases = []
        # exhaustive: is_at_surface on every unperturbed block up to 4x4x4 (quick: 3x3x3) - every grid node of every block
        top = 4 if big else 3
        for nx in range(1, top + 1):
            for ny in range(1, top + 1):
                for nz in range(1, top + 1):
                    cases.append({"kind": "surf", "mesh": {"dims": [nx, ny, nz], "etype": "hex", "amp": 0.0, "pseed": 0,
                                                           "nid": {"kind": "zero", "seed": 0}, "eid": {"kind": "zero", "seed": 0},
                                                           "rows": "blocks", "rseed": 0, "levels": "en"}, "grid_exhaustive": True})
        self.stats["exhaustive_scope_surface_blocks"] = (
            f"is_at_surface and the model's surfaceFlags on every unperturbed hexahedral block with 1..{top} cells per axis "
            f"({top**3} blocks, every grid node); the model's block rows (`blockRows`) are compared with the generator's")
        n = {"g3d": 90, "lsq": 100, "hot": 200, "map": 120, "surf": 30, "state": 24} if not big else \
            {"g3d": 900, "lsq": 1000, "hot": 2000, "map": 1200, "surf": 200, "state": 360}
        for _ in range(n["g3d"]):
            mesh = self._mesh(rng, tier, "g3d")
            field = self._lin(rng) if rng.random() < 0.65 else \
                {"t": rng.choice(["nodal", "quad", "rowwise"]), "seed": rng.randrange(10**6)}
            cases.append({"kind": "grad", "op": "g3d", "mesh": mesh, "field": field})
        for _ in range(n["lsq"]):
            mesh = self._mesh(rng, tier, "lsq")
            if not self._lsq_mesh_ok(mesh):
                self.stats["lsq_rank_rejected"] = self.stats.get("lsq_rank_rejected", 0) + 1
                mesh.pop("scale", None)
            planar = mesh["etype"] in PLANAR
            field = self._lin(rng) if (rng.random() < 0.65 or planar and rng.random() < 0.5) else \
                {"t": rng.choice(["nodal", "quad", "rowwise"]), "seed": rng.randrange(10**6)}
            cases.append({"kind": "grad", "op": "lsq", "mesh": mesh, "field": field})
        for _ in range(n["hot"]):
            cases.append(self._hot_case(rng, tier))
        for _ in range(n["map"]):
            cases.append(self._map_case(rng, tier))
        for _ in range(n["surf"]):
            mesh = self._mesh(rng, tier, "surf")
            while not block_untangled(build(mesh), mesh["dims"]):   # tangled by the perturbation: not a mesh
                self.stats["surf_tangled_rejected"] = self.stats.get("surf_tangled_rejected", 0) + 1
                mesh["amp"] = {0.3: 0.2, 0.2: 0.05}.get(mesh["amp"], 0.0)
                mesh["pseed"] = rng.randrange(10**6)
            cases.append({"kind": "surf", "mesh": mesh})
        for _ in range(n["state"]):
            cases.append(self._state_case(rng, tier))
        for c in cases:
            self._count(c)
        self._n_same = sum(1 for c in cases if c["kind"] == "map" and c.get("mode") == "same")
        self._hull_hits = 0
        return cases

    def _count(self, c):
        st = self.stats
        if c["kind"] == "state":
            k = f"state/{c['acc']}/{c['change']}"
            st["kinds"][k] = st["kinds"].get(k, 0) + 1
            sh = c["base"]["mesh"].get("shift")
            sk = "state shift " + ("none" if not sh else "%g" % max(abs(v) for v in sh))
            st["scale"][sk] = st["scale"].get(sk, 0) + 1
            return
        k = c["kind"] + ("/" + c.get("op", c.get("mode", "")) if c["kind"] in ("grad", "map") else "")
        st["kinds"][k] = st["kinds"].get(k, 0) + 1
        m = c.get("mesh")
        if m:
            for key, val in (("etype", m.get("etype")), ("nid", m["nid"]["kind"]), ("eid", m["eid"]["kind"]),
                             ("rows", m.get("rows")), ("levels", m.get("levels"))):
                st[key][val] = st[key].get(val, 0) + 1
            if m.get("etype") in PLANAR:
                pk = (m.get("plane") or {"kind": "z"})["kind"]
                st["plane"][pk] = st["plane"].get(pk, 0) + 1
            cols = m.get("cols")
            ck = "bare" if not cols else ("vkey=" + cols.get("vkey", "v") + " extra=" + str(len(cols.get("extra", [])))
                                          + (" shuffled" if cols.get("shuffle") else "") + (" int" if cols.get("vint") else ""))
            st["cols"][ck] = st["cols"].get(ck, 0) + 1
            sc = m.get("scale")
            sk = "unit" if not sc else ("uniform %g" % sc[0] if sc[0] == sc[1] == sc[2] else "aniso %.0e" % (max(sc) / min(sc)))
            st["scale"][sk] = st["scale"].get(sk, 0) + 1
        if "field" in c:
            t = c["field"]["t"]
            st["field"][t] = st["field"].get(t, 0) + 1

    # ---------------------------------------------------------------- evaluation of one case (cached)
    def _built(self, case):
        key = json.dumps(case, sort_keys=True)
        hit = self._cache.get(key)
        if hit is None:
            if len(self._cache) > 4:
                self._cache.clear()
            built = build(case["mesh"])
            values = field_values(case["field"], built) if "field" in case else [0.0] * len(built[3])
            hit = (built, values)
            self._cache[key] = hit
        return hit

    def _run_impl(self, case):
        """Runs the real code once per case; returns a dict that impl_lines and oracle both read."""
        key = json.dumps(case, sort_keys=True)
        if key in self._results:
            return self._results[key]
        load()
        res = {}
        with warnings.catch_warnings():
            warnings.simplefilter("ignore")
            try:
                res = self._run_impl_inner(case)
            except Exception as e:  # an exception of the code under test is an observable result
                if not core._involves_implementation(e):
                    raise
                res = {"error": err(e), "message": str(e)[:200]}
        self._results[key] = res
        return res

    def _map_frames(self, case):
        """-> (source frame, target frame, expected values, source points (array), source values, target points)"""
        built, values = self._built(case)
        coords, elems, grid, rows, nid, eid = built
        mesh = case["mesh"]
        vk = vkey_of(mesh)
        df = frame(mesh, built, values)
        nodes = df.groupby("node_id").first()
        crd = ["x", "y"] + ([] if case.get("drop_z") else ["z"])
        src = df if case.get("dup") else nodes
        if case.get("drop_z"):
            src = src.drop(columns=["z"])
            nodes = nodes.drop(columns=["z"])
        if case["mode"] == "same":
            target = nodes[[c for c in nodes.columns if c != vk]].copy()
            expect = nodes[vk].to_numpy(dtype=float).tolist()
        else:
            r = random.Random(case["tseed"])
            g, c0 = case["field"]["g"], case["field"]["c"]
            pts = []
            for _ in range(case["npts"]):
                conn = elems[r.randrange(len(elems))]
                w = [r.uniform(0.05, 1.0) for _ in conn]
                s = sum(w)
                pts.append([sum(wi / s * coords[n][c] for wi, n in zip(w, conn)) for c in range(3)])
            target = pd.DataFrame(pts, columns=["x", "y", "z"])[crd]
            target["load"] = 1.0       # a target mesh is a frame with more than the coordinates
            expect = [g[0] * p[0] + g[1] * p[1] + g[2] * p[2] + c0 for p in pts]
        ti = case.get("tindex", "node")
        if ti == "range":
            target = target.reset_index(drop=True)
        elif ti == "shuffled":
            ids = list(range(100, 100 + 3 * len(target), 3))
            random.Random(len(target)).shuffle(ids)
            target.index = pd.Index(ids, name="node_id")
        return src, target, expect, src[crd].to_numpy(dtype=float), src[vk].to_numpy(dtype=float), target[crd].to_numpy(dtype=float)

    def _run_impl_inner(self, case):
        kind = case["kind"]
        if kind == "grad":
            built, values = self._built(case)
            vk = vkey_of(case["mesh"])
            df = frame(case["mesh"], built, values)
            acc = df.gradient_3D if case["op"] == "g3d" else df.gradient
            gr = acc.gradient_of(vk)
            names = [f"d{vk}_dx", f"d{vk}_dy", f"d{vk}_dz"]
            if list(gr.columns) != names:
                return {"error": "err:ResultColumns", "message": str(list(gr.columns))}
            return {"ids": [int(i) for i in gr.index], "grad": gr[names].to_numpy(dtype=float).tolist()}
        if kind == "hot":
            built, values = self._built(case)
            df = frame(case["mesh"], built, values)
            kw = {} if case.get("cap") is None else {"artefact_threshold": case["cap"]}
            hs = df.hotspot.calc(vkey_of(case["mesh"]), case["frac"], **kw)
            if not hs.index.equals(df.index):
                return {"error": "err:IndexChanged"}
            return {"labels": [int(x) for x in hs.to_numpy()]}
        if kind == "surf":
            built, values = self._built(case)
            df = frame(case["mesh"], built, values)
            s = df.surface_3D.is_at_surface()
            per = {}
            ok = len(s) == len(df)
            for (e, n), flag in zip(s.index, s.to_numpy()):
                per.setdefault(int(n), set()).add(bool(flag))
            out = {"flags": {n: (sorted(v)[0] if len(v) == 1 else None) for n, v in per.items()}, "rows_ok": ok,
                   "names": list(s.index.names)}
            # the anchored mechanism: the per-corner solid angle E and its sum per node
            d3 = df.surface_3D._determine_is_at_surface()
            out["E"] = {(int(e), int(n)): float(v) for (e, n), v in zip(d3.index, d3["E"].to_numpy())}
            return out
        if kind == "map":
            mode = case["mode"]
            if mode in ("same", "interior"):
                src, target, expect, P, V, T = self._map_frames(case)
                out = target.meshmapper.process(src, vkey_of(case["mesh"]))
                same_index = out.index.equals(target.index)
                vk = vkey_of(case["mesh"])
                if list(out.columns) != [vk]:
                    return {"error": "err:ResultColumns", "message": str(list(out.columns))}
                return {"vals": out[vk].to_numpy(dtype=float).tolist(), "expect": expect, "same_index": same_index}
            d = 3 if mode == "simplex3" else 2
            crd = ["x", "y", "z"][:d]
            src = pd.DataFrame(case["verts"], columns=crd)
            src["v"] = case["vals"]
            target = pd.DataFrame(case["pts"], columns=crd)
            out = target.meshmapper.process(src, "v")
            return {"vals": out["v"].to_numpy(dtype=float).tolist()}
        raise ValueError(kind)

    # ---------------------------------------------------------------- correspondence
    def _triangulation(self, case):
        """The triangulation scipy.spatial.Delaunay (the class griddata uses) returns for the source points: flat list of
        vertex coordinates and values per simplex, for the model."""
        key = "tri:" + json.dumps(case, sort_keys=True)
        hit = self._cache.get(key)
        if hit is None:
            from scipy.spatial import Delaunay
            src, target, expect, P, V, T = self._map_frames(case)
            tri = Delaunay(P)
            hit = (tri, P, V, T)
            self._cache[key] = hit
        return hit

    def model_lines(self, case):
        kind = case["kind"]
        if kind == "state":
            return []          # oracle only: relations between calls of the real code
        if kind == "grad":
            built, values = self._built(case)
            return [f"m19 {case['op']} " + mesh_line(built, values)]
        if kind == "hot":
            built, values = self._built(case)
            cap = "-" if case.get("cap") is None else f2h(case["cap"])
            return [f"m19 hot {f2h(case['frac'])} {cap} " + mesh_line(built, values, with_coords=False)]
        if kind == "surf":
            built, values = self._built(case)
            coords, elems, grid, rows, nid, eid = built
            out = ["m19 surf " + " ".join(f"{nid[n]} {eid[e]}" for n, e in rows)]
            if case.get("grid_exhaustive"):
                out.append("m19 block " + " ".join(str(d) for d in case["mesh"]["dims"]))
            return out
        if kind == "map":
            if case["mode"] in ("same", "interior"):
                tri, P, V, T = self._triangulation(case)
                d = P.shape[1]
                toks = []
                for sx in tri.simplices:
                    toks.extend(f2h(x) for v in sx for x in P[v])
                    toks.extend(f2h(V[v]) for v in sx)
                toks.extend(f2h(x) for p in T for x in p)
                return [f"m19 map{d} {len(tri.simplices)} " + " ".join(toks)]
            flat = [x for v in case["verts"] for x in v] + list(case["vals"]) + [x for p in case["pts"] for x in p]
            return [("m19 bary3 " if case["mode"] == "simplex3" else "m19 bary2 ") + " ".join(f2h(x) for x in flat)]
        raise ValueError(kind)

    def impl_all(self, cases):
        """Runs the real code on all cases (sequentially: forked workers oversubscribe the BLAS threads and are slower) and books the statistics."""
        out = [self._impl_safe(c) for c in cases]
        for c in cases:
            res = self._results.get(json.dumps(c, sort_keys=True))
            if res and "error" in res:
                self.stats["impl_errors"][res["error"]] = self.stats["impl_errors"].get(res["error"], 0) + 1
            if "mesh" in c and c["kind"] != "map":
                self.stats["max_rows"] = max(self.stats["max_rows"], len(self._built(c)[0][3]))
        return out

    def impl_lines(self, case):
        kind = case["kind"]
        if kind == "state":
            return []
        res = self._run_impl(case)
        if "error" in res:
            return [res["error"]] * (2 if case.get("grid_exhaustive") else 1)
        if kind == "grad":
            return [show_grad(res["ids"], res["grad"])]
        if kind == "hot":
            return [" ".join(str(x) for x in res["labels"])]
        if kind == "surf":
            if not res["rows_ok"]:
                return ["err:rows"] * (2 if case.get("grid_exhaustive") else 1)
            out = [" ".join(f"{n}:{'?' if f is None else int(f)}" for n, f in sorted(res["flags"].items()))]
            if case.get("grid_exhaustive"):      # the generator's block rows (what pyLife was given), for `blockRows` of the model
                built, values = self._built(case)
                out.append(" ".join(f"{n} {e}" for n, e in built[3]))
            return out
        if kind == "map":
            return [" ".join("nan" if v != v else f2h(v) for v in res["vals"])]
        raise ValueError(kind)

    def _grad_tol(self, case, C, C2, gnorm):
        """Per-component tolerance of a gradient: C x eps x max|f| / (element size in that direction), plus - LAPACK's
        inverse / SVD are accurate norm-wise, not per component - C2 x eps x anisotropy x (largest gradient component)."""
        built, values = self._built(case)
        vmax = max([abs(v) for v in values] + [1e-300])
        sc = [abs(s) for s in case["mesh"].get("scale", [1.0, 1.0, 1.0])]
        if case["mesh"].get("etype") in PLANAR and (case["mesh"].get("plane") or {}).get("kind") in ("lattice", "rot"):
            sc = [min(sc)] * 3
        return [C * EPS * vmax / s + C2 * EPS * (max(sc) / min(sc)) * gnorm for s in sc]

    def _lsq_flat(self, case):
        """For planar / bar least-squares cases: (orthonormal tangent basis, normal part comparable?)."""
        mesh = case["mesh"]
        Q = tangent_basis(mesh)
        if Q is None:
            return None, True
        key = "flat:" + json.dumps(mesh, sort_keys=True)
        hit = self._cache.get(key)
        if hit is None:
            built, values = self._built(case)
            prof = lsq_rank_profile(built)
            # the rank decision is beyond doubt when the rows are coplanar (collinear) up to one rounding: LAPACK's cut-off is >= 3 eps
            hit = (prof[2] <= EPS) if mesh["etype"] == "quad" else (prof[0] <= EPS)
            self._cache[key] = hit
        return Q, hit

    def _note_ratio(self, table, case, ratio):
        k = case.get("op", case["kind"]) + "/" + case["mesh"].get("etype", "hex")
        if ratio > table.get(k, 0.0):
            table[k] = float("%.3g" % ratio)

    def compare(self, case, model_out, impl_out):
        kind = case["kind"]
        if kind in ("hot", "surf"):
            return super().compare(case, model_out, impl_out)
        if len(model_out) != len(impl_out):
            return f"length {len(model_out)} vs {len(impl_out)}"
        for a, b in zip(model_out, impl_out):
            if b.startswith("err:") or b.startswith("EXC") or a.startswith("bad"):
                return f"model={a[:120]!r} impl={b[:120]!r}"
            if kind == "grad":
                Q, normal_ok = self._lsq_flat(case) if case["op"] == "lsq" else (None, True)
                ga, gb = parse_grad(a), parse_grad(b)
                gmax = max([abs(t) for _, y in gb if y for t in y if t == t] + [0.0])
                tol = self._grad_tol(case, 2e5, 1e3, gmax)
                if [i for i, _ in ga] != [i for i, _ in gb]:
                    return f"node ids/order differ: model={[i for i, _ in ga][:12]} impl={[i for i, _ in gb][:12]}"
                worst = 0.0
                for (i, x), (_, y) in zip(ga, gb):
                    if x is None or y is None:
                        if not (x is None and (y is None or all(t != t for t in y))):
                            return f"node {i}: model={x} impl={y}"
                        continue
                    d = np.subtract(x, y)
                    if Q is not None and not normal_ok:
                        d = Q @ (Q.T @ d)          # tangential part only (see ASSUMPTIONS: rank decision under rounding noise)
                    for k in range(3):
                        lim = tol[k] + 1e-10 * max(abs(x[k]), abs(y[k]))
                        if not (abs(d[k]) <= lim):
                            return f"node {i}: model={x} impl={y} (component {k}: |diff| {abs(d[k]):.3g} > {lim:.3g})"
                        worst = max(worst, abs(d[k]) / lim)
                self._note_ratio(self.stats["worst_corr_ratio"], case, worst)
            else:
                ta, tb = a.split(), b.split()
                if len(ta) != len(tb):
                    return f"{len(ta)} vs {len(tb)} values"
                mesh_mode = case["mode"] in ("same", "interior")
                if mesh_mode:
                    tri, P, V, T = self._triangulation(case)
                    sc = max([1e-300] + [abs(v) for v in V])
                    tol = 1e-9 * sc
                else:
                    tol = 1e-8 * max(1.0, *[abs(v) for v in case["vals"]])
                for j, (u, v) in enumerate(zip(ta, tb)):
                    if (u == "nan") != (v == "nan"):
                        if mesh_mode and v == "nan" and self._hull_vertex_mechanism(case, j):
                            continue          # the open finding map-hull-vertex-nan (scipy's point location); the oracle reports it
                        return f"point {j}: model={u} impl={v}"
                    if u != "nan" and not (abs(h2f(u) - h2f(v)) <= tol):
                        return f"point {j}: model={h2f(u)!r} impl={h2f(v)!r} (tol {tol:.3g})"
        return None

    def _hull_vertex_mechanism(self, case, j):
        """The mechanism of the open finding map-hull-vertex-nan, evaluated independently of pyLife: target point j IS a source
        point, that point is a vertex of the convex hull of the source points, and scipy's point location finds a simplex for
        it as soon as the inside-test tolerance is 1e-9 instead of the default 100 eps (i.e. the default walk rejects it by
        rounding only)."""
        tri, P, V, T = self._triangulation(case)
        p = T[j]
        hits = np.nonzero((P == p).all(axis=1))[0]
        if len(hits) == 0:
            return False
        hull = set(int(i) for i in tri.convex_hull.ravel())
        if not any(int(i) in hull for i in hits):      # (of repeated source points Qhull keeps one as the vertex)
            return False
        return int(tri.find_simplex(p, tol=1e-9)) >= 0

    # ---------------------------------------------------------------- oracle (independent of the Lean model)
    def oracle(self, case):
        kind = case["kind"]
        if kind == "state":
            load()
            with warnings.catch_warnings():
                warnings.simplefilter("ignore")
                return self._oracle_state(case)
        res = self._run_impl(case)
        if kind == "grad":
            return self._oracle_grad(case, res)
        if kind == "hot":
            return self._oracle_hot(case, res)
        if kind == "surf":
            return self._oracle_surf(case, res)
        if kind == "map":
            return self._oracle_map(case, res)
        return None

    # ---- state between calls, argument integrity ----
    @staticmethod
    def _snap(frames):
        return [f.copy(deep=True) for f in frames]

    @staticmethod
    def _identical(a, b):
        """Bit for bit: type, index (values, names), column order / name, dtypes, values (NaN = NaN by bit pattern)."""
        if type(a) is not type(b):
            return f"type {type(a).__name__} vs {type(b).__name__}"
        if not a.index.equals(b.index) or list(a.index.names) != list(b.index.names):
            return "index differs"
        cols_a = [a] if isinstance(a, pd.Series) else [a[c] for c in a.columns]
        cols_b = [b] if isinstance(b, pd.Series) else [b[c] for c in b.columns]
        if isinstance(a, pd.Series):
            if a.name != b.name:
                return f"name {a.name!r} vs {b.name!r}"
        elif list(a.columns) != list(b.columns):
            return f"columns {list(a.columns)} vs {list(b.columns)}"
        for x, y in zip(cols_a, cols_b):
            if x.dtype != y.dtype:
                return f"dtype of {x.name!r}: {x.dtype} vs {y.dtype}"
            if x.dtype.kind in "fiub":
                if x.to_numpy().tobytes() != y.to_numpy().tobytes():
                    i = int(np.nonzero(~((x.to_numpy() == y.to_numpy()) | ((x.to_numpy() != x.to_numpy()) & (y.to_numpy() != y.to_numpy()))))[0][:1].tolist()[0]) \
                        if len(x) else 0
                    return f"column {x.name!r} row {i}: {x.iloc[i]!r} vs {y.iloc[i]!r}"
            elif list(x) != list(y):
                return f"column {x.name!r} differs"
        return None

    def _fresh_std(self, sub):
        """Run a standard case on the real code WITHOUT the result cache and judge it by its definitional oracle."""
        res = self._run_impl_inner(sub)
        k = sub["kind"]
        o = {"grad": self._oracle_grad, "hot": self._oracle_hot, "surf": self._oracle_surf, "map": self._oracle_map}[k](sub, res)
        return res, o

    def _oracle_state(self, case):
        base, acc, change = case["base"], case["acc"], case["change"]
        mesh = base["mesh"]
        vk = vkey_of(mesh)
        r = random.Random(case.get("cseed", 0))
        built, values = self._built(base)
        if acc == "map":
            src, target, expect, P, V, T = self._map_frames(base)
            src, target = src.copy(deep=True), target.copy(deep=True)
            main, frames, names = target, [target, src], ["the target mesh", "from_df"]
        else:
            main = frame(mesh, built, values)
            frames, names = [main], ["the mesh frame"]
        mk = {"g3d": lambda f: f.gradient_3D, "lsq": lambda f: f.gradient, "hot": lambda f: f.hotspot,
              "surf": lambda f: f.surface_3D, "map": lambda f: f.meshmapper}[acc]
        kw = {} if base.get("cap") is None else {"artefact_threshold": base["cap"]}

        def call(a, key):
            if acc in ("g3d", "lsq"):
                return a.gradient_of(key)
            if acc == "hot":
                return a.calc(key, base["frac"], **kw)
            if acc == "surf":
                return a.is_at_surface()
            return a.process(src, key)

        what = {"g3d": "gradient_3D.gradient_of", "lsq": "gradient.gradient_of", "hot": "hotspot.calc",
                "surf": "surface_3D.is_at_surface", "map": "meshmapper.process"}[acc]

        def guarded(a, key, label):
            """One call; every frame handed in must come back unchanged."""
            before = self._snap(frames)
            out = call(a, key)
            for f, b, nm in zip(frames, before, names):
                # a failure: what a later call with the same objects computes from is altered - the index (labels, order, level
                # names) or the values of a column the caller handed in.  Added informational columns, another column order or
                # dtype with the same values change no later result: outside the property, only counted.
                if not f.index.equals(b.index) or list(f.index.names) != list(b.index.names):
                    return out, (f"{what} ({label}) modified the index of {nm} it was given (mesh shift {mesh.get('shift')})", "state-argument-modified")
                for c in b.columns:
                    if c not in f.columns:
                        return out, (f"{what} ({label}) removed column {c!r} from {nm} it was given", "state-argument-modified")
                    d = self._identical(f[c].astype(b[c].dtype) if f[c].dtype != b[c].dtype else f[c], b[c])
                    if d is not None:
                        return out, (f"{what} ({label}) modified {nm} it was given: {d} (mesh shift {mesh.get('shift')})", "state-argument-modified")
                if list(f.columns) != list(b.columns) or list(f.dtypes) != list(b.dtypes):
                    self.stats["state_cosmetic_argument_changes"] = self.stats.get("state_cosmetic_argument_changes", 0) + 1
            return out, None

        # (2) argument integrity, repeated call with the same arguments: same object and a new one
        a = mk(main)
        r1, bad = guarded(a, vk, "first call")
        if bad:
            return bad
        self.stats["state_calls"] = self.stats.get("state_calls", 0) + 1
        for label, obj in (("second call, same accessor object", a), ("second call, new accessor object", mk(main))):
            r1b, bad = guarded(obj, vk, label)
            if bad:
                return bad
            d = self._identical(r1b, r1)
            if d is not None:
                return (f"{what}: {label} with the same arguments gives another result: {d} (mesh shift {mesh.get('shift')})", "state-repeat-differs")
        # (1) the SAME accessor object after an in-place change of the frame = a new accessor on the frame as it is now
        key2 = vk
        n = len(main)
        tgt = main if acc != "map" or change == "coords-target" else src
        if change in ("coords", "coords-src", "coords-target"):
            crd = [c for c in ("x", "y", "z") if c in tgt.columns]
            X = tgt[crd].to_numpy(dtype=float)
            if change == "coords-target":
                X = X + 0.01 * (X.max(axis=0) - X.min(axis=0) + 1.0)
            else:
                A = np.array([[1.5, 0.25, 0.0], [0.0, 0.75, 0.125], [0.25, 0.0, 2.0]])[:len(crd), :len(crd)]
                X = X @ A.T + np.array([3.0, -1.0, 0.5])[:len(crd)]
            for j, c in enumerate(crd):
                tgt[c] = X[:, j]
        elif change in ("values", "values-src"):
            tgt[vk] = [float(r.randint(-5, 9)) for _ in range(len(tgt))] if acc == "hot" else \
                (tgt[vk].to_numpy(dtype=float) * -0.5 + np.array([r.uniform(-1, 1) for _ in range(len(tgt))]))
        elif change == "vkey2":
            key2 = "second_value"
            tgt2 = src if acc == "map" else main
            tgt2[key2] = [float(r.randint(0, 6)) for _ in range(len(tgt2))] if acc == "hot" else \
                [r.uniform(-10, 10) for _ in range(len(tgt2))]
        elif change == "perm":          # the rows element block by element block in reverse order, in place
            eids = list(dict.fromkeys(main.index.get_level_values("element_id")))
            pos = {e: [i for i, x in enumerate(main.index.get_level_values("element_id")) if x == e] for e in eids}
            order = [i for e in reversed(eids) for i in pos[e]]
            vals = {c: main[c].to_numpy()[order] for c in main.columns}
            main.index = main.index[order]
            for c, v in vals.items():
                main[c] = v
        elif change == "eids":          # element ids renumbered in place (descending instead of ascending)
            ev = main.index.get_level_values("element_id")
            nv = main.index.get_level_values("node_id")
            new_e = (int(ev.max()) + int(ev.min())) - ev
            arrays = {"element_id": new_e, "node_id": nv}
            main.index = pd.MultiIndex.from_arrays([arrays[nm] for nm in main.index.names], names=main.index.names)
        r2, bad = guarded(a, key2, f"same accessor object after the in-place change '{change}'")
        if bad:
            return bad
        fresh = call(type(a)(main), key2)
        d = self._identical(r2, fresh)
        if d is not None:
            return (f"{what} called again on the SAME accessor object after the frame was changed in place ({change}) differs from a new "
                    f"accessor on the frame as it is now: {d} - state kept between calls", "state-kept-accessor-stale")
        # (3) two meshes with the SAME ids but another geometry / field through the same class, A, B, A: each must be what its
        # definition says (the existing clauses), and A must come out the same both times
        other = json.loads(json.dumps(base))
        om = other["mesh"]
        om["pseed"] = mesh.get("pseed", 0) + 1
        s0 = (mesh.get("scale") or [1.0, 1.0, 1.0])
        om["scale"] = [2.0 * s0[0], 2.0 * s0[1], 2.0 * s0[2]] if (acc in ("surf", "map") or mesh.get("etype") == "quad") else \
            [2.0 * s0[0], 0.5 * s0[1], 3.0 * s0[2]]
        om["shift"] = [7.0 * s0[0], 0.0, -2.5 * s0[2]] if not mesh.get("shift") else [0.0, 0.0, 0.0]
        if acc == "surf":
            if not block_untangled(build(om), om["dims"]):
                om["amp"] = 0.0
        f = other.get("field")
        if f:
            if f["t"] == "lin":
                f["g"], f["c"] = [-1.5, 0.75, 2.0], 3.0
            elif f["t"] == "ints":
                f["nv"] = list(reversed(f["nv"]))
            else:
                f["seed"] = f.get("seed", 0) + 1
        first = None
        for label, sub in (("A", base), ("B", other), ("A again", base)):
            res, o = self._fresh_std(sub)
            if o is not None and o[1] not in ("g3d-midside-zero", "map-hull-vertex-nan"):
                return (f"two meshes with the same ids through {what} one after the other (A, B, A), at {label}: {o[0]}", "state-sequence-" + o[1])
            if label == "A":
                first = repr(res)
            elif label == "A again" and repr(res) != first:
                return (f"{what}: mesh A gives another result after mesh B (same ids, other geometry) went through the same class", "state-sequence-differs")
        return None

    def _oracle_grad(self, case, res):
        built, values = self._built(case)
        coords, elems, grid, rows, nid, eid = built
        op = case["op"]
        mesh = case["mesh"]
        et = mesh.get("etype", "hex")
        klass = f"{op}-gradient-inexact"
        what = "gradient (least squares)" if op == "lsq" else "gradient_3D"
        if "error" in res:
            return (f"{what} raises {res['error'][4:]} ({res.get('message', '')}) on a valid mesh ({et}, node ids "
                    f"{sorted(nid)[:6]}…, columns {mesh.get('cols')})", f"{op}-raises")
        if sorted(res["ids"]) != sorted(nid):
            return (f"{what}: result rows {len(res['ids'])} do not cover the {len(nid)} nodes once", f"{op}-node-set")
        if case["field"]["t"] != "lin":
            return None
        g = np.array(case["field"]["g"], dtype=float)
        if not g.any():
            self.stats["grad_zero_field"] += 1
        tol = self._grad_tol(case, 1e4, 50.0, float(np.abs(g).max()))
        Q, normal_ok = (None, True)
        expect = g
        if op == "lsq" and et in PLANAR:
            # planar / bar mesh: the derivative normal to the mesh is not determined by the data; the minimum-norm
            # least-squares solution (what np.linalg.lstsq returns) is the tangential part of g
            Q, normal_ok = self._lsq_flat(case)
            expect = Q @ (Q.T @ g)
            self.stats["lsq_planar_cases"] += 1
            self.stats["lsq_planar_normal_checked" if normal_ok else "lsq_planar_noisy_normal"] += 1
        # per node: which local position does the node have in the element whose gradient the code reports (the first
        # element in ascending element id that lists the node)?
        role = {}
        if op == "g3d":
            for e in sorted(range(len(elems)), key=lambda e: eid[e]):
                conn = elems[e]
                nc = NCORNER.get(len(conn))
                for a, n in enumerate(conn):
                    role.setdefault(n, "unsupported" if nc is None else ("corner" if a < nc else "midside"))
        by_id = {i: n for n, i in enumerate(nid)}
        worst = (0.0, None)
        for i, row in zip(res["ids"], res["grad"]):
            n = by_id[i]
            rl = role.get(n, "corner")
            if rl == "unsupported":
                # not an element of the property's quantifier (hexahedral / tetrahedral): the code warns and leaves NaN
                if not all(x != x for x in row):
                    return (f"{what}: node {i} belongs first to a 6-node element (unsupported), result {row} instead of NaN", f"{op}-unsupported")
                self.stats["g3d_unsupported_nan_nodes"] += 1
                continue
            if rl == "midside" and g.any() and all(x == 0.0 for x in row):
                # OPEN FINDING g3d-midside-zero: exactly (0, 0, 0) at a mid-side node of a quadratic element (documented:
                # "The result contains zeros for all following nodes"); any other value there is judged like a corner
                self.stats["g3d_midside_zero_nodes"] += 1
                d = (f"{what} of the linear field g={g.tolist()} is exactly (0, 0, 0) at node {i}, a mid-side node of the {len(elems[0])}-node "
                     f"element mesh ({et}); the corner nodes carry g")
                if not self.known("g3d-midside-zero", d):
                    return (d, "g3d-midside-zero")
                continue
            dv = np.subtract(row, expect)
            if Q is not None and not normal_ok:
                dn = dv - Q @ (Q.T @ dv)
                rel = float(np.abs(dn).max() / max(np.abs(g).max(), 1e-300)) if g.any() else 0.0
                if rel == rel and rel > self.stats["max_lsq_noisy_normal_over_g"]:
                    self.stats["max_lsq_noisy_normal_over_g"] = float("%.3g" % rel)
                dv = Q @ (Q.T @ dv)
            for k in range(3):
                dk = abs(dv[k]) if dv[k] == dv[k] else float("inf")
                if dk / tol[k] > worst[0]:
                    worst = (dk / tol[k], (i, row, k, dk))
        if worst[0] > 1.0:
            i, row, k, dk = worst[1]
            return (f"{what} of the linear field g={g.tolist()} (expected {np.asarray(expect).tolist()}) is {row} at node {i} "
                    f"(component {k}: error {dk:.3g} > {tol[k]:.3g}; mesh {et}, scale {mesh.get('scale')})", klass)
        self._note_ratio(self.stats["worst_oracle_ratio"], case, worst[0])
        return None

    def _oracle_hot(self, case, res):
        built, values = self._built(case)
        coords, elems, grid, rows, nid, eid = built
        if "error" in res:
            return (f"hotspot.calc raises {res['error']} ({res.get('message', '')})", "hot-raises")
        labels = res["labels"]
        cap = case.get("cap")
        cand = [v for v in values if v == v and (cap is None or v < cap)]      # NaN entries never enter the maximum
        n = len(rows)
        if not cand:
            if any(labels):
                return ("labels although no value enters the maximum", "hot-threshold")
            self.stats["hot_zero_cases"] += 1
            return None
        thr = case["frac"] * max(cand)
        above = [v >= thr for v in values]
        for i in range(n):
            if (labels[i] >= 1) != above[i]:
                return (f"row {i} (node {nid[rows[i][0]]}, element {eid[rows[i][1]]}) value {values[i]} threshold {thr}: label {labels[i]}",
                        "hot-threshold")
        # connected components of the thresholded rows under shared node / shared element
        parent = list(range(n))

        def find(a):
            while parent[a] != a:
                parent[a] = parent[parent[a]]
                a = parent[a]
            return a
        first_n, first_e = {}, {}
        for i, (nd, el) in enumerate(rows):
            if not above[i]:
                continue
            for d, k in ((first_n, nd), (first_e, el)):
                if k in d:
                    parent[find(i)] = find(d[k])
                else:
                    d[k] = i
        comp_of_label, label_of_comp = {}, {}
        for i in range(n):
            if not above[i]:
                continue
            c, l = find(i), labels[i]
            if comp_of_label.setdefault(l, c) != c:
                return (f"label {l} spans two connected components (rows {i} and {comp_of_label[l]})", "hot-components")
            if label_of_comp.setdefault(c, l) != l:
                return (f"one connected component carries labels {label_of_comp[c]} and {l} (row {i})", "hot-components")
        used = sorted(comp_of_label)
        if used != list(range(1, len(used) + 1)):
            return (f"labels are not 1..k: {used[:10]}", "hot-numbering")
        peak = {l: max(values[i] for i in range(n) if labels[i] == l) for l in used}
        for l in used[1:]:
            if peak[l] > peak[l - 1]:
                return (f"peak of hot spot {l} ({peak[l]}) exceeds the peak of hot spot {l-1} ({peak[l-1]})", "hot-numbering")
        self.stats["hot_labels_max"] = max(self.stats["hot_labels_max"], len(used))
        self.stats["hot_thresholded_rows"] += sum(above)
        if not used:
            self.stats["hot_zero_cases"] += 1
        return None

    def _oracle_surf(self, case, res):
        built, values = self._built(case)
        coords, elems, grid, rows, nid, eid = built
        if "error" in res:
            return (f"is_at_surface raises {res['error']} ({res.get('message', '')})", "surface-raises")
        if not res["rows_ok"]:
            return ("is_at_surface does not return one row per mesh row", "surface-rows")
        nx, ny, nz = case["mesh"]["dims"]
        for n, (i, j, k) in enumerate(grid):
            boundary = i in (0, nx) or j in (0, ny) or k in (0, nz)
            f = res["flags"].get(nid[n])
            if f is None or f != boundary:
                return (f"node {nid[n]} at grid position {(i, j, k)} of the {nx}x{ny}x{nz} block: boundary={boundary}, flagged={f}", "surface-flag")
            self.stats["surface_flagged" if boundary else "surface_interior"] += 1
        # the mechanism: the solid angle an element subtends at one of its corners.  The code takes the maximum over all
        # triples of the element's other nodes; that contains the triple of the three element edges (Van Oosterom-Strackee
        # value computed independently): equal on cubes, a lower bound elsewhere.  (On boxes with unequal edges the code's
        # value for triples that are coplanar with the corner is NOT their solid angle 0 but up to pi - the fall-back
        # formulas cosB / cosC of _solid_angle divide by sin b sin c instead of sin a sin c / sin a sin b - so the maximum
        # overshoots pi/2 there; the flags only suffer at aspect ratios >= 1e8.  Observation, not part of clause (d).)
        ang = corner_angles(built)
        sc = case["mesh"].get("scale", [1.0, 1.0, 1.0])
        box = float(case["mesh"].get("amp", 0.0)) == 0.0 and sc[0] == sc[1] == sc[2]
        for (ei, a), w in ang.items():
            E = res["E"].get((eid[ei], nid[elems[ei][a]]))
            if E is None or not (E >= w - 1e-6) or (box and not (abs(E - w) <= 1e-6)):
                return (f"solid angle of element {eid[ei]} at its node {nid[elems[ei][a]]}: code {E!r}, edge-triple value {w!r}"
                        f" ({'cube: must be equal' if box else 'must not be smaller'}, 1e-6)", "surface-solid-angle")
            self.stats["surface_angles_checked"] += 1
        return None

    def _oracle_map(self, case, res):
        if "error" in res:
            return (f"meshmapper.process raises {res['error']} ({res.get('message', '')})", "map-raises")
        mode = case["mode"]
        if mode in ("same", "interior"):
            if not res["same_index"]:
                return ("result index differs from the target index", "map-index")
            if len(res["vals"]) != len(res["expect"]):
                return (f"{len(res['vals'])} mapped values for {len(res['expect'])} target points", "map-index")
            sc = max(1.0, *[abs(e) for e in res["expect"]])
            tol = 1e-9 * sc
            if mode == "same":
                self.stats["map_same_cases"] += 1
            self.stats["map_mesh_points"] += len(res["vals"])
            nan_known = []
            out = None
            for j, (v, e) in enumerate(zip(res["vals"], res["expect"])):
                if mode == "same" and v != v and self._hull_vertex_mechanism(case, j):
                    # OPEN FINDING map-hull-vertex-nan, identified by its mechanism (see _hull_vertex_mechanism), not by the symptom
                    nan_known.append(j)
                    continue
                if not (abs(v - e) <= tol) and out is None:
                    out = (f"mapping ({mode}): point {j} gets {v!r}, expected {e!r}", f"map-{mode}")
            if nan_known:
                self.stats["map_hull_nan_cases"] += 1
                self.stats["map_hull_nan_nodes"] += len(nan_known)
                self._hull_hits += 1
                allowed = self.HULL_NAN_RATE[0] + self.HULL_NAN_RATE[1] * self._n_same
                d = (f"mapping onto the same points: hull vertex/vertices {nan_known} (source points themselves; found by "
                     f"find_simplex with tol=1e-9) get NaN instead of their value")
                if len(nan_known) > self.HULL_NAN_PER_CASE:
                    return (d + f" - {len(nan_known)} in one case, more than the open finding covers", "map-same")
                if self._hull_hits > allowed:
                    return (d + f" - hit {self._hull_hits} of this run, more than the recorded rate allows ({allowed:.1f})", "map-same-nan-rate")
                if not self.known("map-hull-vertex-nan", d) and out is None:
                    out = (d, "map-hull-vertex-nan")
            return out
        # one simplex: independent barycentric evaluation with numpy
        d = 3 if mode == "simplex3" else 2
        V = np.array(case["verts"], dtype=float)
        T = (V[1:] - V[0]).T
        for j, (p, v) in enumerate(zip(case["pts"], res["vals"])):
            lam = np.linalg.solve(T, np.array(p) - V[0])
            w = np.concatenate([[1 - lam.sum()], lam])
            if w.min() < -1e-9:
                self.stats["map_nan_points"] += 1
                if v == v:
                    return (f"point {p} outside the simplex gets {v!r} instead of NaN", "map-simplex")
                continue
            if w.min() < 1e-9:
                continue
            e = float(w @ np.array(case["vals"]))
            if not (abs(v - e) <= 1e-9 * max(1.0, abs(e))):
                return (f"point {p} inside the simplex gets {v!r}, barycentric value {e!r}", "map-simplex")
        return None

    # ---------------------------------------------------------------- bookkeeping
    def nontrivial(self, case, model_out):
        kind = case["kind"]
        if kind == "state":
            return None
        if kind == "surf":
            return json.dumps(case, sort_keys=True) if max(case["mesh"]["dims"]) >= 2 else None
        if kind == "hot":
            labs = set(model_out[0].split()) if model_out else set()
            return json.dumps(case, sort_keys=True) if len(labs) >= 2 else None
        if kind == "grad":
            f = case["field"]
            if f["t"] == "lin" and not any(f["g"]):
                return None      # the zero field: every operator returns 0
        return json.dumps(case, sort_keys=True)

    def shrink(self, case, still_fails):
        cur = json.loads(json.dumps(case))
        changed = True
        while changed:
            changed = False
            for cand in self._simpler(cur):
                try:
                    if still_fails(cand):
                        cur, changed = cand, True
                        break
                except Exception:
                    continue
        return cur

    def _simpler(self, case):
        c = lambda: json.loads(json.dumps(case))
        if case["kind"] == "state":
            for sub in self._simpler(case["base"]):
                x = c()
                x["base"] = sub
                yield x
            return
        m = case.get("mesh")
        if m:
            for ax in range(3):
                if m["dims"][ax] > 1:
                    x = c()
                    x["mesh"]["dims"][ax] -= 1
                    if "nv" in x.get("field", {}) or "rv" in x.get("field", {}):
                        continue
                    if m.get("etype") in ("odd", "mixed") and np.prod(x["mesh"]["dims"]) < 2:
                        continue
                    yield x
            if m.get("amp", 0.0) != 0.0 and not (case["kind"] == "map"):
                x = c()
                x["mesh"]["amp"] = 0.0
                yield x
            if "cols" in m:
                x = c()
                del x["mesh"]["cols"]
                yield x
                if m["cols"].get("shuffle"):
                    x = c()
                    x["mesh"]["cols"]["shuffle"] = False
                    yield x
                for name in m["cols"].get("extra", []):
                    x = c()
                    x["mesh"]["cols"]["extra"] = [n for n in m["cols"]["extra"] if n != name]
                    yield x
            if "scale" in m:
                x = c()
                del x["mesh"]["scale"]
                yield x
                if len(set(m["scale"])) > 1:
                    x = c()
                    x["mesh"]["scale"] = [min(m["scale"])] * 3
                    yield x
            if m.get("rows") != "blocks":
                x = c()
                x["mesh"]["rows"] = "blocks"
                yield x
            if m.get("levels") != "en":
                x = c()
                x["mesh"]["levels"] = "en"
                yield x
            rank = {"one": 0, "zero": 1, "offset": 2}     # only towards simpler id maps: the shrink terminates
            for key in ("eid", "nid"):
                for k2 in ("one", "zero", "offset"):
                    if rank[k2] < rank.get(m[key]["kind"], 3):
                        x = c()
                        x["mesh"][key] = {"kind": k2, "seed": 0}
                        yield x
        f = case.get("field")
        if f and f["t"] == "lin":
            if f["c"] != 0.0:
                x = c()
                x["field"]["c"] = 0.0
                yield x
            if any(abs(v) not in (0.0, 1.0) for v in f["g"]):
                x = c()
                x["field"]["g"] = [0.0 if v == 0 else 1.0 for v in f["g"]]
                yield x
        if case["kind"] == "map" and case.get("dup"):
            x = c()
            x["dup"] = False
            yield x
        if case["kind"] == "map" and "pts" in case and len(case["pts"]) > 1:
            for i in range(len(case["pts"])):
                x = c()
                del x["pts"][i]
                yield x


_T = "PylifeVerif.C19."
C19.THEOREMS = [_T + n for n in [
    # (a) gradient_3D
    "hex_gradient_exact",
    "hex_gradient_exact_all",
    "simplex_gradient_exact",
    "hexJ_corner_det",
    "gradient3D_exact_partial",
    "gradient3D_nodes",
    "gradient3D_exact_quadratic",
    "gradient3D_midside_zero_witness",
    # (a) gradient (least squares)
    "lstsq_exact",
    "lstsq_full_rank",
    "lstsq_exact_full_rank",
    "lstsq_min_norm_planar",
    "lstsq_exact_planar",
    "lstsq_min_norm_line",
    "gradientLsq_exact",
    "gradientLsq_exact_full_rank",
    "gradientLsq_exact_planar",
    "gradientLsq_nodes",
    # (b), (c) mapping
    "barycentric_reproduces_linear",
    "barycentric_reproduces_linear_2d",
    "barycentric_at_vertex",
    "barycentric_at_vertex_2d",
    "mapMesh_linear_interior",
    "mapMesh_same_point",
    "mapMesh_outside_iff",
    "mapMesh_linear_interior_2d",
    "mapMesh_same_point_2d",
    "mapMesh_outside_iff_2d",
    # (e), (f), (g) hot spots
    "hotspot_label_pos_iff",
    "hotspot_class_closed",
    "hotspot_class_connected",
    "hotspot_labels_descending_peak",
    "hotspot_labels_contiguous",
    # (d) surface
    "surface_block_interior_iff_partial",
    "surfaceFlags_block_partial",
    "surfaceFlags_block_covers",
]]
C19.PARTIAL = {
    _T + "gradient3D_exact_partial":
        "clause (a) for gradient_3D is proved for meshes of 8-node hexahedra and 4-node tetrahedra; on 16/20-node hexahedra and 10-node "
        "tetrahedra the full statement is false for the unchanged code (mid-side nodes get exactly 0: gradient3D_midside_zero_witness, "
        "gradient3D_exact_quadratic states what holds) - open finding g3d-midside-zero",
    _T + "surface_block_interior_iff_partial":
        "only the combinatorial statement (a grid node of an nx x ny x nz hexahedral block is interior iff 8 elements meet there) is proved; "
        "that the solid-angle sum of surface.py is < 4*pi - 1e-5 exactly at the nodes with fewer than 8 elements is floating-point geometry, decided by correspondence + oracle (test)",
    _T + "surfaceFlags_block_partial":
        "about the model function the driver runs (surfaceFlags on the (node_id, element_id) rows of a block, any injective numbering, any row order); "
        "the same gap to the code's solid-angle arithmetic as surface_block_interior_iff_partial",
}
