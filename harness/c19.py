"""C19: mesh operators are exact on linear fields and respect mesh connectivity.

Correspondence: the Lean model `Model/Mesh.lean` (driver ops `m19 …`) against `df.gradient`, `df.gradient_3D`,
`df.hotspot`, `df.meshmapper` (one simplex), `df.surface_3D` (hexahedral blocks) on generated meshes:
structured hex blocks up to 4x4x4, tetrahedra from split hexes, planar quad meshes, perturbed node positions,
node / element id maps (1..N, 0-based, offset, gaps, reversed, permuted, negative), row orders (element blocks,
reversed / shuffled blocks, interleaved elements, fully shuffled rows) and both index level orders.
Oracle: the property's own relations on the real code, independent of the Lean model."""
import json
import math
import os
import random
import warnings

# The mesh code calls LAPACK thousands of times on tiny matrices; multi-threaded OpenBLAS spins on a busy
# machine (a 125-point griddata call took 5 s instead of 0.02 s under load).  One thread, set before numpy loads.
for _v in ("OPENBLAS_NUM_THREADS", "OMP_NUM_THREADS", "MKL_NUM_THREADS"):
    os.environ.setdefault(_v, "1")

import numpy as np
import pandas as pd

from . import core
from .core import Prop, f2h, h2f

SOURCES = [
    "src/pylife/mesh/gradient.py",
    "src/pylife/mesh/meshmapping.py",
    "src/pylife/mesh/hotspot.py",
    "src/pylife/mesh/surface.py",
    "src/pylife/mesh/meshsignal.py",
]

HEX = [(0, 0, 0), (1, 0, 0), (1, 1, 0), (0, 1, 0), (0, 0, 1), (1, 0, 1), (1, 1, 1), (0, 1, 1)]
# six tetrahedra around the diagonal 0-6 of a hexahedron (local hex numbering)
TETS = [(0, 1, 2, 6), (0, 2, 3, 6), (0, 3, 7, 6), (0, 7, 4, 6), (0, 4, 5, 6), (0, 5, 1, 6)]

_loaded = []


def load():
    if not _loaded:
        import pylife.mesh  # noqa: F401
        import pylife.mesh.gradient  # noqa: F401
        import pylife.mesh.hotspot  # noqa: F401
        import pylife.mesh.surface  # noqa: F401
        import pylife.mesh.meshmapping  # noqa: F401
        _loaded.append(1)


def err(e):
    return "err:" + type(e).__name__


# ------------------------------------------------------------------ meshes
def id_map(spec, n):
    """list: internal 0..n-1 -> id."""
    kind = spec.get("kind", "one")
    r = random.Random(spec.get("seed", 0))
    if kind == "one":
        return [i + 1 for i in range(n)]
    if kind == "zero":
        return list(range(n))
    if kind == "offset":
        off = r.choice([1, 5, 100, 1000])
        return [i + 1 + off for i in range(n)]
    if kind == "gaps":
        out, cur = [], r.randint(1, 4)
        for _ in range(n):
            out.append(cur)
            cur += r.choice([1, 1, 2, 3, 10])
        if out == [i + 1 for i in range(n)]:
            out[-1] += 3
        return out
    if kind == "rev":
        return [n - i for i in range(n)]
    if kind == "perm":
        p = [i + 1 for i in range(n)]
        r.shuffle(p)
        return p
    if kind == "permgaps":
        out, cur = [], r.randint(0, 3)
        for _ in range(n):
            out.append(cur)
            cur += r.choice([1, 2, 7])
        r.shuffle(out)
        return out
    if kind == "neg":
        return [i - n // 2 for i in range(n)]
    raise ValueError(kind)


def is_one_to_n(ids):
    return sorted(ids) == list(range(1, len(ids) + 1))


def build(mesh):
    """-> (coords: list of (x,y,z) per internal node, elems: list of internal node lists, grid: list of (i,j,k),
    rows: list of (internal node, internal elem) in frame order, nid, eid)."""
    nx, ny, nz = mesh["dims"]
    et = mesh.get("etype", "hex")
    amp = float(mesh.get("amp", 0.0))
    r = random.Random(mesh.get("pseed", 0))
    planar = et == "quad"
    if planar:
        nz = 0
    nn = lambda i, j, k: i + (nx + 1) * (j + (ny + 1) * k)
    coords, grid = [], []
    for k in range(nz + 1):
        for j in range(ny + 1):
            for i in range(nx + 1):
                dx, dy, dz = (amp * r.uniform(-1, 1) for _ in range(3))
                coords.append((i + dx, j + dy, (k + dz) if not planar else float(mesh.get("z0", 0.0))))
                grid.append((i, j, k))
    sx, sy, sz = mesh.get("scale", [1.0, 1.0, 1.0])
    coords = [(x * sx, y * sy, z * sz) for x, y, z in coords]
    elems = []
    if planar:
        for b in range(ny):
            for a in range(nx):
                elems.append([nn(a, b, 0), nn(a + 1, b, 0), nn(a + 1, b + 1, 0), nn(a, b + 1, 0)])
    else:
        for c in range(nz):
            for b in range(ny):
                for a in range(nx):
                    h = [nn(a + di, b + dj, c + dk) for di, dj, dk in HEX]
                    if et == "hex":
                        elems.append(h)
                    else:
                        for t in TETS:
                            elems.append([h[q] for q in t])
    blocks = [[(n, e) for n in conn] for e, conn in enumerate(elems)]
    ro = mesh.get("rows", "blocks")
    rr = random.Random(mesh.get("rseed", 0))
    if ro == "blocks":
        rows = [x for b in blocks for x in b]
    elif ro == "revblocks":
        rows = [x for b in reversed(blocks) for x in b]
    elif ro == "shufblocks":
        rr.shuffle(blocks)
        rows = [x for b in blocks for x in b]
    elif ro == "interleave":   # elements interleaved, each element's local node order kept
        pool = [e for e, b in enumerate(blocks) for _ in b]
        rr.shuffle(pool)
        ptr = [0] * len(blocks)
        rows = []
        for e in pool:
            rows.append(blocks[e][ptr[e]])
            ptr[e] += 1
    elif ro == "shuffle":      # any order of rows (changes the local node order: not for gradient_3D)
        rows = [x for b in blocks for x in b]
        rr.shuffle(rows)
    else:
        raise ValueError(ro)
    nid = id_map(mesh.get("nid", {}), len(coords))
    eid = id_map(mesh.get("eid", {}), len(elems))
    return coords, elems, grid, rows, nid, eid


HEXN = {0: (1, 3, 4), 1: (0, 2, 5), 2: (1, 3, 6), 3: (0, 2, 7), 4: (0, 5, 7), 5: (1, 4, 6), 6: (2, 5, 7), 7: (3, 4, 6)}


def block_untangled(built, dims):
    """Mesh validity for the surface cases, independent of pyLife: every element corner keeps the orientation
    of the unperturbed block (positive corner Jacobian), the corner solid angles (Van Oosterom-Strackee, spanned
    by the three element edges) tile the full sphere at every interior node (sum = 4*pi) and stay clearly below
    it (<= 3*pi; a block has 2*pi, pi, pi/2 there) at every boundary node.  Strongly perturbed blocks can be tangled; those are not meshes."""
    coords, elems, grid = built[0], built[1], built[2]
    nx, ny, nz = dims
    P = np.asarray(coords, dtype=float)
    tot = np.zeros(len(coords))
    for conn in elems:
        for a, nb in HEXN.items():
            p = P[conn[a]]
            e = [P[conn[q]] - p for q in nb]
            ref = [np.subtract(HEX[q], HEX[a]) for q in nb]
            det = float(np.dot(e[0], np.cross(e[1], e[2])))
            if det * float(np.dot(ref[0], np.cross(ref[1], ref[2]))) <= 0:
                return False
            u = [v / np.linalg.norm(v) for v in e]
            den = 1 + u[0] @ u[1] + u[1] @ u[2] + u[2] @ u[0]
            tot[conn[a]] += 2 * math.atan2(abs(float(np.dot(u[0], np.cross(u[1], u[2])))), den)
    for n, (i, j, k) in enumerate(grid):
        boundary = i in (0, nx) or j in (0, ny) or k in (0, nz)
        if boundary and tot[n] > 3 * math.pi:
            return False
        if not boundary and abs(tot[n] - 4 * math.pi) > 1e-9:
            return False
    return True


def frame(mesh, built, values):
    """values: list per ROW (frame order)."""
    coords, elems, grid, rows, nid, eid = built
    df = pd.DataFrame({
        "node_id": [nid[n] for n, e in rows], "element_id": [eid[e] for n, e in rows],
        "x": [coords[n][0] for n, e in rows], "y": [coords[n][1] for n, e in rows],
        "z": [coords[n][2] for n, e in rows], "v": [float(v) for v in values]})
    lv = ["element_id", "node_id"] if mesh.get("levels", "en") == "en" else ["node_id", "element_id"]
    return df.set_index(lv)


def field_values(field, built):
    """Per-row values of a field spec."""
    coords, elems, grid, rows, nid, eid = built
    t = field["t"]
    if t == "lin":
        g, c = field["g"], field["c"]
        return [g[0] * coords[n][0] + g[1] * coords[n][1] + g[2] * coords[n][2] + c for n, e in rows]
    r = random.Random(field.get("seed", 0))
    if t == "nodal":      # arbitrary nodal values
        nv = [r.uniform(-10, 10) for _ in coords]
        return [nv[n] for n, e in rows]
    if t == "quad":       # smooth non-linear field
        a = [r.uniform(-1, 1) for _ in range(6)]
        f = lambda p: a[0] * p[0] * p[0] + a[1] * p[1] * p[2] + a[2] * p[0] * p[1] + a[3] * p[0] + a[4] * p[1] + a[5] * p[2]
        return [f(coords[n]) for n, e in rows]
    if t == "rowwise":    # element-nodal values: one node carries different values in different elements
        return [r.uniform(-10, 10) for _ in rows]
    if t == "ints":       # small integer nodal values (plateaus and ties), explicit
        nv = field["nv"]
        return [nv[n] for n, e in rows]
    if t == "introws":
        return list(field["rv"])
    raise ValueError(t)


def mesh_line(built, values, with_coords=True):
    coords, elems, grid, rows, nid, eid = built
    toks = []
    for (n, e), v in zip(rows, values):
        toks.append(str(nid[n]))
        toks.append(str(eid[e]))
        if with_coords:
            toks.extend(f2h(c) for c in coords[n])
        toks.append(f2h(v))
    return " ".join(toks)


def show_grad(ids, arr):
    return " ".join(f"{int(i)}:" + ",".join(f2h(x) for x in row) for i, row in zip(ids, arr))


def parse_grad(line):
    out = []
    for tok in line.split():
        i, _, rest = tok.partition(":")
        if rest == "nan":
            out.append((int(i), None))
        else:
            out.append((int(i), [h2f(h) for h in rest.split(",")]))
    return out


# ------------------------------------------------------------------ the property
class C19(Prop):
    ID = "C19"
    SOURCES = SOURCES
    LEAN_MODULES = ["Proofs.C19"]
    THEOREMS = []      # filled below
    PARTIAL = {}
    RULE = ("gradient_3D / gradient of f = g.x + c equals g at every node (tolerance 1e-9 x scale) for every mesh, id map and "
            "row order; griddata mapping returns the field on the same points and the linear values on interior points; "
            "is_at_surface flags exactly the boundary nodes of a hex block; hot-spot labels: >= 1 iff value >= frac*max, "
            "classes = connected components under shared node / shared element, numbered by descending peak")
    ASSUMPTIONS = [
        "np.linalg.inv is modelled by adjugate/determinant, np.linalg.lstsq by the normal equations (minimum-norm 2x2 system for planar meshes); agreement with LAPACK is measured with tolerance 1e-8 x scale, not proved",
        "scipy.interpolate.griddata: only the interpolation inside ONE simplex (barycentric) is modelled; the Delaunay triangulation (Qhull) is external - mapping on whole meshes is decided by the oracle only",
        "surface clause: quantified over untangled blocks only (every corner Jacobian positive, corner solid angles tile 4*pi at interior nodes and stay <= 3*pi at boundary nodes - checked by the generator with an independent formula); on tangled or deeply folded perturbed blocks the code's max-over-node-triples estimate of an element's solid angle over- or undershoots and nodes are mis-flagged",
        "surface_3D: the solid-angle arithmetic (arccos/arcsin, < 4*pi - 1e-5) is not modelled; the model flags nodes of a hexahedral block with fewer than 8 incident elements; boundary <=> flagged on perturbed blocks is decided by correspondence + oracle (test, not proof)",
        "pandas groupby / sort_index(stable) / index alignment semantics are modelled by list functions",
        "the least-squares model addresses node rows through the id -> position map of the sorted node ids (behaviour after the repair tools/fixes/C19-gradient-node-positions.diff)",
    ]

    def __init__(self):
        self.stats = {"kinds": {}, "etype": {}, "nid": {}, "eid": {}, "rows": {}, "levels": {}, "field": {},
                      "max_rows": 0, "impl_errors": {}, "hot_labels_max": 0, "hot_thresholded_rows": 0,
                      "hot_zero_cases": 0, "map_nan_points": 0, "surface_flagged": 0, "surface_interior": 0}
        self.exhaustive = False
        self._cache = {}
        self._results = {}

    # ---------------------------------------------------------------- generation
    def _mesh(self, rng, tier, purpose):
        big = tier == "thorough"
        top = 4 if (big or rng.random() < 0.15) else 3
        et = {"g3d": rng.choice(["hex", "hex", "tet"]), "lsq": rng.choice(["hex", "hex", "tet", "quad"]),
              "hot": rng.choice(["hex", "tet", "quad", "quad"]), "surf": "hex", "map": rng.choice(["hex", "quad"])}[purpose]
        if purpose == "surf":
            top = 4 if big else 3
            lo = 2 if rng.random() < 0.6 else 1      # all dims >= 2: the block has interior nodes
            dims = [rng.randint(lo, top) for _ in range(3)]
        elif et == "tet":
            dims = [rng.randint(1, 2 if not big else 3) for _ in range(3)]
        elif et == "quad":
            dims = [rng.randint(1, top + 1), rng.randint(1, top + 1), 0]
        else:
            dims = [rng.randint(1, top) for _ in range(3)]
        if purpose == "lsq" and et == "quad" and dims[0] * dims[1] == 1:
            dims[0] = 2
        mesh = {"dims": dims, "etype": et, "amp": rng.choice([0.0, 0.05, 0.2, 0.3]), "pseed": rng.randrange(10**6)}
        if rng.random() < 0.3:
            # surface detection works with absolute solid angles (threshold 4*pi - 1e-5): needle-shaped, crumpled
            # blocks are outside what the property can mean there, so only mild anisotropy for `surf`
            mesh["scale"] = [rng.choice([0.5, 1.0, 3.0] if purpose == "surf" else [0.01, 0.5, 1.0, 3.0, 100.0]) for _ in range(3)]
        if et == "quad" and rng.random() < 0.5:
            mesh["z0"] = rng.choice([0.0, 1.5, -2.0])
        kinds = ["one", "one", "zero", "offset", "gaps", "rev", "perm", "permgaps", "neg"]
        mesh["nid"] = {"kind": rng.choice(kinds), "seed": rng.randrange(10**6)}
        mesh["eid"] = {"kind": rng.choice(kinds), "seed": rng.randrange(10**6)}
        orders = ["blocks", "revblocks", "shufblocks", "interleave"]
        if purpose in ("lsq", "hot", "surf"):
            orders.append("shuffle")
        mesh["rows"] = rng.choice(orders)
        mesh["rseed"] = rng.randrange(10**6)
        mesh["levels"] = rng.choice(["en", "ne"])
        return mesh

    def _lin(self, rng, planar=False):
        mode = rng.random()
        if mode < 0.15:
            g = [0.0, 0.0, 0.0]
            g[rng.randrange(2 if planar else 3)] = rng.choice([1.0, -3.0, 2.5])
        elif mode < 0.25:
            g = [0.0, 0.0, 0.0]
        else:
            s = rng.choice([1.0, 1.0, 1e-3, 1e3])
            g = [s * rng.uniform(-5, 5) for _ in range(3)]
        return {"t": "lin", "g": g, "c": rng.choice([0.0, rng.uniform(-100, 100)])}

    def _hot_case(self, rng, tier):
        mesh = self._mesh(rng, tier, "hot")
        built = build(mesh)
        coords, elems, grid, rows, nid, eid = built
        mode = rng.choice(["plateau", "plateau", "peaks", "rowwise", "negative", "smooth"])
        if mode == "plateau":
            top = rng.choice([2, 3, 5])
            field = {"t": "ints", "nv": [rng.randint(0, top) for _ in coords]}
        elif mode == "peaks":
            nv = [rng.randint(0, 3) for _ in coords]
            for _ in range(rng.randint(1, 4)):
                nv[rng.randrange(len(nv))] = rng.choice([8, 9, 10, 10])
            field = {"t": "ints", "nv": nv}
        elif mode == "rowwise":
            field = {"t": "introws", "rv": [rng.randint(0, 6) for _ in rows]}
        elif mode == "negative":
            field = {"t": "ints", "nv": [rng.randint(-6, -1) for _ in coords]}
        else:
            field = {"t": "quad", "seed": rng.randrange(10**6)}
        frac = rng.choice([0.9, 0.9, 0.5, 0.75, 1.0, 0.8, 0.3, 0.0, 1.1, rng.uniform(0.2, 1.0)])
        cap = None
        if rng.random() < 0.25:
            cap = rng.choice([10.0, 9.0, 3.0, 2.0, 0.0, -3.0, 100.0])
        return {"kind": "hot", "mesh": mesh, "field": field, "frac": frac, "cap": cap}

    def _map_case(self, rng, tier):
        mode = rng.choice(["same", "interior", "simplex3", "simplex2", "simplex3", "simplex2"])
        if mode in ("same", "interior"):
            mesh = self._mesh(rng, tier, "map")
            mesh["rows"], mesh["levels"] = "blocks", "en"
            if mesh["amp"] == 0.0:
                mesh["amp"] = 0.05   # exactly co-spherical grids make Qhull's choice of simplices arbitrary (harmless for linear fields, but keep it generic)
            if mode == "same":
                field = rng.choice([{"t": "nodal", "seed": rng.randrange(10**6)}, {"t": "quad", "seed": rng.randrange(10**6)},
                                    self._lin(rng, mesh["etype"] == "quad")])
                # a planar mesh is mapped in 2-D (3-D Delaunay of coplanar points is a Qhull input error, not pyLife's)
                return {"kind": "map", "mode": "same", "mesh": mesh, "field": field, "drop_z": mesh["etype"] == "quad"}
            return {"kind": "map", "mode": "interior", "mesh": mesh, "field": self._lin(rng, mesh["etype"] == "quad"),
                    "drop_z": mesh["etype"] == "quad", "npts": rng.randint(1, 12), "tseed": rng.randrange(10**6)}
        d = 3 if mode == "simplex3" else 2
        while True:
            verts = [[rng.choice([rng.uniform(-3, 3), float(rng.randint(-2, 2))]) for _ in range(d)] for _ in range(d + 1)]
            m = np.array([[*v, 1.0] for v in verts])
            if abs(np.linalg.det(m)) > 0.3:
                break
        vals = [rng.uniform(-10, 10) for _ in range(d + 1)]
        pts = []
        for _ in range(rng.randint(1, 8)):
            if rng.random() < 0.7:
                w = [rng.uniform(0.05, 1.0) for _ in range(d + 1)]
            else:
                w = [rng.uniform(0.05, 1.0) for _ in range(d + 1)]
                w[rng.randrange(d + 1)] = -rng.uniform(0.1, 1.0)
            s = sum(w)
            if abs(s) < 0.2:
                continue
            w = [x / s for x in w]
            if min(w) > 0 and min(w) < 0.02 or (min(w) < 0 and min(w) > -0.02):
                continue
            pts.append([sum(w[i] * verts[i][c] for i in range(d + 1)) for c in range(d)])
        if rng.random() < 0.3:
            pts.append(list(verts[rng.randrange(d + 1)]))   # a vertex itself
        if not pts:
            pts.append([sum(v[c] for v in verts) / (d + 1) for c in range(d)])
        return {"kind": "map", "mode": mode, "verts": verts, "vals": vals, "pts": pts}

    def generate(self, rng, tier):
        big = tier == "thorough"
        cases = []
        # exhaustive: incident-element count of every grid node of every block up to 4x4x4 (quick: 3x3x3)
        top = 4 if big else 3
        for nx in range(1, top + 1):
            for ny in range(1, top + 1):
                for nz in range(1, top + 1):
                    cases.append({"kind": "inc", "dims": [nx, ny, nz]})
        self.exhaustive = True
        n = {"g3d": 70, "lsq": 70, "hot": 200, "map": 120, "surf": 30} if not big else \
            {"g3d": 700, "lsq": 700, "hot": 2000, "map": 1200, "surf": 200}
        for _ in range(n["g3d"]):
            mesh = self._mesh(rng, tier, "g3d")
            field = self._lin(rng) if rng.random() < 0.6 else \
                {"t": rng.choice(["nodal", "quad", "rowwise"]), "seed": rng.randrange(10**6)}
            cases.append({"kind": "grad", "op": "g3d", "mesh": mesh, "field": field})
        for _ in range(n["lsq"]):
            mesh = self._mesh(rng, tier, "lsq")
            field = self._lin(rng, mesh["etype"] == "quad") if rng.random() < 0.6 else \
                {"t": rng.choice(["nodal", "quad", "rowwise"]), "seed": rng.randrange(10**6)}
            cases.append({"kind": "grad", "op": "lsq", "mesh": mesh, "field": field})
        for _ in range(n["hot"]):
            cases.append(self._hot_case(rng, tier))
        for _ in range(n["map"]):
            cases.append(self._map_case(rng, tier))
        for _ in range(n["surf"]):
            mesh = self._mesh(rng, tier, "surf")
            while not block_untangled(build(mesh), mesh["dims"]):   # tangled by the perturbation: not a mesh
                self.stats["surf_tangled_rejected"] = self.stats.get("surf_tangled_rejected", 0) + 1
                mesh["amp"] = {0.3: 0.2, 0.2: 0.05}.get(mesh["amp"], 0.0)
                mesh["pseed"] = rng.randrange(10**6)
            cases.append({"kind": "surf", "mesh": mesh})
        for c in cases:
            self._count(c)
        return cases

    def _count(self, c):
        st = self.stats
        k = c["kind"] + ("/" + c.get("op", c.get("mode", "")) if c["kind"] in ("grad", "map") else "")
        st["kinds"][k] = st["kinds"].get(k, 0) + 1
        m = c.get("mesh")
        if m:
            for key, val in (("etype", m.get("etype")), ("nid", m["nid"]["kind"]), ("eid", m["eid"]["kind"]),
                             ("rows", m.get("rows")), ("levels", m.get("levels"))):
                st[key][val] = st[key].get(val, 0) + 1
        if "field" in c:
            t = c["field"]["t"]
            st["field"][t] = st["field"].get(t, 0) + 1

    # ---------------------------------------------------------------- evaluation of one case (cached)
    def _built(self, case):
        key = json.dumps(case, sort_keys=True)
        hit = self._cache.get(key)
        if hit is None:
            if len(self._cache) > 4:
                self._cache.clear()
            built = build(case["mesh"])
            values = field_values(case["field"], built) if "field" in case else [0.0] * len(built[3])
            hit = (built, values)
            self._cache[key] = hit
        return hit

    def _run_impl(self, case):
        """Runs the real code once per case; returns a dict that impl_lines and oracle both read."""
        key = json.dumps(case, sort_keys=True)
        if key in self._results:
            return self._results[key]
        load()
        res = {}
        with warnings.catch_warnings():
            warnings.simplefilter("ignore")
            try:
                res = self._run_impl_inner(case)
            except Exception as e:  # an exception of the code under test is an observable result
                res = {"error": err(e), "message": str(e)[:200]}
        self._results[key] = res
        return res

    def _run_impl_inner(self, case):
        kind = case["kind"]
        if kind == "inc":
            nx, ny, nz = case["dims"]
            built = build({"dims": [nx, ny, nz], "etype": "hex"})
            cnt = [0] * len(built[0])
            for conn in built[1]:
                for n in conn:
                    cnt[n] += 1
            return {"counts": cnt}
        if kind == "grad":
            built, values = self._built(case)
            df = frame(case["mesh"], built, values)
            acc = df.gradient_3D if case["op"] == "g3d" else df.gradient
            gr = acc.gradient_of("v")
            return {"ids": [int(i) for i in gr.index], "grad": gr[["dv_dx", "dv_dy", "dv_dz"]].to_numpy(dtype=float).tolist()}
        if kind == "hot":
            built, values = self._built(case)
            df = frame(case["mesh"], built, values)
            kw = {} if case.get("cap") is None else {"artefact_threshold": case["cap"]}
            hs = df.hotspot.calc("v", case["frac"], **kw)
            if not hs.index.equals(df.index):
                return {"error": "err:IndexChanged"}
            return {"labels": [int(x) for x in hs.to_numpy()]}
        if kind == "surf":
            built, values = self._built(case)
            df = frame(case["mesh"], built, values)
            s = df.surface_3D.is_at_surface()
            per = {}
            ok = len(s) == len(df)
            for (e, n), flag in zip(s.index, s.to_numpy()):
                per.setdefault(int(n), set()).add(bool(flag))
            return {"flags": {n: (sorted(v)[0] if len(v) == 1 else None) for n, v in per.items()}, "rows_ok": ok,
                    "names": list(s.index.names)}
        if kind == "map":
            mode = case["mode"]
            if mode in ("same", "interior"):
                built, values = self._built(case)
                coords, elems, grid, rows, nid, eid = built
                df = frame(case["mesh"], built, values)
                nodes = df.groupby("node_id").first()
                if case.get("drop_z"):
                    nodes = nodes.drop(columns=["z"])
                crd = ["x", "y"] + ([] if case.get("drop_z") else ["z"])
                if mode == "same":
                    target = nodes[crd].copy()
                    expect = nodes["v"].to_numpy(dtype=float).tolist()
                else:
                    r = random.Random(case["tseed"])
                    g, c0 = case["field"]["g"], case["field"]["c"]
                    pts = []
                    for _ in range(case["npts"]):
                        conn = elems[r.randrange(len(elems))]
                        w = [r.uniform(0.05, 1.0) for _ in conn]
                        s = sum(w)
                        pts.append([sum(wi / s * coords[n][c] for wi, n in zip(w, conn)) for c in range(3)])
                    target = pd.DataFrame(pts, columns=["x", "y", "z"])[crd]
                    expect = [g[0] * p[0] + g[1] * p[1] + g[2] * p[2] + c0 for p in pts]
                out = target.meshmapper.process(nodes, "v")
                same_index = out.index.equals(target.index)
                return {"vals": out["v"].to_numpy(dtype=float).tolist(), "expect": expect, "same_index": same_index}
            d = 3 if mode == "simplex3" else 2
            crd = ["x", "y", "z"][:d]
            src = pd.DataFrame(case["verts"], columns=crd)
            src["v"] = case["vals"]
            target = pd.DataFrame(case["pts"], columns=crd)
            out = target.meshmapper.process(src, "v")
            return {"vals": out["v"].to_numpy(dtype=float).tolist()}
        raise ValueError(kind)

    # ---------------------------------------------------------------- correspondence
    def model_lines(self, case):
        kind = case["kind"]
        if kind == "inc":
            return ["m19 inc " + " ".join(str(d) for d in case["dims"])]
        if kind == "grad":
            built, values = self._built(case)
            return [f"m19 {case['op']} " + mesh_line(built, values)]
        if kind == "hot":
            built, values = self._built(case)
            cap = "-" if case.get("cap") is None else f2h(case["cap"])
            return [f"m19 hot {f2h(case['frac'])} {cap} " + mesh_line(built, values, with_coords=False)]
        if kind == "surf":
            built, values = self._built(case)
            coords, elems, grid, rows, nid, eid = built
            return ["m19 surf " + " ".join(f"{nid[n]} {eid[e]}" for n, e in rows)]
        if kind == "map":
            if case["mode"] in ("same", "interior"):
                return []     # whole-mesh mapping: the triangulation is external, oracle only
            flat = [x for v in case["verts"] for x in v] + list(case["vals"]) + [x for p in case["pts"] for x in p]
            return [("m19 bary3 " if case["mode"] == "simplex3" else "m19 bary2 ") + " ".join(f2h(x) for x in flat)]
        raise ValueError(kind)

    def impl_all(self, cases):
        """Runs the real code on all cases (sequentially: forked workers oversubscribe the BLAS threads and are slower) and books the statistics."""
        out = [self.impl_lines(c) for c in cases]
        for c in cases:
            res = self._results.get(json.dumps(c, sort_keys=True))
            if res and "error" in res:
                self.stats["impl_errors"][res["error"]] = self.stats["impl_errors"].get(res["error"], 0) + 1
            if "mesh" in c and c["kind"] != "map":
                self.stats["max_rows"] = max(self.stats["max_rows"], len(self._built(c)[0][3]))
        return out

    def impl_lines(self, case):
        kind = case["kind"]
        if kind == "map" and case["mode"] in ("same", "interior"):
            return []
        res = self._run_impl(case)
        if "error" in res:
            return [res["error"]]
        if kind == "inc":
            return [" ".join(str(c) for c in res["counts"])]
        if kind == "grad":
            return [show_grad(res["ids"], res["grad"])]
        if kind == "hot":
            return [" ".join(str(x) for x in res["labels"])]
        if kind == "surf":
            if not res["rows_ok"]:
                return ["err:rows"]
            return [" ".join(f"{n}:{'?' if f is None else int(f)}" for n, f in sorted(res["flags"].items()))]
        if kind == "map":
            return [" ".join("nan" if v != v else f2h(v) for v in res["vals"])]
        raise ValueError(kind)

    def _scale(self, case):
        if case["kind"] == "grad":
            built, values = self._built(case)
            span = max(abs(v) for v in values) if values else 1.0
            sc = case["mesh"].get("scale", [1.0, 1.0, 1.0])
            return max(1.0, span) / min(1.0, *[abs(s) for s in sc])
        if case["kind"] == "map":
            return max(1.0, *[abs(v) for v in case.get("vals", [1.0])])
        return 1.0

    def compare(self, case, model_out, impl_out):
        kind = case["kind"]
        if kind in ("inc", "hot", "surf"):
            return super().compare(case, model_out, impl_out)
        if len(model_out) != len(impl_out):
            return f"length {len(model_out)} vs {len(impl_out)}"
        tol = 1e-8 * self._scale(case)
        for a, b in zip(model_out, impl_out):
            if b.startswith("err:") or a.startswith("bad"):
                return f"model={a[:120]!r} impl={b[:120]!r}"
            if kind == "grad":
                ga, gb = parse_grad(a), parse_grad(b)
                if [i for i, _ in ga] != [i for i, _ in gb]:
                    return f"node ids/order differ: model={[i for i, _ in ga][:12]} impl={[i for i, _ in gb][:12]}"
                for (i, x), (_, y) in zip(ga, gb):
                    if x is None or y is None:
                        if not (x is None and (y is None or any(t != t for t in y))):
                            return f"node {i}: model={x} impl={y}"
                        continue
                    for u, v in zip(x, y):
                        if not (abs(u - v) <= tol + 1e-8 * max(abs(u), abs(v))):
                            return f"node {i}: model={x} impl={y} (tol {tol:g})"
            else:
                ta, tb = a.split(), b.split()
                if len(ta) != len(tb):
                    return f"{len(ta)} vs {len(tb)} values"
                for j, (u, v) in enumerate(zip(ta, tb)):
                    if (u == "nan") != (v == "nan"):
                        return f"point {j}: model={u} impl={v}"
                    if u != "nan" and not (abs(h2f(u) - h2f(v)) <= tol):
                        return f"point {j}: model={h2f(u)!r} impl={h2f(v)!r}"
        return None

    # ---------------------------------------------------------------- oracle (independent of the Lean model)
    def oracle(self, case):
        kind = case["kind"]
        if kind == "inc":
            return None
        res = self._run_impl(case)
        if kind == "grad":
            return self._oracle_grad(case, res)
        if kind == "hot":
            return self._oracle_hot(case, res)
        if kind == "surf":
            return self._oracle_surf(case, res)
        if kind == "map":
            return self._oracle_map(case, res)
        return None

    def _oracle_grad(self, case, res):
        built, values = self._built(case)
        coords, elems, grid, rows, nid, eid = built
        op = case["op"]
        positional = op == "lsq" and not is_one_to_n(nid)
        klass = "lsq-node-id-position" if positional else f"{op}-gradient-inexact"
        what = "gradient (least squares)" if op == "lsq" else "gradient_3D"
        if "error" in res:
            return (f"{what} raises {res['error'][4:]} ({res.get('message', '')}) on a valid mesh with node ids "
                    f"{sorted(nid)[:6]}…", klass if positional else f"{op}-raises")
        if sorted(res["ids"]) != sorted(nid):
            return (f"{what}: result rows {len(res['ids'])} do not cover the {len(nid)} nodes once", f"{op}-node-set")
        if case["field"]["t"] != "lin":
            return None
        g = list(case["field"]["g"])
        if case["mesh"].get("etype") == "quad":
            g[2] = 0.0
        sc = case["mesh"].get("scale", [1.0, 1.0, 1.0])
        tol = 1e-9 * max(1.0, max(abs(v) for v in values)) / min(1.0, *[abs(s) for s in sc])
        worst = 0.0
        for i, row in zip(res["ids"], res["grad"]):
            for u, v in zip(row, g):
                d = abs(u - v) if u == u else float("inf")
                if d > worst:
                    worst, wi, wrow = d, i, row
        if worst > tol:
            return (f"{what} of the linear field g={g} is {wrow} at node {wi} (error {worst:.3g} > {tol:.3g})", klass)
        return None

    def _oracle_hot(self, case, res):
        built, values = self._built(case)
        coords, elems, grid, rows, nid, eid = built
        if "error" in res:
            return (f"hotspot.calc raises {res['error']}", "hot-raises")
        labels = res["labels"]
        cap = case.get("cap")
        cand = [v for v in values if cap is None or v < cap]
        n = len(rows)
        if not cand:
            if any(labels):
                return ("labels although no value enters the maximum", "hot-threshold")
            self.stats["hot_zero_cases"] += 1
            return None
        thr = case["frac"] * max(cand)
        above = [v >= thr for v in values]
        for i in range(n):
            if (labels[i] >= 1) != above[i]:
                return (f"row {i} (node {nid[rows[i][0]]}, element {eid[rows[i][1]]}) value {values[i]} threshold {thr}: label {labels[i]}",
                        "hot-threshold")
        # connected components of the thresholded rows under shared node / shared element
        parent = list(range(n))

        def find(a):
            while parent[a] != a:
                parent[a] = parent[parent[a]]
                a = parent[a]
            return a
        first_n, first_e = {}, {}
        for i, (nd, el) in enumerate(rows):
            if not above[i]:
                continue
            for d, k in ((first_n, nd), (first_e, el)):
                if k in d:
                    parent[find(i)] = find(d[k])
                else:
                    d[k] = i
        comp_of_label, label_of_comp = {}, {}
        for i in range(n):
            if not above[i]:
                continue
            c, l = find(i), labels[i]
            if comp_of_label.setdefault(l, c) != c:
                return (f"label {l} spans two connected components (rows {i} and {comp_of_label[l]})", "hot-components")
            if label_of_comp.setdefault(c, l) != l:
                return (f"one connected component carries labels {label_of_comp[c]} and {l} (row {i})", "hot-components")
        used = sorted(comp_of_label)
        if used != list(range(1, len(used) + 1)):
            return (f"labels are not 1..k: {used[:10]}", "hot-numbering")
        peak = {l: max(values[i] for i in range(n) if labels[i] == l) for l in used}
        for l in used[1:]:
            if peak[l] > peak[l - 1]:
                return (f"peak of hot spot {l} ({peak[l]}) exceeds the peak of hot spot {l-1} ({peak[l-1]})", "hot-numbering")
        self.stats["hot_labels_max"] = max(self.stats["hot_labels_max"], len(used))
        self.stats["hot_thresholded_rows"] += sum(above)
        if not used:
            self.stats["hot_zero_cases"] += 1
        return None

    def _oracle_surf(self, case, res):
        built, values = self._built(case)
        coords, elems, grid, rows, nid, eid = built
        if "error" in res:
            return (f"is_at_surface raises {res['error']}", "surface-raises")
        if not res["rows_ok"]:
            return ("is_at_surface does not return one row per mesh row", "surface-rows")
        nx, ny, nz = case["mesh"]["dims"]
        for n, (i, j, k) in enumerate(grid):
            boundary = i in (0, nx) or j in (0, ny) or k in (0, nz)
            f = res["flags"].get(nid[n])
            if f is None or f != boundary:
                return (f"node {nid[n]} at grid position {(i, j, k)} of the {nx}x{ny}x{nz} block: boundary={boundary}, flagged={f}", "surface-flag")
            self.stats["surface_flagged" if boundary else "surface_interior"] += 1
        return None

    def _oracle_map(self, case, res):
        if "error" in res:
            return (f"meshmapper.process raises {res['error']} ({res.get('message', '')})", "map-raises")
        mode = case["mode"]
        if mode in ("same", "interior"):
            if not res["same_index"]:
                return ("result index differs from the target index", "map-index")
            sc = max(1.0, *[abs(e) for e in res["expect"]])
            msc = case["mesh"].get("scale", [1.0, 1.0, 1.0])
            tol = 1e-9 * sc / min(1.0, *[abs(s) for s in msc])
            for j, (v, e) in enumerate(zip(res["vals"], res["expect"])):
                if mode == "same" and v != v:
                    # known finding: scipy's find_simplex walk declares a source node on the convex hull "outside"
                    # when a neighbouring sliver simplex puts it ~1e-14 beyond a hull facet
                    return (f"mapping onto the same points: node {j} (a source point itself) gets NaN instead of {e!r}",
                            "map-hull-vertex-nan")
                if not (abs(v - e) <= tol):
                    return (f"mapping ({mode}): point {j} gets {v!r}, expected {e!r}", f"map-{mode}")
            return None
        # one simplex: independent barycentric evaluation with numpy
        d = 3 if mode == "simplex3" else 2
        V = np.array(case["verts"], dtype=float)
        T = (V[1:] - V[0]).T
        for j, (p, v) in enumerate(zip(case["pts"], res["vals"])):
            lam = np.linalg.solve(T, np.array(p) - V[0])
            w = np.concatenate([[1 - lam.sum()], lam])
            if w.min() < -1e-9:
                self.stats["map_nan_points"] += 1
                if v == v:
                    return (f"point {p} outside the simplex gets {v!r} instead of NaN", "map-simplex")
                continue
            if w.min() < 1e-9:
                continue
            e = float(w @ np.array(case["vals"]))
            if not (abs(v - e) <= 1e-9 * max(1.0, abs(e))):
                return (f"point {p} inside the simplex gets {v!r}, barycentric value {e!r}", "map-simplex")
        return None

    # ---------------------------------------------------------------- bookkeeping
    def nontrivial(self, case, model_out):
        kind = case["kind"]
        if kind == "inc":
            return None if max(case["dims"]) < 2 else json.dumps(case, sort_keys=True)
        if kind == "hot":
            labs = set(model_out[0].split()) if model_out else set()
            return json.dumps(case, sort_keys=True) if len(labs) >= 2 else None
        if kind == "map" and not model_out:
            return None
        return json.dumps(case, sort_keys=True)

    def shrink(self, case, still_fails):
        cur = json.loads(json.dumps(case))
        changed = True
        while changed:
            changed = False
            for cand in self._simpler(cur):
                try:
                    if still_fails(cand):
                        cur, changed = cand, True
                        break
                except Exception:
                    continue
        return cur

    def _simpler(self, case):
        c = lambda: json.loads(json.dumps(case))
        m = case.get("mesh")
        if m:
            for ax in range(3):
                if m["dims"][ax] > 1:
                    x = c()
                    x["mesh"]["dims"][ax] -= 1
                    if "nv" in x.get("field", {}) or "rv" in x.get("field", {}):
                        continue
                    yield x
            if m.get("amp", 0.0) != 0.0 and not (case["kind"] == "map"):
                x = c()
                x["mesh"]["amp"] = 0.0
                yield x
            if "scale" in m:
                x = c()
                del x["mesh"]["scale"]
                yield x
            if m.get("rows") != "blocks":
                x = c()
                x["mesh"]["rows"] = "blocks"
                yield x
            if m.get("levels") != "en":
                x = c()
                x["mesh"]["levels"] = "en"
                yield x
            rank = {"one": 0, "zero": 1, "offset": 2}     # only towards simpler id maps: the shrink terminates
            for key in ("eid", "nid"):
                for k2 in ("one", "zero", "offset"):
                    if rank[k2] < rank.get(m[key]["kind"], 3):
                        x = c()
                        x["mesh"][key] = {"kind": k2, "seed": 0}
                        yield x
        f = case.get("field")
        if f and f["t"] == "lin":
            if f["c"] != 0.0:
                x = c()
                x["field"]["c"] = 0.0
                yield x
            if any(abs(v) not in (0.0, 1.0) for v in f["g"]):
                x = c()
                x["field"]["g"] = [0.0 if v == 0 else 1.0 for v in f["g"]]
                yield x
        if case["kind"] == "map" and "pts" in case and len(case["pts"]) > 1:
            for i in range(len(case["pts"])):
                x = c()
                del x["pts"][i]
                yield x


_T = "PylifeVerif.C19."
C19.THEOREMS = [_T + n for n in [
    "hex_gradient_exact",
    "hex_gradient_exact_all",
    "simplex_gradient_exact",
    "gradient3D_exact",
    "lstsq_exact",
    "lstsq_exact_planar",
    "lstsq_full_rank",
    "gradientLsq_exact",
    "gradientLsq_exact_planar",
    "gradientLsq_nodes",
    "barycentric_reproduces_linear",
    "barycentric_reproduces_linear_2d",
    "barycentric_at_vertex",
    "hotspot_label_pos_iff",
    "hotspot_class_closed",
    "hotspot_class_connected",
    "hotspot_labels_descending_peak",
    "hotspot_labels_contiguous",
    "surface_block_interior_iff_partial",
]]
C19.PARTIAL = {
    _T + "surface_block_interior_iff_partial":
        "only the combinatorial statement (a grid node of an nx x ny x nz hexahedral block is interior iff 8 elements meet there) is proved; "
        "that the solid-angle sum of surface.py is < 4*pi - 1e-5 exactly at the nodes with fewer than 8 elements is floating-point geometry, decided by correspondence + oracle (test)",
}
