"""C13: signal broadcasting aligns operands without altering data or inputs.

Implementation side (real pylife Broadcaster / WoehlerCurve in-process), generators, the interpretation of a
pandas operand pair as relational tables (the part of the tie that is trusted harness code), the direct
property oracle, shrinking.

A case is a JSON-able dict

    {"obj": OPERAND, "prm": OPERAND | {"kind": "scalar", "v": int, "st": "py" | "np" | "0d"}     ("st", optional: python number |
                                     | {"kind": "array", "vals": [int, ...], "np": bool},         numpy scalar | 0-d array;  "np",
                                                              optional, default true: numpy array, false: a python list)
     "labels": {level name: "int" | "rev" | "str" | "float" | "interval" | "dt" | "cat"},   (optional, default "int"; "dt" =
                   Timestamps, "cat" = a Categorical level)
     "name_types": {level name: "zero" | "empty" | "float0" | "tuple" | "float" | "bytes" | "one" | "true" | "float1" | "false"},
                   (optional: the real pandas name of the level is 0 / '' / 0.0 / a tuple / a float / bytes / 1 / True / 1.0 /
                   False instead of the string; table NAME_TYPES; "bytes" exists in the table but is not generated)
     "name_types_prm": {level name: one of the above},   (optional: the PARAMETER's spelling of a shared level name where it
                   differs in type from the object's but compares equal - 1 / True / 1.0, 0 / False / 0.0, EQUAL_NAME_PAIRS: ONE level)
     "share_index": true,                                               (optional: one Index object for both)
     "cells": "int" | "frac" | "i64" | "nan1",                          (optional, default "int": how a cell id becomes a value)
     "rec_labels": "str" | "int" | "float" | "tuple",                   (optional: entry labels of a one-level record Series)
     "rec_dup": true,                                                   (optional: the record's second entry label repeats the first)
     "droplevel": [level name of the object only, ...],                 (optional: the call is broadcast(prm, droplevel=[...]); not in the
                   model, oracle only: _oracle_droplevel)
     "anon_plain": true,                                                (optional: unnamed levels carry the bare codes on BOTH sides)
     "outside": true}                                                   (optional: overlapping level names with a shared key missing on
                   one side = outside the property's quantifier: correspondence and 'operands unchanged' only)
    OPERAND = {"kind": "series" | "frame", "names": [str | None, ...], "keys": [[int, ...], ...], "ncols": int,
               "mi1": true}                          (optional: a ONE-level index is built as a MultiIndex of one level)

Level values are small integer *codes*; on the implementation side a code is turned into a label by the
level's label type (identity, reversed integers, strings, floats; unnamed levels get labels from a range that
identifies operand and position so that they can be told apart in the result).  Cell values are not stored:
the cell in row i, column j of the object has the ID 1 + i*ncols + j, of the parameter 1001 + i*ncols + j, so that
all cells are distinct and any misalignment is visible.  The VALUE of a cell is its id ("int": as a float), or
id*1.1 + 0.007 ("frac": not whole, not representable in float32), "i64": the object's cells are int64 ids and the
parameter's are "frac", "nan1": "frac" with one NaN cell in each operand.  The model works on ids; the harness maps
the values that come back to ids (`to_ids` for table rows, `plain_id` for scalars / array elements), any other value is
shown as it is and so disagrees.

Six further kinds of case (CONSUMER_KINDS) exercise the clause "every calculation built on it": {"kind": "woehler", ...}
the allowable cycles of per-element Woehler curves for per-scenario loads; {"kind": "haigh", ...} the FKM-Goodman Haigh
diagram of several elements (meanstress.py); {"kind": "haigh-five", ...} the five-segment Haigh diagram of several elements;
{"kind": "haigh-transform", ...} HaighDiagram.transform of per-element or disjoint cycles (with droplevel);
{"kind": "collective-raise", ...} LoadCollective.scale / shift on index layouts on which the alignment raises (and one on
which it does not): collective and operand unchanged, a returned result scaled / shifted row by row;
{"kind": "matrix", ...} a rainflow matrix (from/to or range/mean classes, optionally an element_id level, any level order,
rows sorted / shuffled / descending / a shuffled subset) x a Haigh parameter (one Series | per element | per element lacking
the first element's row | per element with a surplus row 99 | a level `material` of its own) through
series.meanstress_transform.fkm_goodman (matrix_oracle: class sums = the entries transformed one by one by the scalar
function, independent of the row order; an element without diagram is refused or gets no cycles; a surplus diagram none).
"""
import copy
import itertools
import json
import math
import warnings

import numpy as np
import pandas as pd

from . import core
from .core import Prop

SOURCES = [
    "src/pylife/core/broadcaster.py",
    "src/pylife/core/pylifesignal.py",
    "src/pylife/materiallaws/woehlercurve.py",
    "src/pylife/strength/meanstress.py",
]


# ------------------------------------------------------------------ building the pandas operands
def label(ltype, code):
    if ltype == "int":
        return int(code)
    if ltype == "rev":
        return 9 - int(code)
    if ltype == "str":
        return f"k{code}"
    if ltype == "float":
        return 0.5 * code - 1.0
    if ltype == "interval":      # overlapping intervals, as in the Haigh diagrams of meanstress.py
        return pd.Interval(0.5 * code, 0.5 * code + 1.0)
    if ltype == "obj":           # strings in a level of dtype object (pandas < 3, HDF, dtype=object; see level_labels)
        return f"k{code}"
    if ltype == "mixed":         # labels of mixed type in one (object) level
        return MIXED_LABELS[int(code) % len(MIXED_LABELS)]
    if ltype == "dt":
        return pd.Timestamp("2020-01-01") + pd.Timedelta(days=int(code))
    if ltype == "cat":           # (the level is built as a Categorical, see level_labels)
        return f"k{code}"
    raise ValueError(ltype)


MIXED_LABELS = [1.5, "weld", 2.5, "toe", 7.5, "root", 0.25, "cap"]      # (floats and strings in one object level)


def anon_label(side, pos, code, plain=False):
    if plain:       # as two default RangeIndex-like unnamed indices: the same labels on both operands
        return int(code)
    return (10000 if side == "o" else 20000) + 1000 * pos + int(code)


def cell(side, i, j, ncols):
    """the ID of a cell (what the model sees)"""
    return float((1 if side == "o" else 1001) + i * ncols + j)


def frac(v):
    return float(v) * 1.1 + 0.007


def cell_value(case, side, i, j, ncols, nrows):
    """the VALUE the real operand holds in that cell"""
    cid = cell(side, i, j, ncols)
    mode = case.get("cells", "int")
    if mode == "int":
        return cid
    if mode == "i64" and side == "o":
        return int(cid)
    if mode == "nan1" and j == 0 and i == (0 if side == "o" else nrows - 1):
        return float("nan")
    return frac(cid)


def plain_value(case, v):
    """the value of an array element / a scalar with the id v"""
    mode = case.get("cells", "int")
    if mode == "int":
        return float(v)
    if mode == "i64":
        return int(v)
    return frac(v)


def same_value(a, b):
    if isinstance(a, str) or isinstance(b, str):
        return isinstance(a, str) and isinstance(b, str) and a == b
    try:
        a, b = float(a), float(b)
    except Exception:
        return False
    return a == b or (a != a and b != b)


REC_STRING = "steel"


def record_entries(case, vals):
    """entries of a record that is not purely numeric: "rec_str": the LAST entry is a string (a material name beside the
    numbers), "rec_0d": every other numeric entry is a 0-d numpy array (what WoehlerCurve.transform_to_failure_probability
    writes into a curve: np.asarray(obj.SD / ...))"""
    out = list(vals)
    if case.get("rec_0d"):
        out = [np.asarray(v) if i % 2 == 0 else v for i, v in enumerate(out)]
    if case.get("rec_str"):
        out[-1] = REC_STRING
    return out


NAME_TYPES = {        # symbolic level name -> the real pandas level name
    "zero": lambda sym: 0,            # what df.set_index(0) produces: falsy, not None
    "empty": lambda sym: "",
    "float0": lambda sym: 0.0,
    "tuple": lambda sym: ("t", sym),
    "float": lambda sym: 2.5 + sum((i + 1) * ord(c) for i, c in enumerate(sym)) % 89,     # (distinct for x, x2, y, y2, …)
    "bytes": lambda sym: sym.encode(),
    "one": lambda sym: 1,
    "true": lambda sym: True,          # True == 1 == 1.0 and False == 0 == 0.0: ONE level name for pandas' own look-up
    "float1": lambda sym: 1.0,
    "false": lambda sym: False,
}
EQUAL_NAME_PAIRS = [("one", "true"), ("true", "one"), ("one", "float1"), ("zero", "false"), ("false", "float0"), ("float0", "zero")]


def real_name(case, sym, side=None):
    """The pandas level name of the symbolic name `sym` (the Lean model and the canonical forms use the symbolic
    names: names are opaque labels for the model).  case["name_types"] maps a symbolic name to a kind of
    non-string name (falsy but not None: 0, '', 0.0; tuples, floats, bytes); default: the string itself.
    case["name_types_prm"] (optional) gives the PARAMETER's spelling of a shared name where it differs in type but
    compares equal (1 / True / 1.0; 0 / False / 0.0): one level for pandas and for the Broadcaster."""
    if sym is None:
        return None
    t = case.get("name_types", {}).get(sym)
    if side == "p":
        t = case.get("name_types_prm", {}).get(sym, t)
    return sym if t is None else NAME_TYPES[t](sym)


def sym_name(case, real):
    """inverse of real_name on the names of this case; an unknown name comes back as <repr>"""
    if real is None:
        return None
    for op in (case["obj"], case["prm"]):
        for sym in op.get("names", []):
            if sym is None:
                continue
            for side in ("o", "p"):
                r = real_name(case, sym, side)
                if type(r) is type(real) and r == real:
                    return sym
    return f"<{real!r}>"


def level_labels(case, side, op, pos):
    name = op["names"][pos]
    if side == "o" and is_record(case) and len(op["names"]) == 1:
        # entries of a record are its fields: mostly strings; ints / floats / tuples as for a Series taken out of a
        # frame with such column labels
        rl = case.get("rec_labels", "str")
        f = {"str": lambda c: f"f{c}", "int": lambda c: 10 * (c + 1), "float": lambda c: 0.25 + 0.5 * c,
             "tuple": lambda c: ("t", c)}[rl]
        labs = [f(k[pos]) for k in op["keys"]]
        if case.get("rec_dup") and len(labs) > 1:
            labs[1] = labs[0]       # a DUPLICATED entry label (as in a Series taken out of a frame with repeated columns)
        return labs
    if name is None:
        return [anon_label(side, pos, k[pos], case.get("anon_plain")) for k in op["keys"]]
    lt = case.get("labels", {}).get(name, "int")
    labs = [label(lt, k[pos]) for k in op["keys"]]
    if lt == "cat":
        return pd.Categorical(labs, categories=[f"k{c}" for c in range(8)])
    if lt in ("obj", "mixed"):
        return pd.Index(labs, dtype=object, tupleize_cols=False)
    return labs


def build(case, side, index=None):
    """The pandas object of an operand (fresh on every call).  `index`: use this Index OBJECT instead of
    building one (cases with "share_index": both operands are built from one Index object, as in
    `pd.Series(factors, index=frame.index)`)."""
    op = case["obj" if side == "o" else "prm"]
    kind = op["kind"]
    if kind == "scalar":
        v = plain_value(case, op["v"])
        st = op.get("st", "py")       # python number | numpy scalar | 0-d array
        return v if st == "py" else (np.float64(v) if isinstance(v, float) else np.int64(v)) if st == "np" else np.asarray(v)
    if kind == "array":
        vals = [plain_value(case, v) for v in op["vals"]]
        return np.asarray(vals) if op.get("np", True) else vals
    names = op["names"]
    n = len(op["keys"])
    if n == 0 and index is None:
        # an empty operand as it arises in practice: a selection of no row of a non-empty one (index dtypes kept)
        one = copy.deepcopy(case)
        one["obj" if side == "o" else "prm"]["keys"] = [[0] * len(names)]
        return build(one, side).iloc[:0]
    arrays = [level_labels(case, side, op, p) for p in range(len(names))]
    if side == "o" and case.get("rec_dup") and is_record(case) and len(names) > 1 and n > 1:
        arrays = [list(a) for a in arrays]
        for a in arrays:
            a[1] = a[0]             # a duplicated entry (all levels) of a multi-level record
    rnames = [real_name(case, nm, side) for nm in names]
    if index is not None:
        idx = index
    elif len(names) == 1 and not op.get("mi1"):
        idx = pd.Index(arrays[0], name=rnames[0], tupleize_cols=False)
    else:       # (also a MultiIndex of ONE level: what groupby / stack / xs(drop_level=False) produce)
        idx = pd.MultiIndex.from_arrays(arrays, names=rnames)
    ncols = op["ncols"]
    if kind == "series":
        vals = [cell_value(case, side, i, 0, ncols, n) for i in range(n)]
        if side == "o" and is_record(case) and (case.get("rec_str") or case.get("rec_0d")):
            return pd.Series(record_entries(case, vals), index=idx, name=f"{side}v", dtype=object if case.get("rec_str") else None)
        return pd.Series(vals, index=idx, name=f"{side}v")
    data = {f"{side}c{j}": [cell_value(case, side, i, j, ncols, n) for i in range(n)] for j in range(ncols)}
    return pd.DataFrame(data, index=idx)


# ------------------------------------------------------------------ interpretation as relational tables
def lname(side, names, pos):
    """Canonical level name: the name, or ?<side><pos> for an unnamed level."""
    return names[pos] if names[pos] is not None else f"?{side}{pos}"


def is_record(case):
    """A Series object is a *record* (no index level, one row, one column per index entry) whenever the
    parameter is not a pandas object, and for a pandas parameter iff its index is a single unnamed level
    (broadcaster.py: `self._obj.index.names == [None] and isinstance(self._obj, pd.Series)`)."""
    o, p = case["obj"], case["prm"]
    if o["kind"] != "series":
        return False
    return p["kind"] in ("scalar", "array") or o["names"] == [None]


def tables(case):
    """(obj_tbl, prm_spec): obj_tbl = (names, [(key tuple, row list)]);
    prm_spec = ('S', v) | ('A', vals) | ('T', names, rows)."""
    o, p = case["obj"], case["prm"]
    if is_record(case):
        obj = ([], [((), [cell("o", i, 0, 1) for i in range(len(o["keys"]))])])
    else:
        nc = 1 if o["kind"] == "series" else o["ncols"]
        names = [lname("o", o["names"], i) for i in range(len(o["names"]))]
        obj = (names, [(tuple(k), [cell("o", i, j, o["ncols"]) for j in range(nc)]) for i, k in enumerate(o["keys"])])
    if p["kind"] == "scalar":
        prm = ("S", float(p["v"]))
    elif p["kind"] == "array":
        prm = ("A", [float(v) for v in p["vals"]])
    else:
        nc = 1 if p["kind"] == "series" else p["ncols"]
        names = [lname("p", p["names"], i) for i in range(len(p["names"]))]
        prm = ("T", names, [(tuple(k), [cell("p", i, j, p["ncols"]) for j in range(nc)]) for i, k in enumerate(p["keys"])])
    return obj, prm


def layout(case):
    """Relation between the level-name sets (after the interpretation)."""
    (on, _), prm = tables(case)
    if prm[0] != "T":
        return "scalar" if prm[0] == "S" else "array"
    pn = prm[1]
    so, sp = set(on), set(pn)
    if not so & sp:
        return "disjoint"
    if so == sp:
        return "equal" if on == pn else "equal-permuted"
    if sp < so:
        return "prm-contained"
    if so < sp:
        return "obj-contained"
    return "overlapping"


def shared_keys_present(case):
    """The quantifier's side condition: every shared-level key of one operand occurs in the other."""
    (on, orows), prm = tables(case)
    if prm[0] != "T":
        return True
    pn, prows = prm[1], prm[2]
    sh = [n for n in on if n in pn]
    if not sh:
        return True
    a = {tuple(k[on.index(n)] for n in sh) for k, _ in orows}
    b = {tuple(k[pn.index(n)] for n in sh) for k, _ in prows}
    return a == b


# ------------------------------------------------------------------ reference semantics (oracle side, naive)
def ref_broadcast(case):
    """The relation the property asks for, computed naively.  Returns (must, may): dicts
    frozenset((level, code | None)) -> (obj row | None, prm row | None); or ('error', kind).
    must: every pair of rows that agree on the shared levels, and every partner-less row whose own key has all
          result levels (the other operand's payload is NaN).
    may:  a partner-less row whose operand lacks a result level can only appear with NaN in that level (code None).
          The property's text speaks about the rows of the RESULT; it does not say that such a row must appear
          (pandas keeps it in a MultiIndex join and leaves it out when a flat index is joined with a MultiIndex; the
          exact behaviour is pinned by the correspondence with the model, `keepsUnmatched`).
    Every row of the result has to be one of these, with exactly these cells."""
    (on, orows), prm = tables(case)
    if prm[0] == "S":
        return {frozenset(zip(on, k)): (r, [prm[1]]) for k, r in orows}, {}
    if prm[0] == "A":
        vals = prm[1]
        if not on:      # record: one row per array element, unnamed range level
            return {frozenset([("?p0", i)]): (orows[0][1], [v]) for i, v in enumerate(vals)}, {}
        if len(vals) == 1:
            vals = vals * len(orows)
        if len(vals) != len(orows):
            return ("error", "ValueError")
        return {frozenset(zip(on, k)): (r, [v]) for (k, r), v in zip(orows, vals)}, {}
    pn, prows = prm[1], prm[2]
    sh = [n for n in on if n in pn]
    must, may = {}, {}
    matched_o, matched_p = set(), set()
    for i, (ko, ro) in enumerate(orows):
        for j, (kp, rp) in enumerate(prows):
            if all(ko[on.index(n)] == kp[pn.index(n)] for n in sh):
                key = dict(zip(on, ko))
                key.update(zip(pn, kp))
                must[frozenset(key.items())] = (ro, rp)
                matched_o.add(i)
                matched_p.add(j)
    for i, (ko, ro) in enumerate(orows):
        if i not in matched_o:
            key = {n: None for n in pn}
            key.update(zip(on, ko))
            (must if set(pn) <= set(on) else may)[frozenset(key.items())] = (ro, None)
    for j, (kp, rp) in enumerate(prows):
        if j not in matched_p:
            key = {n: None for n in on}
            key.update(zip(pn, kp))
            (must if set(on) <= set(pn) else may)[frozenset(key.items())] = (None, rp)
    return must, may


def documented_order(case):
    """The row order of the result where the documentation fixes it (class docstring of the Broadcaster), as a list
    of keys; None where it does not.  Disjoint level names: object-major cross join (consumers like
    meanstress.py fill such a result positionally); scalar / array parameter: the object's own order; both operands
    with the identical index (same level order, same keys in the same order): that order."""
    (on, orows), prm = tables(case)
    if prm[0] == "S":
        return [frozenset(zip(on, k)) for k, _ in orows]
    if prm[0] == "A":
        if not on:
            return [frozenset([("?p0", i)]) for i in range(len(prm[1]))]
        return [frozenset(zip(on, k)) for k, _ in orows]
    pn, prows = prm[1], prm[2]
    if not set(on) & set(pn):
        return [frozenset(zip(on, ko)) | frozenset(zip(pn, kp)) for ko, _ in orows for kp, _ in prows]
    if on == pn and [k for k, _ in orows] == [k for k, _ in prows]:
        return [frozenset(zip(on, k)) for k, _ in orows]
    return None


# ------------------------------------------------------------------ running the real code
def is_nan_label(v):
    try:
        return v is None or v is pd.NaT or bool(v != v)
    except Exception:
        return False


def decode_level(case, name, values, anon_side_pos=None):
    """labels -> codes for one result level.  A NaN label (a row that has no value in this level: outer join) is
    the code None."""
    out = []
    if name is None:
        anon = None
        for v in values:
            if is_nan_label(v):
                out.append(None)
                continue
            try:
                v = int(v)
                assert 10000 <= v < 30000
            except Exception:       # an unnamed result level that does not hold an unnamed operand level's labels
                out.append(("?unknown", repr(v)))
                continue
            side = "o" if v < 20000 else "p"
            pos = (v % 10000) // 1000
            anon = f"?{side}{pos}"
            out.append((anon, v % 1000))
        # NaN entries of an unnamed level: the level is told by its other entries
        return [(anon or "?unknown", None) if x is None else x for x in out]
    lt = case.get("labels", {}).get(name, "int")
    for v in values:
        if is_nan_label(v):
            out.append((name, None))
            continue
        try:
            if lt == "int":
                c = int(v)
                if c != v:
                    c = repr(v)
            elif lt == "rev":
                c = 9 - int(v)
            elif lt in ("str", "cat", "obj"):
                c = int(str(v)[1:])
            elif lt == "mixed":
                c = [i for i, m in enumerate(MIXED_LABELS) if isinstance(m, str) == isinstance(v, str) and m == v][0]
            elif lt == "dt":
                c = (pd.Timestamp(v) - pd.Timestamp("2020-01-01")).days
            elif lt == "interval":
                c = int(round(v.left * 2))
            else:
                c = int(round((float(v) + 1.0) * 2))
        except Exception:
            c = repr(v)
        out.append((name, c))
    return out


def result_level_order(case):
    """python mirror of the model's `resultNames` (only used to resolve unnamed levels by POSITION where their labels
    cannot tell them apart: one shared Index object, or plain codes on both sides)"""
    (on, _), prm = tables(case)
    pn = prm[1]
    if len(on) == 1 and len(pn) == 2 and on[0] in pn:
        return list(pn)
    return on + [n for n in pn if n not in on]


def decode_index(case, index):
    """list of frozenset((level, code)) in index order; None names resolved by their label range."""
    cols = []
    positional = None
    if (case.get("share_index") or case.get("anon_plain")) and any(n is None for n in index.names):
        # both operands carry the same labels, so an unnamed result level cannot be told by its label
        # range: resolve it by its position in the result's level order
        total = result_level_order(case)
        if len(total) == index.nlevels and all((a is None) == b.startswith("?") and (a is None or sym_name(case, a) == b)
                                               for a, b in zip(index.names, total)):
            positional = total
    tuples = list(index)
    for p in range(index.nlevels):
        # by POSITION (get_level_values(0) would return the level NAMED 0 if there is one)
        vals = [t[p] for t in tuples] if isinstance(index, pd.MultiIndex) else tuples
        if positional is not None and index.names[p] is None:
            cols.append([(positional[p], None if is_nan_label(v) else int(v) % 1000) for v in vals])
        else:
            cols.append(decode_level(case, sym_name(case, index.names[p]), list(vals)))
    return [frozenset(c[i] for c in cols) for i in range(len(index))]


def rows_of(x):
    try:
        a = np.asarray(x, dtype=float)
    except (ValueError, TypeError):       # a record with a string entry
        a = np.asarray(x, dtype=object)
    if a.ndim == 1:
        a = a.reshape(-1, 1)
    return [list(r) for r in a]


class Res:
    pass


def run_impl(case):
    """Broadcast on the real code.  Returns a Res with .error or the decoded results and the operands
    (originals, deep copies taken before the call)."""
    from pylife.core.broadcaster import Broadcaster
    r = Res()
    obj = build(case, "o")
    prm = build(case, "p", index=obj.index if case.get("share_index") else None)
    r.shared = case.get("share_index") and obj.index is prm.index
    r.obj, r.prm = obj, prm
    r.obj0, r.prm0 = copy.deepcopy(obj), copy.deepcopy(prm)
    r.error = None
    try:
        with warnings.catch_warnings():
            warnings.simplefilter("ignore")
            if case.get("droplevel"):
                p, o = Broadcaster(obj).broadcast(prm, droplevel=[real_name(case, n, "o") for n in case["droplevel"]])
            else:
                p, o = Broadcaster(obj).broadcast(prm)
    except Exception as e:
        r.error = type(e).__name__
        r.errmsg = str(e)[:200]
        return r
    r.res_prm, r.res_obj = p, o
    return r


def value_rows(case, side):
    """original key -> list of cell VALUES, as the real operand holds them"""
    op = case["obj" if side == "o" else "prm"]
    (on, orows), prm = tables(case)
    if side == "o":
        if is_record(case):
            n = len(op["keys"])
            vals = [cell_value(case, "o", i, 0, 1, n) for i in range(n)]
            return {frozenset(): record_entries(case, vals) if (case.get("rec_str") or case.get("rec_0d")) else vals}
        nc = 1 if op["kind"] == "series" else op["ncols"]
        n = len(op["keys"])
        return {frozenset(zip(on, k)): [cell_value(case, "o", i, j, op["ncols"], n) for j in range(nc)]
                for i, k in enumerate(op["keys"])}
    pn = prm[1]
    nc = 1 if op["kind"] == "series" else op["ncols"]
    n = len(op["keys"])
    return {frozenset(zip(pn, k)): [cell_value(case, "p", i, j, op["ncols"], n) for j in range(nc)]
            for i, k in enumerate(op["keys"])}


def to_ids(values, id_row, value_row):
    """A returned row as cell IDS: where a returned value is the original's value (bit pattern, NaN = NaN) the
    original's id, any other value as it is (it then disagrees with the model and the reference)."""
    if value_row is None or len(value_row) != len(values):
        return None if all(not isinstance(v, str) and v != v for v in values) else [raw(v) for v in values]
    return [i if same_value(v, w) else raw(v) for v, i, w in zip(values, id_row, value_row)]


def raw(v):
    """a returned value that is not the original's: shown as it is, and never mistaken for a cell id"""
    return "nan" if (not isinstance(v, str) and v != v) else f"~{v!r}"


def plain_id(case, v):
    """inverse of plain_value"""
    mode = case.get("cells", "int")
    if mode in ("int", "i64"):
        return float(v)
    c = round((float(v) - 0.007) / 1.1)
    return float(c) if frac(c) == float(v) else raw(float(v))


def canon_result(case, r):
    """dict key -> (obj row | None, prm row | None) from the two returned objects (rows as cell ids, None = the
    original has no row at the restricted key and the returned cells are all NaN), or a string describing why the
    two results cannot be read as aligned tables."""
    o, p = r.res_obj, r.res_prm
    rec = is_record(case)
    (on, orows), prm = tables(case)
    if isinstance(o, pd.Series) and rec:
        # the record came back as a Series: one row, no level
        okeys, orow = [frozenset()], [[x for row in rows_of(o) for x in row]]
    elif isinstance(o, (pd.Series, pd.DataFrame)):
        if case["prm"]["kind"] == "array" and rec:
            okeys = [frozenset([("?p0", int(i))]) for i in o.index]
        else:
            okeys = decode_index(case, o.index)
        orow = rows_of(o)
    else:
        return f"object came back as {type(o).__name__}"
    if isinstance(p, (pd.Series, pd.DataFrame)):
        if case["prm"]["kind"] == "array" and rec:
            pkeys = [frozenset([("?p0", int(i))]) for i in p.index]
        else:
            pkeys = decode_index(case, p.index)
        prow = rows_of(p)
    else:
        a = np.asarray(p, dtype=float)
        if a.shape == ():
            pkeys, prow = list(okeys), [[float(a)]] * len(okeys)
        elif a.ndim == 1 and len(a) == len(okeys):
            pkeys, prow = list(okeys), [[float(v)] for v in a]
        else:
            return f"parameter came back with shape {a.shape}"
    if len(set(okeys)) != len(okeys) or len(set(pkeys)) != len(pkeys):
        return "duplicate keys in a result"
    if set(okeys) != set(pkeys):
        return f"key sets differ: object {sorted(map(sk, okeys), key=str)[:4]} parameter {sorted(map(sk, pkeys), key=str)[:4]}"
    oid = {frozenset(zip(on, k)): row for k, row in orows}
    oval = value_rows(case, "o")
    if prm[0] == "T":
        pn = prm[1]
        pid_ = {frozenset(zip(pn, k)): row for k, row in prm[2]}
        pval = value_rows(case, "p")
    po = dict(zip(pkeys, prow))
    out = {}
    for k, ro in zip(okeys, orow):
        rp = po[k]
        ko = frozenset((n, v) for n, v in k if n in on)
        ro = to_ids(ro, oid.get(ko), oval.get(ko))
        if prm[0] == "T":
            kp = frozenset((n, v) for n, v in k if n in pn)
            rp = to_ids(rp, pid_.get(kp), pval.get(kp))
        else:
            rp = [plain_id(case, v) for v in rp]
        out[k] = (ro, rp)
    return out


def unsorted_levels(x):
    """a description if a level of the MultiIndex of the returned object is not sorted, else None"""
    idx = getattr(x, "index", None)
    if not isinstance(idx, pd.MultiIndex):
        return None
    for name, lvl in zip(idx.names, idx.levels):
        try:
            if lvl.dtype == object and len({isinstance(v, str) for v in lvl}) > 1:
                continue        # labels of mixed type have no order
            ok = bool(lvl.is_monotonic_increasing)
        except Exception:
            continue
        if not ok and len(lvl) > 1:
            return (f"level {name!r} of the returned MultiIndex is held unsorted: {list(lvl)[:5]} (pandas keeps levels sorted and "
                    "derives the sortedness of an index from its codes)")
    return None


def level_by_position(idx, pos):
    """(the level's values without repetition, does some row hold no value) - by POSITION: get_level_values(0) would return
    the level NAMED 0 if there is one"""
    if isinstance(idx, pd.MultiIndex):
        return idx.levels[pos], bool((np.asarray(idx.codes[pos]) == -1).any())
    return idx, bool(idx.hasnans)


def expected_level_dtype(case, r, sym, has_nan):
    """The dtype a result level must have: that of the operand level it comes from; for a level both operands have, the
    dtype pandas gives the two operand levels put together (`Index.append`: two object levels that hold only strings become
    `str` under pandas 3, mixed labels stay object).  A level in which some result row has no value holds NaN: integers
    are then floats.  None: no demand (empty operand)."""
    src = []
    for op, x in ((case["obj"], r.obj0), (case["prm"], r.prm0)):
        if sym in op["names"] and len(x) > 0:
            src.append(level_by_position(x.index, op["names"].index(sym))[0])
        elif sym in op["names"]:
            return None
    if not src:
        return None
    dt = src[0].dtype if len(src) == 1 else src[0].append(src[1]).dtype
    if getattr(dt, "kind", "") in "iu" and has_nan:
        return np.dtype("float64")
    if getattr(dt, "kind", "") == "b" and has_nan:
        return np.dtype("object")
    return dt


def level_dtype_failure(case, r):
    """a description if a level of a returned index does not have the dtype of the operand level it comes from"""
    for which, x in (("object", r.res_obj), ("parameter", r.res_prm)):
        idx = getattr(x, "index", None)
        if idx is None:
            continue
        for pos, name in enumerate(idx.names):
            if name is None:
                continue
            lvl, has_nan = level_by_position(idx, pos)
            got = np.dtype("float64") if (getattr(lvl.dtype, "kind", "") in "iu" and has_nan) else lvl.dtype
            want = expected_level_dtype(case, r, sym_name(case, name), has_nan)
            if want is not None and got != want:
                d = (f"level {name!r} of the returned {which} has dtype {got}; the operand level(s) it comes from give "
                     f"{want} (labels {list(lvl[:3])})")
                # (eb02d01: where a result row has no value in the level, the level is rebuilt with pd.Index(filled values),
                #  which infers `str` for an object level of strings)
                narrow = want == np.dtype("object") and str(got) == "str" and has_nan
                return d + ("; some rows have no value in this level" if narrow else ""), \
                    ("level-dtype-object-with-missing-rows" if narrow else "level-dtype")
    return None


def record_entry_failure(case, r):
    """a record comes back as a frame with one column per entry that holds the ENTRY: a number as a numeric column (as for
    an all-numeric record: no object column, no 0-d arrays as cells), a string as that string"""
    o = r.res_obj
    if not (is_record(case) and isinstance(o, pd.DataFrame)):
        return None
    entries = list(r.obj0.array) if hasattr(r.obj0, "array") else list(r.obj0)
    if o.shape[1] != len(entries):
        return None
    for j, e in enumerate(entries):
        col = o.iloc[:, j]
        if isinstance(e, str):
            if not all(isinstance(v, str) and v == e for v in col):
                return f"the entry {r.obj0.index[j]!r} = {e!r} came back as {list(col)[:2]}"
            continue
        if col.dtype.kind not in "fiu":
            return (f"the numeric entry {r.obj0.index[j]!r} = {e!r} ({type(e).__name__}) came back as a column of dtype {col.dtype} "
                    f"holding {[type(v).__name__ for v in col[:2]]}: {list(col)[:2]}")
    return None


def astuple(x):
    return x if isinstance(x, tuple) else (x,)


def sk(key):
    """a key (frozenset of (level, code)) as a sorted list, robust against codes that could not be decoded"""
    return sorted(key, key=lambda t: (str(t[0]), str(t[1])))


def fmt(v):
    if isinstance(v, str):
        return v
    if v != v:
        return "nan"
    if v == int(v):
        return str(int(v))
    return repr(v)


def show_table(d, which):
    items = []
    for k, rows in d.items():
        row = rows[which]
        ks = ",".join(f"{n}={'nan' if c is None else c}" for n, c in sk(k))
        items.append(f"{ks}>{'nan' if row is None else ','.join(fmt(v) for v in row)}")
    return " ".join(sorted(items))


def result_names(case, r):
    o = r.res_obj
    if is_record(case) and isinstance(o, pd.Series):
        return ""
    return ",".join("-" if n is None else str(sym_name(case, n)) for n in o.index.names)


# ------------------------------------------------------------------ protocol
def tok_table(names, rows):
    ncols = len(rows[0][1]) if rows else 0
    t = ["T", str(len(names))] + [n for n in names] + [str(ncols), str(len(rows))]
    for k, _ in rows:
        t += [str(c) for c in k]
    for _, row in rows:
        t += [fmt(v) for v in row]
    return t


def spec_tokens(case):
    (on, orows), prm = tables(case)
    t = tok_table(on, orows)
    if prm[0] == "S":
        t += ["S", fmt(prm[1])]
    elif prm[0] == "A":
        t += ["A", str(len(prm[1]))] + [fmt(v) for v in prm[1]]
    else:
        t += tok_table(prm[1], prm[2])
    return " ".join(t)


# ------------------------------------------------------------------ generators
NAMES = ["x", "y", "z", "w", "u"]
LTYPES = ["int", "int", "rev", "str", "float", "interval", "dt", "cat", "obj", "mixed"]


def gen_names(rng, lay):
    """(obj names, prm names) for a layout class; None = unnamed level."""
    pool = NAMES[:]
    rng.shuffle(pool)
    if lay == "equal":
        n = rng.randint(1, 3)
        return pool[:n], pool[:n]
    if lay == "equal-permuted":
        n = rng.randint(2, 3)
        a = pool[:n]
        b = a[:]
        while b == a:
            rng.shuffle(b)
        return a, b
    if lay == "disjoint":
        a = pool[:rng.randint(1, 3)]
        b = pool[3:3 + rng.randint(1, 2)] + ([NAMES[0] + "2"] if rng.random() < 0.3 else [])
        return a, b[:3]
    if lay in ("prm-contained", "obj-contained"):
        n = rng.randint(2, 3)
        big = pool[:n]
        m = rng.randint(1, n - 1)
        small = rng.sample(big, m)
        if rng.random() < 0.5:
            small = [x for x in big if x in small]      # same relative order
        return (big, small) if lay == "prm-contained" else (small, big)
    if lay == "overlapping":
        ns = rng.randint(1, 2)
        shared = pool[:ns]
        oa = pool[2:2 + rng.randint(1, 3 - ns)]
        pa = pool[4:5] + ([NAMES[1] + "2"] if ns == 1 and rng.random() < 0.4 else [])
        a = shared + oa
        b = shared + pa
        rng.shuffle(a)
        rng.shuffle(b)
        return a, b
    raise ValueError(lay)


def add_unnamed(rng, names, other):
    """Replace some non-shared names by None (an unnamed level can never be shared)."""
    out = list(names)
    for i, n in enumerate(out):
        if n not in other and rng.random() < 0.5:
            out[i] = None
    return out


def distinct_rows(rng, n, width, alpha):
    """n distinct code tuples of the given width (fewer if the alphabet is too small)."""
    if width == 0:
        return [()]
    univ = list(itertools.product(range(alpha), repeat=width))
    rng.shuffle(univ)
    rows = univ[:n]
    if rng.random() < 0.3:
        rows.sort()
    return rows


def gen_keys(rng, on, pn, present, size=None):
    """Key lists for both operands.  present=True: every shared sub-key occurs in both operands."""
    sh = [n for n in on if n is not None and n in pn]
    no, np_ = (size or (rng.randint(1, 6), rng.randint(1, 6)))
    if rng.random() < 0.35:
        np_ = no
    alpha = rng.choice([2, 3, 3, 4])
    if not sh:
        ok = distinct_rows(rng, no, len(on), max(alpha, 2 if len(on) > 1 else no))
        pk = distinct_rows(rng, np_, len(pn), max(alpha, 2 if len(pn) > 1 else np_))
        return [list(k) for k in ok], [list(k) for k in pk]
    nsub = rng.randint(1, min(no, np_, 4)) if present else rng.randint(1, 4)
    subs = distinct_rows(rng, nsub, len(sh), max(alpha, nsub if len(sh) == 1 else 2))
    nsub = len(subs)

    def side(names, n, subs_here):
        rest = [i for i, nm in enumerate(names) if nm not in sh or nm is None]
        rows, seen = [], set()
        tries = 0
        n = max(n, len(subs_here)) if present else n
        while len(rows) < n and tries < 200:
            tries += 1
            s = subs_here[len(rows)] if len(rows) < len(subs_here) else rng.choice(subs_here)
            row = [None] * len(names)
            for nm, c in zip(sh, s):
                row[names.index(nm)] = c
            for i in rest:
                row[i] = rng.randrange(max(alpha, 2))
            if tuple(row) in seen:
                if not rest:
                    break
                continue
            seen.add(tuple(row))
            rows.append(row)
        rng.shuffle(rows)
        if rng.random() < 0.3:
            rows.sort()
        return rows
    if present:
        return side(on, no, subs), side(pn, np_, subs)
    extra = distinct_rows(rng, nsub + 2, len(sh), max(alpha, nsub + 2 if len(sh) == 1 else 2))
    so = [s for s in extra if rng.random() < 0.7] or subs
    sp = [s for s in extra if rng.random() < 0.7] or subs
    return side(on, no, so[:no]), side(pn, np_, sp[:np_])


LAYOUTS = ["equal", "equal-permuted", "disjoint", "prm-contained", "obj-contained", "overlapping"]


def gen_table_case(rng, lay=None, present=None, size=None):
    lay = lay or rng.choice(LAYOUTS + ["overlapping", "overlapping"])
    on, pn = gen_names(rng, lay)
    if rng.random() < 0.3:
        on2 = add_unnamed(rng, on, pn)
        pn = add_unnamed(rng, pn, on)
        on = on2
    if present is None:
        present = True if lay == "overlapping" else rng.random() < 0.6
    ok, pk = gen_keys(rng, on, pn, present, size)
    okind = rng.choice(["series", "frame"])
    pkind = rng.choice(["series", "frame"])
    labels = {n: rng.choice(LTYPES) for n in sorted(n for n in set(on) | set(pn) if n is not None)}      # (sorted: same cases for a seed in every process)
    case = {"obj": {"kind": okind, "names": on, "keys": ok, "ncols": 1 if okind == "series" else rng.randint(1, 3)},
            "prm": {"kind": pkind, "names": pn, "keys": pk, "ncols": 1 if pkind == "series" else rng.randint(1, 2)},
            "labels": labels}
    if rng.random() < 0.35:
        case["name_types"] = gen_name_types(rng, sorted(labels))
    decorate(rng, case)
    return case


CELL_MODES = ["int", "frac", "frac", "i64", "nan1"]


def decorate(rng, case):
    """value kinds of the cells, one-level MultiIndex operands, plain codes in unnamed levels"""
    case["cells"] = rng.choice(CELL_MODES)
    for side in ("obj", "prm"):
        op = case[side]
        if "names" in op and len(op["names"]) == 1 and rng.random() < 0.2:
            op["mi1"] = True
    if not case.get("share_index") and rng.random() < 0.25 and \
            any(None in case[sd].get("names", []) for sd in ("obj", "prm")):
        case["anon_plain"] = True


def gen_name_types(rng, named):
    """Real pandas names for some of the symbolic level names: falsy-but-not-None names (0, '', 0.0) and other
    non-string names.  At most one name of the 0 / 0.0 family (they are equal as names)."""
    out = {}
    pool = ["zero", "empty", "float0", "tuple", "float", "zero", "empty"]     # (bytes names: numpy turns a mixed
    # list of level names into a bytes array inside pandas' to_frame()[names]; not a pyLife matter, left out)
    for nm in named:
        if rng.random() < 0.6:
            t = rng.choice(pool)
            if t in ("zero", "float0") and any(v in ("zero", "float0") for v in out.values()):
                continue
            if t == "empty" and "empty" in out.values():
                continue
            out[nm] = t
    return out


def gen_scalar(rng):
    return {"kind": "scalar", "v": rng.randint(-5, 5), "st": rng.choice(["py", "py", "np", "0d"])}


def gen_nonpandas_case(rng):
    """Series / DataFrame object against a scalar or an array."""
    okind = rng.choice(["series", "frame"])
    n = rng.randint(1, 6)
    cells = rng.choice(CELL_MODES)
    if okind == "series":
        # a record (e.g. one Woehler curve): entries mostly strings, but also ints / floats / tuples and several levels
        nl = rng.choice([1, 1, 1, 2, 3])
        names = rng.sample(NAMES, nl)
        if rng.random() < 0.5:
            names = add_unnamed(rng, names, [])
        keys = [list(k) for k in distinct_rows(rng, n, nl, 3 if nl > 1 else max(n, 2))] if nl > 1 else [[i] for i in range(n)]
        obj = {"kind": "series", "names": names, "keys": keys, "ncols": 1}
        if nl == 1 and rng.random() < 0.15:
            obj["mi1"] = True
        labels = {nm: rng.choice(LTYPES) for nm in names if nm is not None}
        case = {"obj": obj, "labels": labels, "cells": cells, "rec_labels": rng.choice(["str", "str", "int", "float", "tuple"])}
        if n > 1 and rng.random() < 0.15:
            case["rec_dup"] = True
        if n > 1 and rng.random() < 0.3:       # a name beside the numbers; 0-d arrays as written by the Woehler accessor
            case["rec_str"] = True
            if rng.random() < 0.6:
                case["rec_0d"] = True
        if rng.random() < 0.4:
            case["prm"] = gen_scalar(rng)
        else:
            m = rng.randint(1, 6)
            case["prm"] = {"kind": "array", "vals": [rng.randint(-9, 9) for _ in range(m)], "np": rng.random() < 0.5}
        return case
    nl = rng.randint(1, 3)
    names = rng.sample(NAMES, nl)
    if rng.random() < 0.3:
        names = add_unnamed(rng, names, [])
    keys = [list(k) for k in distinct_rows(rng, n, nl, 3 if nl > 1 else max(n, 2))]
    obj = {"kind": "frame", "names": names, "keys": keys, "ncols": rng.randint(1, 3)}
    if nl == 1 and rng.random() < 0.2:
        obj["mi1"] = True
    labels = {nm: rng.choice(LTYPES) for nm in names if nm is not None}
    if rng.random() < 0.4:
        return {"obj": obj, "prm": gen_scalar(rng), "labels": labels, "cells": cells}
    m = rng.choice([len(keys), len(keys), len(keys), 1, rng.randint(1, 7)])
    return {"obj": obj, "prm": {"kind": "array", "vals": [rng.randint(-9, 9) for _ in range(m)], "np": rng.random() < 0.5},
            "labels": labels, "cells": cells}


def gen_record_case(rng):
    """Series with one unnamed level (a record, e.g. one Woehler curve) against a pandas parameter."""
    n = rng.randint(1, 5)
    obj = {"kind": "series", "names": [None], "keys": [[i] for i in range(n)], "ncols": 1}
    nl = rng.randint(1, 3)
    names = rng.sample(NAMES, nl)
    if rng.random() < 0.3:
        names = add_unnamed(rng, names, [])
    m = rng.randint(1, 6)
    keys = [list(k) for k in distinct_rows(rng, m, nl, 3 if nl > 1 else max(m, 2))]
    pkind = rng.choice(["series", "frame"])
    case = {"obj": obj, "prm": {"kind": pkind, "names": names, "keys": keys, "ncols": 1 if pkind == "series" else rng.randint(1, 2)},
            "labels": {nm: rng.choice(LTYPES) for nm in names if nm is not None},
            "rec_labels": rng.choice(["str", "str", "int", "float", "tuple"]), "cells": rng.choice(CELL_MODES)}
    if nl == 1 and rng.random() < 0.2:
        case["prm"]["mi1"] = True
    return case


def gen_shared_index_case(rng, names=None, keys=None):
    """Both operands built from ONE Index object (same level names, same keys), mostly with unnamed levels."""
    if names is None:
        nl = rng.randint(1, 3)
        names = rng.sample(NAMES, nl)
        for i in range(nl):
            if rng.random() < 0.6:
                names[i] = None
    nl = len(names)
    if keys is None:
        n = rng.randint(1, 5)
        keys = [list(k) for k in distinct_rows(rng, n, nl, 3 if nl > 1 else max(n, 2))]
    okind = "frame" if names == [None] else rng.choice(["series", "frame"])   # ([None] Series = record path)
    pkind = rng.choice(["series", "frame"])
    return {"obj": {"kind": okind, "names": list(names), "keys": keys, "ncols": 1 if okind == "series" else rng.randint(1, 2)},
            "prm": {"kind": pkind, "names": list(names), "keys": [list(k) for k in keys], "ncols": 1 if pkind == "series" else rng.randint(1, 2)},
            "labels": {nm: rng.choice(LTYPES) for nm in names if nm is not None}, "share_index": True,
            "cells": rng.choice(CELL_MODES)}


SHARED_LAYOUTS = [[None], [None, None], [None, "z"], ["z", None], ["x"], ["x", "z"], [None, "z", None]]


EXH_LAYOUTS = [
    (["x"], ["x"]), (["x"], ["y"]), (["x"], [None]), ([None], ["x"]),
    (["x", "z"], ["z"]), (["z"], ["x", "z"]), (["z"], ["z", "x"]),
    (["x", "z"], ["x", "z"]), (["x", "z"], ["z", "x"]),
    (["x", "z"], ["y", "z"]), (["x", "z"], ["z", "y"]), (["z", "x"], ["y", "z"]),
]


def ordered_key_lists(width, alpha, maxn):
    univ = list(itertools.product(range(alpha), repeat=width))
    for n in range(1, maxn + 1):
        for rows in itertools.permutations(univ, n):
            yield [list(r) for r in rows]


def exhaustive_cases(maxn, alpha=2):
    """All ordered key lists (distinct keys) up to maxn rows over `alpha` codes for a fixed list of level-name
    layouts; overlapping layouts restricted to the quantifier (every shared key present in both)."""
    for on, pn in EXH_LAYOUTS:
        kinds = ("frame", "series") if on != [None] else ("frame",)
        for ok in ordered_key_lists(len(on), alpha, maxn):
            for pk in ordered_key_lists(len(pn), alpha, maxn):
                okind = kinds[(len(ok) + len(pk)) % len(kinds)]
                case = {"obj": {"kind": okind, "names": on, "keys": ok, "ncols": 1},
                        "prm": {"kind": "series", "names": pn, "keys": pk, "ncols": 1}, "labels": {}}
                if layout(case) == "overlapping" and not shared_keys_present(case):
                    continue
                yield case


# ------------------------------------------------------------------ the finding classes
def recoded(case):
    """The integer re-coding of `_IndexLevelCache`: per level name the position in the list of unique values,
    object's values first.  Returns (object code rows, parameter code rows) or None for non-table cases."""
    o, p = case["obj"], case["prm"]
    if p["kind"] in ("scalar", "array") or is_record(case):
        return None
    levels = {}
    on = [lname("o", o["names"], i) for i in range(len(o["names"]))]
    pn = [lname("p", p["names"], i) for i in range(len(p["names"]))]
    for names, keys in ((on, o["keys"]), (pn, p["keys"])):
        for i, nm in enumerate(names):
            lv = levels.setdefault(nm, [])
            for k in keys:
                if k[i] not in lv:
                    lv.append(k[i])
    oc = [[levels[nm].index(k[i]) for i, nm in enumerate(on)] for k in o["keys"]]
    pc = [[levels[nm].index(k[i]) for i, nm in enumerate(pn)] for k in p["keys"]]
    return on, oc, pn, pc


def align_shortcut(case):
    """F-6 trigger: level names differ but the re-coded indices have equal values position by position, so
    that pandas' `align` takes the operands for aligned already."""
    rc = recoded(case)
    if rc is None:
        return False
    on, oc, pn, pc = rc
    return on != pn and bool(set(on) & set(pn)) and oc == pc


def contained_multi_missing(case):
    """One name set strictly contained in the other, >= 2 shared levels, and the operand with fewer levels
    holds a shared-level key the other one has not."""
    lay = layout(case)
    if lay not in ("prm-contained", "obj-contained"):
        return False
    (on, orows), prm = tables(case)
    pn, prows = prm[1], prm[2]
    sh = [n for n in on if n in pn]
    if len(sh) < 2:
        return False
    a = {tuple(k[on.index(n)] for n in sh) for k, _ in orows}
    b = {tuple(k[pn.index(n)] for n in sh) for k, _ in prows}
    return bool(b - a) if lay == "prm-contained" else bool(a - b)


def flat_vs_multi(own, other):
    """pandas joins a one-level index with a MultiIndex that has this level 'on the level': partner-less labels of
    the one-level operand are left out (model: dropsUnmatched)"""
    return len(own) == 1 and len(other) >= 2 and own[0] in other


def nan_level_rows(case):
    """Some partner-less row is kept by the outer join although its operand lacks a level of the result: its key is
    NaN there.  On the tree before /repo commit 83030b7 `restore_real_index` raised IndexError on exactly these pairs."""
    (on, orows), prm = tables(case)
    if prm[0] != "T":
        return False
    pn, prows = prm[1], prm[2]
    sh = [n for n in on if n in pn]
    if not sh:
        return False
    a = {tuple(k[on.index(n)] for n in sh) for k, _ in orows}
    b = {tuple(k[pn.index(n)] for n in sh) for k, _ in prows}
    obj_row = bool(a - b) and not set(pn) <= set(on) and not flat_vs_multi(on, pn)
    prm_row = bool(b - a) and not set(on) <= set(pn) and not flat_vs_multi(pn, on)
    return obj_row or prm_row


def record_entries_not_strings(case):
    """A Series object (a record) whose index entries are not all strings, against an array"""
    o = case["obj"]
    if not is_record(case) or case["prm"]["kind"] != "array":
        return False
    return len(o["names"]) > 1 or bool(o.get("mi1")) or case.get("rec_labels", "str") != "str"


def one_level_multiindex(case):
    """An operand with a MultiIndex of ONE level on the table path"""
    if case["prm"]["kind"] not in ("series", "frame"):
        return False
    if is_record(case):
        return False
    return bool(case["obj"].get("mi1") or case["prm"].get("mi1"))


# Findings whose repair is modelled as applied.  class -> (predicate on the case, exception type, start of the
# message): on a tree without the repair the call raises exactly that; the correspondence tolerates exactly this answer
# for exactly these cases while the class is OPEN in KNOWN_FINDINGS.jsonl, the oracle reports the class.  With the repair
# committed (status fixed) nothing is tolerated any more.  All three repairs are committed today (record-nonstring-entries:
# bc2cb7f, one-level-multiindex: 190635a, contained-multi-shared-missing-key: 83030b7), no C13 class is open: the tolerance
# is inert.  The class contained-multi-shared-missing-key uses the broader predicate `nan_level_rows`;
# `contained_multi_missing()` above is not used.  A second tolerance of the same kind sits in C13.compare: the defective
# answer of bc2cb7f for a duplicated record label (`record_dup_defect` below) is accepted only while the class
# record-duplicate-labels-overwritten is open; it is fixed (/repo 1eb3e33), so that tolerance is inert as well.
PENDING = {
    "record-nonstring-entries": (record_entries_not_strings, "TypeError", ("keywords must be strings",)),
    "one-level-multiindex": (one_level_multiindex, "KeyError", ("None",)),
    # (indexing an Index with a float array that holds NaN / with an all-NaN array)
    "contained-multi-shared-missing-key": (nan_level_rows, "IndexError", ("only integers, slices", "arrays used as indices must be of integer")),
}


def pending_class(case, r):
    """the PENDING class whose mechanism explains that the call raised, or None"""
    if not r.error:
        return None
    for klass, (pred, etype, msg) in PENDING.items():
        if r.error == etype and r.errmsg.startswith(msg) and pred(case):   # (msg: tuple of admissible starts)
            return klass
    return None


def record_dup_defect(case, r):
    """The defective answer of bc2cb7f for a record with a duplicated entry label against an array: `df[label] = value`
    assigns to ALL columns of that label, so the first of the duplicated entries carries the value of the last.  True iff
    the returned frame is exactly that."""
    if not (case.get("rec_dup") and is_record(case) and case["prm"]["kind"] == "array") or r.error:
        return False
    o = r.res_obj
    try:
        vals = list(np.asarray(r.obj0, dtype=float))
        np.asarray(o, dtype=float)
    except (ValueError, TypeError):       # a record with a string entry: judged by the other clauses
        return False
    if isinstance(o, pd.DataFrame) and o.shape[1] > len(vals) and isinstance(r.obj0.index[0], tuple) and \
            set(o.columns) == set(r.obj0.index) and sum(1 for c in o.columns if c != r.obj0.index[0]) == len(vals) - 2:
        return True         # (tuple labels: the assignment to the duplicated label adds further columns of that label)
    if not isinstance(o, pd.DataFrame) or len(vals) < 2 or o.shape[1] != len(vals):
        return False
    vals[0] = vals[1]
    got = np.asarray(o, dtype=float)
    return bool(len(got) == len(case["prm"]["vals"]) and all(same_value(a, b) for row in got for a, b in zip(row, vals)))


REPAIRED_INT_LEVEL_NAMES = True


def int_name_not_first(case):
    """A level whose NAME is the number 0 / 0.0 and which is not the first level of the object, or not the first
    level of the parameter (or only the parameter has it): pandas takes such a name for the level NUMBER 0 when it
    joins (`MultiIndex(names=['x', 0]).join(Index(name='x'))` joins on the level named 0)."""
    # The defect this predicate singled out (finding int-level-name-as-position) is repaired in /repo (20f8491: every
    # level name that is not a string gets a temporary unique string).  Such layouts are ordinary cases again: they go
    # through the correspondence and the normal classification.  The predicate is kept for the record.
    if REPAIRED_INT_LEVEL_NAMES:
        return False
    nt = case.get("name_types", {})
    zeros = [n for n, t in nt.items() if t in ("zero", "float0")]
    o, p = case["obj"], case["prm"]
    if "names" not in p:
        return False
    for z in zeros:
        opos = o["names"].index(z) if z in o["names"] else None
        ppos = p["names"].index(z) if z in p["names"] else None
        if opos is None and ppos is None:
            continue
        if not (opos == 0 and ppos in (0, None)) and not (is_record(case) and ppos == 0):
            return True
    return False


def same_data(before, after):
    try:
        return bool(np.array_equal(np.asarray(before, dtype=float), np.asarray(after, dtype=float), equal_nan=True))
    except (ValueError, TypeError):       # entries that are not numbers (a record with a name): element by element, types included
        b, a = np.asarray(before, dtype=object).ravel(), np.asarray(after, dtype=object).ravel()
        return len(a) == len(b) and all(type(x) is type(y) and same_value(x, y) for x, y in zip(b, a))


def unchanged(before, after):
    """values, index (labels, order) and level names of an operand are what they were"""
    if isinstance(before, (pd.Series, pd.DataFrame)):
        if type(before) is not type(after):
            return "type"
        if list(before.index.names) != list(after.index.names):
            return f"level names {list(before.index.names)} -> {list(after.index.names)}"
        if before.index.nlevels != after.index.nlevels or list(before.index) != list(after.index):
            return "index"
        if isinstance(before, pd.DataFrame) and list(before.columns) != list(after.columns):
            return "columns"
        if not same_data(before, after):
            return "values"
        if isinstance(before, pd.DataFrame) and list(before.dtypes) != list(after.dtypes) or \
                isinstance(before, pd.Series) and before.dtype != after.dtype:
            return "dtype"
        return None
    if not np.array_equal(np.asarray(before, dtype=float), np.asarray(after, dtype=float), equal_nan=True):
        return "values"
    return None


# ------------------------------------------------------------------ the consumer: allowable cycles
def woehler_case(rng):
    return {"kind": "woehler", "layout": rng.choice(["disjoint", "disjoint", "equal", "contained", "overlapping",
                                                     "record-series", "record-array", "record-scalar",
                                                     "frame-scalar", "frame-array", "frame-pf-array", "two-shared-swapped"]),
            "n_e": rng.randint(1, 5), "n_s": rng.randint(1, 5), "seed": rng.randrange(1 << 30),
            "k2": rng.choice(["none", "inf", "value"]), "shuffle": rng.random() < 0.5,
            "op": rng.choice(["cycles", "cycles", "load"]), "pf": rng.choice([0.5, 0.1, 0.9, 0.025]),
            "scatter": rng.choice(["none", "TN", "TS", "both", "TN"]),
            "elem_name": rng.choice(["str", "str", "zero", "empty", "tuple"]), "name_entry": rng.random() < 0.35}


COLLECTIVE_RAISE_VARIANTS = [
    # (collective index, operand index): layouts with repeated labels on which pandas' join raises
    (lambda: pd.Index([10, 10, 20], name="element_id"), lambda: pd.Index([1, 2], name="scenario")),
    (lambda: pd.MultiIndex.from_tuples([(10, 0), (10, 1), (20, 1)], names=["element_id", "cycle"]),
     lambda: pd.Index([10, 10, 20], name="element_id")),
    (lambda: pd.Index([0, 0, 1]), lambda: pd.Index([1, 2], name="scenario")),
    # and one that does not raise
    (lambda: pd.Index([10, 20, 30], name="element_id"), lambda: pd.Index([1, 2], name="scenario")),
]


def collective_raise_oracle(case):
    """scale / shift of a load collective (signal accessors that call self.broadcast()).  Whatever the call does -
    also when the alignment raises inside the Broadcaster (repeated index labels) - the caller's collective and
    operand are what they were (deep copies before); and when it returns, every row of the result is the
    collective's row scaled / shifted with the operand's value for that row's key.
    Optional field "factor": "series" (default; the variant's index) | "scalar" | "array" (positional)."""
    import pylife.stress.collective  # noqa: F401
    ci, fi = COLLECTIVE_RAISE_VARIANTS[case["variant"]]
    ci, fi = ci(), fi()
    lc = pd.DataFrame({"from": np.arange(len(ci), dtype=float) * 1.1 + 0.3, "to": np.arange(len(ci), dtype=float) * 0.7 + 2.0}, index=ci)
    fkind = case.get("factor", "series")
    if fkind == "series":
        f = pd.Series(np.arange(len(fi), dtype=float) * 0.9 + 2.0, index=fi)
    elif fkind == "scalar":
        f = 2.5
    else:
        f = np.arange(len(ci), dtype=float) * 0.9 + 2.0
    lc0, f0 = copy.deepcopy(lc), copy.deepcopy(f)
    raised = None
    res = None
    try:
        with warnings.catch_warnings():
            warnings.simplefilter("ignore")
            res = getattr(lc.load_collective, case["op"])(f).to_pandas()
    except Exception as e:
        raised = type(e).__name__
    for name, b, a in (("collective", lc0, lc), ("operand", f0, f)):
        u = unchanged(b, a)
        if u:
            if name == "collective" and fkind != "series" and u == "values" and res is not None and \
                    np.array_equal(np.asarray(a, dtype=float), np.asarray(res, dtype=float)):
                return (f"load_collective.{case['op']}({fkind}) wrote the result into the caller's collective: 'from' was "
                        f"{list(b['from'])[:3]}, is {list(a['from'])[:3]} (the Broadcaster returns the signal's own object for a "
                        "scalar / array operand and the accessor assigns to it)", "collective-scale-shift-writes-into-collective")
            return (f"load_collective.{case['op']}: the caller's {name} was modified ({u}): index now {list(a.index)[:4]} "
                    f"names {list(a.index.names)}" + (f"; the call raised {raised}" if raised else ""),
                    "inputs-modified-after-raise" if raised else "inputs-modified")
    if raised or res is None:
        return None
    # the values, key by key
    fn = (lambda x, y: x * y) if case["op"] == "scale" else (lambda x, y: x + y)
    want = {}
    if fkind == "series":
        shared = [n for n in f0.index.names if n in lc0.index.names]
        if shared:
            return None     # (only the disjoint variant returns; repeated labels are the raising variants)
        for ko, row in zip(lc0.index, lc0.to_numpy()):
            for kp, v in zip(f0.index, f0.to_numpy()):
                want[astuple(ko) + astuple(kp)] = (fn(row[0], v), fn(row[1], v))
    else:
        vals = [f0] * len(lc0) if fkind == "scalar" else list(f0)
        for ko, row, v in zip(lc0.index, lc0.to_numpy(), vals):
            want[astuple(ko)] = (fn(row[0], v), fn(row[1], v))
    got = {astuple(k): (float(r[0]), float(r[1])) for k, r in zip(res.index, res[["from", "to"]].to_numpy())}
    if list(got) != list(want):
        return (f"load_collective.{case['op']}({fkind}): result keys {list(got)[:5]} != expected {list(want)[:5]}", "consumer-keys")
    for k in want:
        if not (core.close(got[k][0], want[k][0], rtol=1e-15) and core.close(got[k][1], want[k][1], rtol=1e-15)):
            return (f"load_collective.{case['op']}({fkind}) at {k}: (from, to) = {got[k]} != {want[k]}", "consumer-value")
    return None


class ScalarPathError(Exception):
    pass


def haigh_frame(case):
    import random
    r = random.Random(case["seed"])
    n = case["n_e"]
    labels = r.sample(range(10), n)
    Ms = [r.choice([0.1, 0.2, 0.3, 0.45]) for _ in range(n)]
    M2s = [r.choice([0.02, 0.05, 0.1, 0.15]) for _ in range(n)]
    cols = {"M": Ms, "M2": M2s} if case.get("m2", True) else {"M": Ms}
    return r, labels, pd.DataFrame(cols, index=pd.Index(labels, name="element"))


def haigh_oracle(case):
    """meanstress.py: the FKM-Goodman Haigh diagram of a DataFrame of (M, M2) per element (built on a cross-join
    broadcast of the element index against the R intervals) == the diagram of each element alone == the definition
    (0 beyond R = 1, M up to R = 0, M2 - default M / 3 - between); the caller's frame is what it was."""
    from pylife.strength.meanstress import HaighDiagram
    r, labels, df = haigh_frame(case)
    n = len(labels)
    df0 = df.copy(deep=True)
    try:
        with warnings.catch_warnings():
            warnings.simplefilter("ignore")
            h = HaighDiagram.fkm_goodman(df).to_pandas()
            singles = {e: HaighDiagram.fkm_goodman(df0.loc[e].copy()).to_pandas() for e in labels}
    except Exception as e:
        return (f"HaighDiagram.fkm_goodman raised {type(e).__name__}: {str(e)[:100]}", "consumer-raises")
    if list(h.index.names) != ["element", "R"] or len(h) != 3 * n:
        return (f"Haigh diagram of {n} elements: levels {list(h.index.names)}, {len(h)} rows", "consumer-keys")
    if [k[0] for k in h.index] != [e for e in labels for _ in range(3)]:
        return (f"Haigh diagram of elements {labels}: rows are not element-major {[k[0] for k in h.index][:6]}", "consumer-keys")
    for (e, iv), v in h.items():
        if not core.close(float(singles[e][iv]), float(v), rtol=1e-15):
            return (f"Haigh diagram at element {e}, R {iv}: {v} != single-element result {singles[e][iv]}", "consumer-value")
        M = float(df0.loc[e, "M"])
        want = 0.0 if iv.left == 1.0 else M if iv.right == 0.0 else (float(df0.loc[e, "M2"]) if "M2" in df0 else M / 3.0)
        if not core.close(want, float(v), rtol=1e-15):
            return (f"Haigh diagram at element {e}, R {iv}: {v} != {want} (M {M}, M2 {'given' if 'M2' in df0 else 'default M/3'})", "consumer-value")
    u = unchanged(df0, df)
    if u:
        return (f"HaighDiagram.fkm_goodman modified the frame it was given ({u}): columns now {list(df.columns)}",
                "haigh-callers-frame-modified")
    return None


_SCALAR_GOODMAN = {}


def scalar_goodman_range(amp, mean, M, M2, R_goal):
    """the transformed RANGE of one cycle, computed on its own by the scalar function of meanstress.py"""
    import pylife.strength.meanstress as MS
    key = (amp, mean, M, M2, R_goal)
    v = _SCALAR_GOODMAN.get(key)
    if v is None:
        with warnings.catch_warnings():
            warnings.simplefilter("ignore")
            v = 2.0 * float(MS.fkm_goodman(np.array([amp]), np.array([mean]), M, M2, R_goal)[0])
        if len(_SCALAR_GOODMAN) > 200000:
            _SCALAR_GOODMAN.clear()
        _SCALAR_GOODMAN[key] = v
    return v


MATRIX_HAIGH = ("one", "per-element", "extra-level", "per-element-lacking", "per-element-exceeding")
MATRIX_ROWS = ("sorted", "shuffled", "descending", "subset-shuffled")


def matrix_case(rng):
    elem = rng.random() < 0.7
    haigh = rng.choice(MATRIX_HAIGH if elem else ("one", "extra-level", "extra-level"))
    return {"kind": "matrix", "form": rng.choice(["ft", "ft", "rm"]), "elem": elem, "n_el": rng.randint(1, 3),
            "nb": rng.randint(2, 3), "order": rng.randrange(6), "rows": rng.choice(MATRIX_ROWS), "haigh": haigh,
            "n_h": rng.randint(1, 3), "R_goal": rng.choice([-1.0, -1.0, 0.0, 0.5]), "seed": rng.randrange(1 << 30)}


def build_matrix(case):
    """(matrix in the case's level order and row order, the same matrix with rows sorted, Haigh parameter)"""
    import random
    r = random.Random(case["seed"])
    nb = case["nb"]
    if case["form"] == "ft":
        a = pd.IntervalIndex.from_breaks(np.linspace(-1.0, 1.0, nb + 1), closed="left", name="from")
        b = pd.IntervalIndex.from_breaks(np.linspace(0.05, 2.05, nb + 1), closed="left", name="to")
    else:
        a = pd.IntervalIndex.from_breaks(np.linspace(0.0, 3.0, nb + 1), name="range")
        b = pd.IntervalIndex.from_breaks(np.linspace(-1.0, 2.0, nb + 1), name="mean")
    levels = [a, b]
    elements = None
    if case["elem"]:
        elements = r.sample([1, 2, 3, 5, 8], case["n_el"])      # labels neither sorted nor positions
        levels.append(pd.Index(elements, name="element_id"))
    idx = pd.MultiIndex.from_product(levels)
    mat = pd.Series([float(r.randint(1, 9)) for _ in range(len(idx))], index=idx, name="cycles")
    names = list(idx.names)
    perms = list(itertools.permutations(names))
    order = list(perms[case["order"] % len(perms)])
    mat = mat.reorder_levels(order)
    ordered = mat.sort_index()
    rows = case["rows"]
    if rows == "sorted":
        out = ordered
    elif rows == "descending":
        out = mat.sort_index(level=names[1], ascending=False, sort_remaining=False)
    else:
        pos = list(range(len(mat)))
        r.shuffle(pos)
        if rows == "subset-shuffled":
            pos = pos[: max(1, (2 * len(pos)) // 3)]
        out = mat.iloc[pos]
        ordered = out.sort_index()
    Ms = [0.52, 0.31, 0.13, 0.4]
    M2s = [0.11, 0.07, 0.03, 0.2]
    if case["haigh"] == "one":
        i = r.randrange(4)
        haigh = pd.Series({"M": Ms[i], "M2": M2s[i]})
    elif case["haigh"].startswith("per-element"):
        # (plain: every element of the matrix has a diagram row and vice versa: "every shared-level key present in both";
        #  -lacking: the first element of the matrix has no diagram; -exceeding: a diagram for an element 99 the matrix has not)
        order_h = [e for e in elements if e in set(out.index.get_level_values("element_id"))]
        if case["haigh"] == "per-element-lacking":
            order_h = order_h[1:] or [99]
        if case["haigh"] == "per-element-exceeding":
            order_h = order_h + [99]
        r.shuffle(order_h)
        picks = [r.randrange(4) for _ in order_h]
        haigh = pd.DataFrame({"M": [Ms[i] for i in picks], "M2": [M2s[i] for i in picks]}, index=pd.Index(order_h, name="element_id"))
    else:       # a level of the diagram that the matrix has not
        labs = r.sample(["steel", "alu", "cast"], case["n_h"])
        picks = [r.randrange(4) for _ in labs]
        haigh = pd.DataFrame({"M": [Ms[i] for i in picks], "M2": [M2s[i] for i in picks]}, index=pd.Index(labs, name="material"))
    return out.copy(), ordered.copy(), haigh


def matrix_oracle(case):
    """series.meanstress_transform.fkm_goodman (meanstress.py MeanstressTransformMatrix, built on HaighDiagram.transform
    and a second Broadcaster call that aligns the transformed ranges with the matrix): the cycles in every class of the
    result are the cycles of exactly those matrix entries whose OWN transformed range - computed one entry at a time by the
    scalar function pylife.strength.meanstress.fkm_goodman - lies in that class; the result does not depend on the row
    order of the matrix; matrix and Haigh parameter are untouched."""
    import pylife.strength.meanstress  # noqa: F401
    mat, ordered, haigh = build_matrix(case)
    R_goal = case["R_goal"]
    what = (f"meanstress_transform.fkm_goodman ({case['form']} matrix, levels {list(mat.index.names)}, rows {case['rows']}, "
            f"Haigh {case['haigh']}, R_goal {R_goal})")
    mat0, haigh0 = mat.copy(deep=True), haigh.copy(deep=True)
    raised = None
    try:
        with warnings.catch_warnings():
            warnings.simplefilter("ignore")
            res = mat.meanstress_transform.fkm_goodman(haigh, R_goal).to_pandas()
    except Exception as e:
        raised = e
    for name, b, a in (("matrix", mat0, mat), ("Haigh parameter", haigh0, haigh)):
        u = unchanged(b, a)
        if u:
            return (f"{what} modified the {name} ({u})", "consumer-inputs-modified")
    if case["haigh"] == "per-element-lacking":
        # an element without a Haigh diagram has no scalar result: an error, or no / NaN cycles for that element - never its
        # cycles under the transformed label
        if raised is not None:
            return None
        bare = [e for e in set(mat0.index.get_level_values("element_id")) if e not in set(haigh0.index)]
        lev = res.index.names.index("element_id") if "element_id" in res.index.names else None
        held = 0.0 if lev is None else float(np.nansum([v for k, v in zip(res.index, res.to_numpy()) if k[lev] in bare]))
        if held > 0:
            return (f"{what}: the elements {bare} have no Haigh diagram, yet the result books {held} cycles for them (their ranges "
                    "untransformed) under the target R", "matrix-element-without-haigh-diagram")
        return None
    if raised is not None:
        d = f"{what} raised {type(raised).__name__}: {str(raised)[:120]}"
        if case["haigh"] == "per-element-exceeding" and isinstance(raised, IndexError):
            return (d + " (the Haigh frame has a diagram for an element the matrix has not)", "droplevel-partnerless-parameter-row")
        return (d, "consumer-raises")
    if case["haigh"] == "per-element-exceeding":
        # the surplus diagram belongs to no cycle: the result is the one without it (no cycles for that element)
        haigh0 = haigh0.loc[[e for e in haigh0.index if e in set(mat0.index.get_level_values("element_id"))]]
        lev = res.index.names.index("element_id")
        extra = float(np.nansum([v for k, v in zip(res.index, res.to_numpy()) if k[lev] == 99]))
        if extra > 0:
            return (f"{what}: {extra} cycles are booked for element 99, which the matrix has not", "consumer-value")
        res = res[[k[lev] != 99 for k in res.index]]
    # ---- the groups of the result: the matrix' own further levels and the diagram's levels
    group_names = [n for n in ("element_id", "material") if n in mat0.index.names or
                   (isinstance(haigh0, pd.DataFrame) and n in haigh0.index.names)]
    if not isinstance(res, pd.Series) or sorted(res.index.names) != sorted(["range", "mean"] + group_names):
        return (f"{what}: result levels {list(getattr(res, 'index', pd.Index([])).names)}, expected range, mean and {group_names}",
                "consumer-levels")
    pos = {n: res.index.names.index(n) for n in res.index.names}
    got = {}
    for k, v in zip(res.index, res.to_numpy()):
        got[(tuple(k[pos[n]] for n in group_names), k[pos["range"]])] = float(v)
        iv_r, iv_m = k[pos["range"]], k[pos["mean"]]
        f = (1.0 + R_goal) / (2.0 * (1.0 - R_goal))
        if not (core.close(iv_m.left, iv_r.left * f, rtol=1e-12, atol=1e-12) and core.close(iv_m.right, iv_r.right * f, rtol=1e-12, atol=1e-12)):
            return (f"{what}: class range {iv_r} is paired with mean {iv_m}", "consumer-keys")
    if len(got) != len(res):
        return (f"{what}: duplicate keys in the result", "consumer-keys")
    classes = sorted({k[1] for k in got}, key=lambda iv: iv.left)
    groups = sorted({k[0] for k in got}, key=repr)
    # ---- entry by entry, with the scalar function
    names = list(mat0.index.names)
    lo = {k: 0.0 for k in got}
    hi = {k: 0.0 for k in got}
    want_groups = set()
    for key, cyc in zip(mat0.index, mat0.to_numpy()):
        kd = dict(zip(names, key))
        if case["form"] == "ft":
            amp, mean = abs(kd["from"].mid - kd["to"].mid) / 2.0, (kd["from"].mid + kd["to"].mid) / 2.0
        else:
            amp, mean = kd["range"].mid / 2.0, kd["mean"].mid
        if isinstance(haigh0, pd.Series):
            rows = [({}, haigh0)]
        elif haigh0.index.name in kd:
            rows = [({}, haigh0.loc[kd[haigh0.index.name]])]
        else:
            rows = [({haigh0.index.name: lab}, haigh0.loc[lab]) for lab in haigh0.index]
        for extra, h in rows:
            full = dict(kd, **extra)
            g = tuple(full[n] for n in group_names)
            want_groups.add(g)
            rg = scalar_goodman_range(float(amp), float(mean), float(h["M"]), float(h["M2"]), R_goal)
            tol = 1e-9 * max(1.0, abs(rg))
            sure = [iv for iv in classes if (iv.left + tol < rg <= iv.right - tol)]
            maybe = [iv for iv in classes if (iv.left - tol <= rg <= iv.right + tol)]
            if not maybe or (g, maybe[0]) not in got:
                return (f"{what}: the entry {key} (group {g}) has the scalar transformed range {rg!r}, no class of the result "
                        f"holds it (classes {classes[0]} … {classes[-1]}, groups {groups[:4]})", "consumer-keys")
            for iv in maybe:
                hi[(g, iv)] += float(cyc)
            for iv in sure:
                lo[(g, iv)] += float(cyc)
    if want_groups != set(groups):
        return (f"{what}: groups of the result {groups[:5]} != expected {sorted(want_groups, key=repr)[:5]}", "consumer-keys")
    for k in got:
        if not (lo[k] - 1e-9 <= got[k] <= hi[k] + 1e-9):
            return (f"{what}: class {k[1]} of group {k[0]} holds {got[k]} cycles; the entries whose own (scalar) transformed "
                    f"range lies in it hold {lo[k]}" + (f" … {hi[k]}" if hi[k] != lo[k] else "") +
                    f" (the result holds {sum(got.values())} cycles in all, the matrix {float(mat0.sum())})",
                    "consumer-value")
    # ---- the same matrix with its rows in sorted order
    if case["rows"] != "sorted":
        try:
            with warnings.catch_warnings():
                warnings.simplefilter("ignore")
                ref = ordered.meanstress_transform.fkm_goodman(haigh0.copy(), R_goal).to_pandas()
        except Exception as e:
            return (f"{what}: the same matrix with sorted rows raised {type(e).__name__}: {str(e)[:100]}", "consumer-raises")
        rp = {n: ref.index.names.index(n) for n in ref.index.names}
        refd = {(tuple(k[rp[n]] for n in group_names), k[rp["range"]]): float(v) for k, v in zip(ref.index, ref.to_numpy())}
        if refd != got:
            bad = [k for k in got if refd.get(k) != got[k]][:3]
            return (f"{what}: the result depends on the row order of the matrix: {[(k, got[k], refd.get(k)) for k in bad]}", "consumer-state")
    return None


def same_object(a, b):
    """two returned objects are the same data: type, index (labels, names), columns, values (NaN = NaN)"""
    if isinstance(a, (pd.Series, pd.DataFrame)) or isinstance(b, (pd.Series, pd.DataFrame)):
        if type(a) is not type(b):
            return f"type {type(a).__name__} / {type(b).__name__}"
        if list(a.index.names) != list(b.index.names) or len(a) != len(b) or \
                not all(x == y or (is_nan_label(x) and is_nan_label(y)) for ta, tb in zip(map(astuple, a.index), map(astuple, b.index))
                        for x, y in zip(ta, tb)):
            return f"index {list(a.index)[:3]} / {list(b.index)[:3]}"
        if isinstance(a, pd.DataFrame) and (list(a.columns) != list(b.columns)):
            return f"columns {list(a.columns)[:4]} / {list(b.columns)[:4]}"
        return None if same_data(a, b) else f"values {np.asarray(a).ravel()[:4].tolist()} / {np.asarray(b).ravel()[:4].tolist()}"
    x, y = np.asarray(a), np.asarray(b)
    if x.shape != y.shape:
        return f"shape {x.shape} / {y.shape}"
    return None if same_data(x, y) else f"values {x.ravel()[:4].tolist()} / {y.ravel()[:4].tolist()}"


KEPT_WHAT = ("broadcaster-series", "broadcaster-series-named", "broadcaster-frame", "woehler-series", "woehler-frame",
             "meanstress-collective", "haigh-diagram")


def kept_case(rng):
    return {"kind": "kept", "what": rng.choice(KEPT_WHAT), "steps": rng.randint(4, 9), "seed": rng.randrange(1 << 30)}


def kept_oracle(case):
    """ONE Broadcaster / signal / accessor object kept across calls: broadcast (or calculate) against a sequence of different
    parameters, the underlying Series / DataFrame changed IN PLACE in between (a value or a column overwritten, a key / row
    added): every answer of the kept object equals the answer of a FRESH object on the data as it is at that moment."""
    import random
    from pylife.core.broadcaster import Broadcaster
    import pylife.materiallaws  # noqa: F401
    import pylife.strength.meanstress  # noqa: F401
    import pylife.stress.collective  # noqa: F401
    from pylife.materiallaws.woehlercurve import WoehlerCurve
    from pylife.strength.meanstress import HaighDiagram, MeanstressTransformCollective
    r = random.Random(case["seed"])
    what = case["what"]
    log = []

    def differ(kept, fresh, step):
        kept = kept if isinstance(kept, tuple) else (kept,)
        fresh = fresh if isinstance(fresh, tuple) else (fresh,)
        for i, (k, f) in enumerate(zip(kept, fresh)):
            d = same_object(k, f)
            if d:
                return (f"kept {what} object, step {len(log)} ({step}; history: {', '.join(log[-6:])}): the kept object's answer differs from a "
                        f"fresh object's on the data as it is now: returned object {i}: {d}", "kept-object-stale")
        return None

    def run(fk, ff, step):
        """fk / ff: the call on the kept / on a fresh object; both may raise - then both must"""
        ek = ef = None
        try:
            with warnings.catch_warnings():
                warnings.simplefilter("ignore")
                k = fk()
        except Exception as e:
            ek = e
        try:
            with warnings.catch_warnings():
                warnings.simplefilter("ignore")
                f = ff()
        except Exception as e:
            ef = e
        log.append(step)
        if (ek is None) != (ef is None) or (ek is not None and type(ek) is not type(ef)):
            return (f"kept {what} object, step {len(log)} ({step}; history: {', '.join(log[-6:])}): kept object "
                    f"{'raised ' + type(ek).__name__ + ': ' + str(ek)[:80] if ek else 'returned'}, a fresh object "
                    f"{'raised ' + type(ef).__name__ + ': ' + str(ef)[:80] if ef else 'returned'}", "kept-object-stale")
        return None if ek is not None else differ(k, f, step)

    if what.startswith("broadcaster"):
        if what == "broadcaster-frame":
            n = r.randint(2, 4)
            obj = pd.DataFrame({"c0": [1.5 + i for i in range(n)], "c1": [10.25 + i for i in range(n)]},
                               index=pd.Index([f"e{i}" for i in range(n)], name="element"))
        else:
            obj = pd.Series({"k_1": 7.0, "ND": 2e6, "SD": 300.0, "TN": 3.5})
            if what == "broadcaster-series-named":
                obj.index.name = "field"
        B = Broadcaster(obj)
        for step_no in range(case["steps"]):
            u = r.random()
            if step_no < 3:    # every case starts: array parameter, in-place change, array parameter
                u = (0.9, 0.1, 0.9)[step_no]
            if u < 0.35:       # change the data in place
                if isinstance(obj, pd.Series):
                    if r.random() < 0.75:
                        lab = r.choice(list(obj.index))
                        obj[lab] = float(r.choice([250.0, 5.0, 1e5, 0.125]))
                        log.append(f"series[{lab!r}] = …")
                    else:
                        obj[f"new{len(obj)}"] = float(r.choice([1.0, 2.0]))
                        log.append("series[new key] = …")
                else:
                    v = r.random()
                    if v < 0.4:
                        obj["c1"] = [float(r.choice([1.0, 2.0, 3.0])) * (i + 1) for i in range(len(obj))]
                        log.append("frame['c1'] = …")
                    elif v < 0.8:
                        obj.iloc[r.randrange(len(obj)), 0] = 99.5
                        log.append("frame.iloc[i, 0] = …")
                    else:
                        obj.loc[f"e{len(obj) + 5}"] = [7.5, 8.5]
                        log.append("frame.loc[new row] = …")
                continue
            m = len(obj) if (isinstance(obj, pd.DataFrame) and r.random() < 0.7) else r.randint(1, 4)
            prm = (r.choice if step_no >= 3 else (lambda alts: alts[1 + step_no // 2]))([
                lambda: 2.5, lambda: [float(i) + 0.5 for i in range(m)], lambda: np.arange(m, dtype=float) * 1.5, lambda: np.asarray([4.0]),
                lambda: pd.Series([5.0, 6.0], index=pd.Index([7, 8], name="scenario")),
                lambda: pd.Series([5.0, 6.0, 7.0], index=pd.Index(["e0", "e1", "zz"], name="element")),
                lambda: pd.DataFrame({"p": [1.0, 2.0, 3.0]}, index=pd.MultiIndex.from_tuples([("e0", 1), ("e1", 1), ("e1", 2)], names=["element", "scenario"])),
            ])()
            res = run(lambda: B.broadcast(prm), lambda: Broadcaster(obj.copy(deep=True)).broadcast(copy.deepcopy(prm)),
                      f"broadcast({type(prm).__name__}{'' if not hasattr(prm, '__len__') else ' of ' + str(len(prm))})")
            if res:
                return res
        return None

    if what.startswith("woehler"):
        if what == "woehler-series":
            obj = pd.Series({"k_1": 7.0, "ND": 2e6, "SD": 300.0, "TN": 3.0, "TS": 1.25})
        else:
            obj = pd.DataFrame({"k_1": [7.0, 5.0, 3.0], "ND": [2e6, 1e6, 5e5], "SD": [300.0, 250.0, 100.0]}, index=pd.Index([3, 1, 2], name="element"))
        wc = obj.woehler                                   # the accessor object, kept
        # (pandas 3 hands an accessor a copy-on-write copy of the Series, so a kept accessor does not follow later changes of
        #  the ORIGINAL object - pandas' doing; the data the signal itself holds, `to_pandas()`, is changed in place here)
        obj = wc.to_pandas()
        for _ in range(case["steps"]):
            if r.random() < 0.35:
                col = r.choice(["SD", "ND", "k_1"])
                if isinstance(obj, pd.Series):
                    obj[col] = {"SD": r.choice([250.0, 120.0]), "ND": r.choice([1e6, 3e6]), "k_1": r.choice([5.0, 4.0])}[col]
                else:
                    base = {"SD": r.choice([250.0, 120.0]), "ND": r.choice([1e6, 3e6]), "k_1": r.choice([5.0, 4.0])}[col]
                    obj[col] = [base * (1.0 + 0.1 * i) for i in range(len(obj))]
                log.append(f"data[{col!r}] = …")
                continue
            op = r.choice(["cycles", "cycles", "load"])
            n = len(obj) if isinstance(obj, pd.DataFrame) else r.randint(1, 4)
            vals = [float(r.choice([50.0, 180.0, 320.0, 400.0])) if op == "cycles" else float(r.choice([1e4, 1e6, 3e7])) for _ in range(n)]
            arg = r.choice([lambda: np.asarray(vals), lambda: list(vals), lambda: vals[0],
                            lambda: pd.Series(vals, index=pd.Index(range(len(vals)), name="scenario"))])()
            pf = r.choice([0.5, 0.1])
            res = run(lambda: getattr(wc, op)(arg, pf), lambda: getattr(WoehlerCurve(obj.copy(deep=True)), op)(copy.deepcopy(arg), pf),
                      f"woehler.{op}({type(arg).__name__}, {pf})")
            if res:
                return res
        return None

    if what == "meanstress-collective":
        obj = pd.DataFrame({"range": [100.0, 200.0, 300.0, 150.0], "mean": [50.0, -20.0, 100.0, 0.0]},
                           index=pd.MultiIndex.from_tuples([(1, 0), (1, 1), (2, 0), (3, 0)], names=["element", "cycle_number"]))
        acc = obj.meanstress_transform                      # the accessor object, kept
        obj = acc.to_pandas()                               # (the data the accessor holds, see above)
        for _ in range(case["steps"]):
            if r.random() < 0.35:
                col = r.choice(["range", "mean"])
                obj[col] = [float(r.choice([80.0, 120.0, 240.0, -40.0]) if col == "mean" else r.choice([80.0, 120.0, 240.0])) for _ in range(len(obj))]
                log.append(f"cycles[{col!r}] = …")
                continue
            haigh = r.choice([lambda: pd.Series({"M": 0.3, "M2": 0.1}),
                              lambda: pd.DataFrame({"M": [0.5, 0.3, 0.1], "M2": [0.2, 0.1, 0.03]}, index=pd.Index([3, 1, 2], name="element"))])()
            R = r.choice([-1.0, 0.0])
            res = run(lambda: acc.fkm_goodman(haigh, R).to_pandas(),
                      lambda: MeanstressTransformCollective(obj.copy(deep=True)).fkm_goodman(copy.deepcopy(haigh), R).to_pandas(),
                      f"meanstress_transform.fkm_goodman({type(haigh).__name__}, {R})")
            if res:
                return res
        return None

    # a kept HaighDiagram against different collectives; its data changed in place
    obj = pd.DataFrame({"M": [0.5, 0.3, 0.1], "M2": [0.2, 0.1, 0.03]}, index=pd.Index([3, 1, 2], name="element"))
    src = HaighDiagram.fkm_goodman(obj.copy()).to_pandas()
    hd = HaighDiagram(src)
    for _ in range(case["steps"]):
        if r.random() < 0.3:
            src.iloc[r.choice([1, 2, 4, 5])] = r.choice([0.15, 0.25, 0.4])
            log.append("diagram.iloc[i] = …")
            continue
        k = r.randint(1, 3)
        cyc = pd.DataFrame({"range": [float(r.choice([100.0, 200.0, 300.0])) for _ in range(k)], "mean": [float(r.choice([50.0, -20.0, 100.0])) for _ in range(k)]},
                           index=r.choice([lambda: pd.Index(range(k), name="cycle_number"),
                                           lambda: pd.MultiIndex.from_tuples([(r.choice([1, 2, 3]), c) for c in range(k)], names=["element", "cycle_number"])])())
        R = r.choice([-1.0, 0.0])
        res = run(lambda: hd.transform(cyc, R), lambda: HaighDiagram(src.copy(deep=True)).transform(cyc.copy(deep=True), R),
                  f"HaighDiagram.transform({k} cycles on {list(cyc.index.names)}, {R})")
        if res:
            return res
    return None


def perf_oracle(case, stats):
    """Performance guard (one case per run): a cross-join broadcast of n rows against m parameter rows must not take longer
    than `bound` x a plain pandas cross join of the same size, measured in the same run.  The reference is measured before and
    after; when the two differ much or are slow the machine is busy and nothing is judged."""
    import time
    from pylife.core.broadcaster import Broadcaster
    n, m, bound = case["n"], case["m"], case["bound"]
    obj = pd.Series(np.arange(n, dtype=float), index=pd.Index(np.arange(n)[::-1] * 3, name="node_id"))
    prm = pd.Series(np.arange(m, dtype=float) + 0.5, index=pd.Index(np.arange(m) * 7, name="load_class"))

    def ref():
        t = time.perf_counter()
        idx = pd.MultiIndex.from_frame(obj.index.to_frame(index=False).merge(prm.index.to_frame(index=False), how="cross"))
        pd.Series(np.repeat(obj.to_numpy(), m), index=idx), pd.Series(np.tile(prm.to_numpy(), n), index=idx)
        return time.perf_counter() - t

    def run():
        t = time.perf_counter()
        with warnings.catch_warnings():
            warnings.simplefilter("ignore")
            Broadcaster(obj).broadcast(prm)
        return time.perf_counter() - t
    ref()                                    # warm-up
    r1 = ref()
    if r1 > case.get("too_slow", 8.0):
        stats["perf_guard"] = {"skipped": f"reference took {r1:.2f} s: machine busy"}
        return None
    b = min(run(), run())
    r2 = ref()
    stats["perf_guard"] = {"rows": [n, m], "reference_s": [round(r1, 3), round(r2, 3)], "broadcast_s": round(b, 3),
                           "ratio": round(b / max(r1, r2), 2), "bound": bound}
    if max(r1, r2) > 1.6 * min(r1, r2):
        stats["perf_guard"]["skipped"] = "the two reference measurements differ by more than 1.6x: machine busy"
        return None
    # Recorded, never judged: speed is not part of C13, and a timing taken next to 15 busy workers is no verdict (under load the
    # guard once reported a 'violation' on a tree whose only change was a harmless rewrite of woehlercurve.py, DESIGN 9.10).
    stats["perf_guard"]["slower_than_bound"] = bool(b > bound * max(r1, r2))
    return None


_SCALAR_TRANSFORM = {}


def scalar_transform(kind, rng_, mean, slopes, R_goal):
    """ONE cycle against ONE Haigh diagram (a Series of slopes): (range, mean) of the transformed cycle"""
    from pylife.strength.meanstress import HaighDiagram
    key = (kind, rng_, mean, tuple(sorted(slopes.items())), R_goal)
    v = _SCALAR_TRANSFORM.get(key)
    if v is None:
        with warnings.catch_warnings():
            warnings.simplefilter("ignore")
            hd = (HaighDiagram.fkm_goodman if kind == "goodman" else HaighDiagram.five_segment)(pd.Series(dict(slopes)))
            res = hd.transform(pd.DataFrame({"range": [rng_], "mean": [mean]}), R_goal)
        v = (float(res["range"].iloc[0]), float(res["mean"].iloc[0]))
        if len(_SCALAR_TRANSFORM) > 200000:
            _SCALAR_TRANSFORM.clear()
        _SCALAR_TRANSFORM[key] = v
    return v


def multikey_case(rng):
    return {"kind": "haigh-multikey", "diagram": rng.choice(["goodman", "goodman", "five"]), "via": rng.choice(["accessor", "haigh"]),
            "n_shared": rng.choice([2, 2, 3]), "ids": rng.choice(["same-range", "different-ranges"]),
            "horder": rng.randrange(6), "corder": rng.randrange(24), "extra": rng.choice(["cycle", "cycle", "none"]),
            "surplus": rng.random() < 0.4, "R_goal": rng.choice([-1.0, 0.0, 0.5]), "seed": rng.randrange(1 << 30)}


def multikey_oracle(case):
    """Mean stress transformation (FKM Goodman / five segment, through the `meanstress_transform` accessor or
    HaighDiagram.transform) of cycles against Haigh diagrams given PER KEY over two or more index levels that the cycles
    share in ANOTHER level order, with key sets that are not symmetric under a swap of the levels (not every combination
    present; ids from one number range or from different ranges): every cycle comes back transformed with ITS key's
    diagram, as the one-cycle / one-diagram computation gives it; operands untouched."""
    import random
    import pylife.strength.meanstress  # noqa: F401
    from pylife.strength.meanstress import HaighDiagram
    r = random.Random(case["seed"])
    shared = ["element", "node", "layer"][: case["n_shared"]]
    if case["ids"] == "same-range":
        dom = {n: [1, 2, 3] for n in shared}
    else:
        dom = {n: [v + 10 ** (i + 1) * (1 if i else 0) for v in (1, 2, 3)] for i, n in enumerate(shared)}     # 1.., 101.., 1001..
    combos = list(itertools.product(*[dom[n] for n in shared]))
    r.shuffle(combos)
    nk = r.randint(2, min(5, len(combos) - 1))
    keys = combos[:nk]                                  # not every combination: asymmetric under a swap of levels
    if case["ids"] == "same-range" and all(tuple(reversed(k)) in keys for k in keys):
        keys = [k for k in keys if k != tuple(reversed(keys[0])) or len(set(k)) == 1] or keys
    hkeys = keys + (combos[nk:nk + 1] if case["surplus"] else [])      # (a diagram no cycle refers to)
    if case["diagram"] == "goodman":
        slopes = {k: {"M": r.choice([0.1, 0.3, 0.5, 0.2]), "M2": r.choice([0.03, 0.1, 0.2])} for k in hkeys}
    else:
        slopes = {k: {"M0": r.choice([0.5, 0.4]), "M1": r.choice([0.3, 0.25]), "M2": r.choice([0.2, 0.15]), "M3": r.choice([0.1, 0.05]),
                      "M4": r.choice([0.0, 0.02]), "R12": r.choice([0.2, 0.3]), "R23": r.choice([0.6, 0.7])} for k in hkeys}
    hperm = list(itertools.permutations(shared))[case["horder"] % math.factorial(len(shared))]
    hrows = list(hkeys)
    r.shuffle(hrows)
    hidx = pd.MultiIndex.from_tuples([tuple(k[shared.index(n)] for n in hperm) for k in hrows], names=list(hperm))
    haigh = pd.DataFrame([slopes[k] for k in hrows], index=hidx)
    # cycles: the shared levels in ANOTHER order, mostly with a level of their own
    cnames = shared + (["cycle_number"] if case["extra"] == "cycle" else [])
    cperms = [p for p in itertools.permutations(cnames) if [n for n in p if n in shared] != list(hperm)]
    cperm = cperms[case["corder"] % len(cperms)]
    crow = []
    for k in keys:
        for c in range(r.randint(1, 2) if case["extra"] == "cycle" else 1):
            crow.append((k, c))
    r.shuffle(crow)
    cidx = pd.MultiIndex.from_tuples([tuple(c if n == "cycle_number" else k[shared.index(n)] for n in cperm) for k, c in crow], names=list(cperm))
    cyc = pd.DataFrame({"range": [float(r.choice([100.0, 200.0, 300.0, 400.0])) for _ in crow],
                        "mean": [float(r.choice([-120.0, -30.0, 0.0, 50.0, 100.0, 250.0])) for _ in crow]}, index=cidx)
    R_goal = case["R_goal"]
    what = (f"mean stress transformation ({case['diagram']}, via {case['via']}) of cycles on {list(cperm)} against diagrams per "
            f"{list(hperm)} ({case['ids']}, keys {sorted(keys)[:4]}{', one surplus diagram' if case['surplus'] else ''}, R_goal {R_goal})")
    haigh0, cyc0 = haigh.copy(deep=True), cyc.copy(deep=True)
    try:
        with warnings.catch_warnings():
            warnings.simplefilter("ignore")
            if case["via"] == "accessor":
                acc = cyc.meanstress_transform
                lc = (acc.fkm_goodman if case["diagram"] == "goodman" else acc.five_segment)(haigh, R_goal)
                res = pd.DataFrame({"range": 2.0 * lc.amplitude, "mean": lc.meanstress})
            else:
                hd = (HaighDiagram.fkm_goodman if case["diagram"] == "goodman" else HaighDiagram.five_segment)(haigh)
                res = hd.transform(cyc, R_goal)
    except Exception as e:
        return (f"{what} raised {type(e).__name__}: {str(e)[:140]}", "consumer-raises")
    for name, b, a in (("cycles", cyc0, cyc), ("Haigh parameter", haigh0, haigh)):
        u = unchanged(b, a)
        if u:
            return (f"{what} modified the {name} ({u})", "consumer-inputs-modified")
    if not isinstance(res, pd.DataFrame) or sorted(res.index.names) != sorted(cnames) or not {"range", "mean"} <= set(res.columns):
        return (f"{what}: result levels {list(getattr(res, 'index', pd.Index([])).names)}, columns {list(getattr(res, 'columns', []))}", "consumer-levels")
    pos = [res.index.names.index(n) for n in cperm]
    got = {tuple(k[i] for i in pos): (float(v[0]), float(v[1])) for k, v in zip(res.index, res[["range", "mean"]].to_numpy())}
    want = {}
    for key, row in zip(cyc0.index, cyc0.to_numpy()):
        kd = dict(zip(cperm, key))
        want[key] = scalar_transform(case["diagram"], float(row[0]), float(row[1]), slopes[tuple(kd[n] for n in shared)], R_goal)
    if len(got) != len(res) or set(got) != set(want):
        return (f"{what}: result keys {sorted(got)[:4]} ({len(res)} rows), expected {sorted(want)[:4]} ({len(want)})", "consumer-keys")
    for k, v in want.items():
        if not (core.close(got[k][0], v[0], rtol=1e-12, atol=1e-12) and core.close(got[k][1], v[1], rtol=1e-12, atol=1e-12)):
            return (f"{what}: cycle {dict(zip(cperm, k))}: (range, mean) = {got[k]}, its own diagram gives {v}", "consumer-value")
    return None


def haigh_five_oracle(case):
    """meanstress.py HaighDiagram.five_segment of a frame (one row of M0..M4, R12, R23 per element; the element rows are
    broadcast to the (element, R) rows): every element's five slopes sit on that element's five intervals."""
    import random
    from pylife.strength.meanstress import HaighDiagram
    r = random.Random(case["seed"])
    n = case["n_e"]
    labels = r.sample(range(10), n)
    rows = [{"M0": r.choice([0.5, 0.4, 0.45]), "M1": r.choice([0.3, 0.2, 0.25]), "M2": r.choice([0.2, 0.15]),
             "M3": r.choice([0.1, 0.05]), "M4": r.choice([0.0, 0.01, 0.02]),
             "R12": r.choice([0.2, 0.3, 0.25]), "R23": r.choice([0.6, 0.7, 0.8])} for _ in range(n)]
    df = pd.DataFrame(rows, index=pd.Index(labels, name="element"))
    df0 = df.copy(deep=True)
    try:
        with warnings.catch_warnings():
            warnings.simplefilter("ignore")
            h = HaighDiagram.five_segment(df).to_pandas()
    except Exception as e:
        return (f"HaighDiagram.five_segment raised {type(e).__name__}: {str(e)[:100]}", "consumer-raises")
    u = unchanged(df0, df)
    if u:
        return (f"HaighDiagram.five_segment modified the frame it was given ({u})", "consumer-inputs-modified")
    want = {}
    for e, row in zip(labels, rows):
        want[(e, pd.Interval(1.0, np.inf))] = row["M4"]
        want[(e, pd.Interval(-np.inf, 0.0))] = row["M0"]
        want[(e, pd.Interval(0.0, row["R12"]))] = row["M1"]
        want[(e, pd.Interval(row["R12"], row["R23"]))] = row["M2"]
        want[(e, pd.Interval(row["R23"], 1.0))] = row["M3"]
    got = {k: float(v) for k, v in h.items()}
    if list(h.index.names) != ["element", "R"] or len(got) != len(h) or set(got) != set(want):
        return (f"five-segment Haigh diagram of {n} elements: levels {list(h.index.names)}, keys {list(got)[:4]}", "consumer-keys")
    for k, v in want.items():
        if got[k] != v:
            return (f"five-segment Haigh diagram at {k}: {got[k]} != {v}", "consumer-value")
    return None


def haigh_transform_oracle(case):
    """meanstress.py HaighDiagram.transform (the accessor path with `droplevel=['R']`): a per-element Haigh diagram
    against a load collective == every element's own diagram against its cycles."""
    import pylife.stress.collective  # noqa: F401
    from pylife.strength.meanstress import HaighDiagram
    r, labels, df = haigh_frame(dict(case, m2=True))
    nc = case["n_c"]
    R_goal = case["R_goal"]
    if case["cycles"] == "disjoint":      # every cycle for every element
        cidx = pd.Index(r.sample(range(20), nc), name="cycle")
        pairs = [(e, c) for e in labels for c in cidx]
    else:                                  # cycles per element
        # (every element has a cycle: the quantifier's "every shared-level key present in both operands")
        pairs = [(e, c) for e in labels for c in range(nc) if c == 0 or r.random() < 0.7]
        r.shuffle(pairs)
        cidx = pd.MultiIndex.from_tuples(pairs, names=["element", "cycle"])
    m = len(cidx)
    rng_ = [float(r.choice([40.0, 100.0, 150.0, 200.0, 333.0])) for _ in range(m)]
    mean = [float(r.choice([-120.0, -20.0, 0.0, 10.0, 50.0, 200.0])) for _ in range(m)]
    cyc = pd.DataFrame({"range": rng_, "mean": mean}, index=cidx)
    cyc0, df0 = cyc.copy(deep=True), df.copy(deep=True)
    try:
        with warnings.catch_warnings():
            warnings.simplefilter("ignore")
            hd = HaighDiagram.fkm_goodman(df.copy())
            hd0 = hd.to_pandas().copy(deep=True)
            res = hd.transform(cyc, R_goal)
    except Exception as e:
        return (f"HaighDiagram.transform raised {type(e).__name__}: {str(e)[:120]} ({case['cycles']}, {len(labels)} elements, {m} cycles)", "consumer-raises")
    for name, b, a in (("collective", cyc0, cyc), ("Haigh diagram", hd0, hd.to_pandas())):
        u = unchanged(b, a)
        if u:
            return (f"HaighDiagram.transform modified the {name} ({u})", "consumer-inputs-modified")
    if not isinstance(res, pd.DataFrame) or sorted(res.index.names) != ["cycle", "element"] or list(res.columns) != ["range", "mean"]:
        return (f"HaighDiagram.transform: result levels {list(getattr(res, 'index', pd.Index([])).names)}", "consumer-levels")
    ie, ic = res.index.names.index("element"), res.index.names.index("cycle")
    got = {(k[ie], k[ic]): (float(v[0]), float(v[1])) for k, v in zip(res.index, res.to_numpy())}
    if len(got) != len(res) or set(got) != set(pairs):
        return (f"HaighDiagram.transform keys {sorted(got)[:5]} != expected {sorted(pairs)[:5]}", "consumer-keys")
    try:
        with warnings.catch_warnings():
            warnings.simplefilter("ignore")
            for e in labels:
                mine = [(e2, c) for (e2, c) in pairs if e2 == e]
                if not mine:
                    continue
                if case["cycles"] == "disjoint":
                    ce = cyc0
                else:
                    ce = cyc0.loc[[p for p in mine]].droplevel("element")
                single = HaighDiagram.fkm_goodman(df0.loc[e].copy()).transform(ce, R_goal)
                for c, v in zip(single.index, single.to_numpy()):
                    c = c if not isinstance(c, tuple) else c[-1]
                    g = got[(e, c)]
                    if not (core.close(g[0], float(v[0]), rtol=1e-12, atol=1e-12) and core.close(g[1], float(v[1]), rtol=1e-12, atol=1e-12)):
                        return (f"HaighDiagram.transform at element {e}, cycle {c}: (range, mean) = {g} != single-element result "
                                f"{(float(v[0]), float(v[1]))} (R_goal {R_goal}, {case['cycles']})", "consumer-value")
    except Exception as e:
        return (f"the single-element Haigh transform raised {type(e).__name__}: {str(e)[:100]}", "consumer-raises")
    return None


def woehler_oracle(case):
    """cycles(load) through the broadcasting accessor == the scalar computation, element by element."""
    try:
        return _woehler_oracle(case)
    except ScalarPathError as e:
        return (f"the scalar computation of the allowable cycles raised {e}", "consumer-raises")


def bit_equal(a, b):
    a = np.asarray(a, dtype=float)
    b = np.asarray(b, dtype=float)
    return a.shape == b.shape and bool(np.all((a == b) | ((a != a) & (b != b))))


def _woehler_oracle(case):
    """Optional fields (defaults reproduce the older corpus cases): "op" cycles | load; "pf" failure probability
    (the curves are 50 % curves); "scatter" none | TN | TS | both (with scatter and pf != 0.5 the curve moves, so a
    calculation that writes into the signal shows); "elem_name" str | zero | empty | tuple: the name of the element
    level (0 and '' are falsy but real names)."""
    import random
    import pylife.materiallaws  # noqa: F401  (registers the accessor)
    from pylife.materiallaws.woehlercurve import WoehlerCurve
    r = random.Random(case["seed"])
    ne, ns, lay = case["n_e"], case["n_s"], case["layout"]
    op, pf, scatter = case.get("op", "cycles"), case.get("pf", 0.5), case.get("scatter", "none")
    EL = {"str": "element", "zero": 0, "empty": "", "tuple": ("element", 1)}[case.get("elem_name", "str")]
    if lay.startswith("record"):
        ne = 1
    curves = []
    for _ in range(ne):
        c = {"k_1": r.choice([3.0, 5.0, 7.5]), "ND": float(r.choice([1e6, 2e6, 5e5])), "SD": float(r.choice([100.0, 250.0, 320.0]))}
        if case["k2"] == "inf":
            c["k_2"] = math.inf
        elif case["k2"] == "value":
            c["k_2"] = 2 * c["k_1"] - 1
        curves.append(c)
    elements = list(range(ne))
    if case["shuffle"]:
        r.shuffle(elements)
    el_labels = [3 - e for e in elements]      # labels that differ from positions
    if op == "cycles":
        loads_of = lambda: float(r.choice([50.0, 100.0, 180.0, 250.0, 320.0, 400.0, 1000.0]))
    else:
        loads_of = lambda: float(r.choice([1e3, 2e4, 5e5, 1e6, 2e6, 3e7]))
    for c in curves:        # after all other draws, so that older cases keep their numbers
        if scatter in ("TN", "both"):
            c["TN"] = r.choice([2.0, 3.0, 4.0])
        if scatter in ("TS", "both"):
            c["TS"] = r.choice([1.1, 1.25, 1.5])

    pfs = None      # layout frame-pf-array: one failure probability per element

    def call(signal, arg, pfv=None):
        if pfv is None:
            pfv = pf if pfs is None else np.asarray(pfs)
        return getattr(signal, op)(arg, pfv) if (pf != 0.5 or "pf" in case or pfs is not None) else getattr(signal, op)(arg)

    def scalar_result(c, ld, pfv=None):
        try:
            return float(np.asarray(call(pd.Series({k: v for k, v in c.items() if k != "name"}).woehler, ld, pf if pfv is None else pfv)))
        except Exception as e:
            raise ScalarPathError(f"{type(e).__name__}: {str(e)[:100]}")

    if case.get("name_entry"):
        for i, c in enumerate(curves):       # a label beside the numbers (the scalar reference below is computed without it)
            c["name"] = "steel" if i % 2 == 0 else "alu"
    what = f"woehler.{op}"
    scen = list(range(ns))
    if case["shuffle"] and not lay.startswith("record-a") and lay != "record-scalar":
        pass
    # ---- the signal's pandas object and the argument
    want_names = None
    if lay == "record-scalar":
        wcobj = pd.Series(dict(curves[0]))
        arg = loads_of()
        expected = {(): scalar_result(curves[0], arg)}
    elif lay == "record-array":
        wcobj = pd.Series(dict(curves[0]))
        lds = [loads_of() for _ in range(ns)]
        arg = np.asarray(lds)
        expected = {(i,): scalar_result(curves[0], l) for i, l in enumerate(lds)}
    elif lay in ("frame-scalar", "frame-array", "frame-pf-array"):
        # a DataFrame signal (one curve per element) against a scalar / a positional array / per-element pf values
        wcobj = pd.DataFrame(curves, index=pd.Index(el_labels, name=EL))
        if lay == "frame-array":
            lds = [loads_of() for _ in range(ne)]
            arg = np.asarray(lds) if r.random() < 0.5 else list(lds)
            expected = {(i,): scalar_result(curves[i], lds[i]) for i in range(ne)}
        elif lay == "frame-scalar":
            arg = loads_of()
            expected = {(i,): scalar_result(curves[i], arg) for i in range(ne)}
        else:
            arg = loads_of()
            pfs = [r.choice([0.5, 0.1, 0.9, 0.025, 0.3]) for _ in range(ne)]
            expected = {(i,): scalar_result(curves[i], arg, pfs[i]) for i in range(ne)}
        ns = ne
    else:
        wc = pd.DataFrame(curves, index=pd.Index(el_labels, name=EL))
        if case["shuffle"]:
            r.shuffle(scen)
        if lay == "record-series":
            wcobj = pd.Series(dict(curves[0]))
            arg = pd.Series([loads_of() for _ in scen], index=pd.Index(scen, name="scenario"))
            expected = {(s,): scalar_result(curves[0], l) for s, l in zip(scen, arg)}
            want_names = ["scenario"]
        elif lay == "disjoint":
            wcobj = wc
            arg = pd.Series([loads_of() for _ in scen], index=pd.Index(scen, name="scenario"))
            expected = {(e, s): scalar_result(c, l) for e, c in zip(el_labels, curves) for s, l in zip(scen, arg)}
            want_names = [EL, "scenario"]
        elif lay == "equal":
            wcobj = wc
            order = list(range(ne))
            r.shuffle(order)
            arg = pd.Series([loads_of() for _ in order], index=pd.Index([el_labels[i] for i in order], name=EL))
            expected = {(el_labels[i],): scalar_result(curves[i], l) for i, l in zip(order, arg)}
            want_names = [EL]
        elif lay == "contained":
            wcobj = wc
            pairs = [(e, s) for e in el_labels for s in scen]
            r.shuffle(pairs)
            arg = pd.Series([loads_of() for _ in pairs], index=pd.MultiIndex.from_tuples(pairs, names=[EL, "scenario"]))
            expected = {(e, s): scalar_result(curves[el_labels.index(e)], l) for (e, s), l in zip(pairs, arg)}
            want_names = [EL, "scenario"]
        elif lay == "two-shared-swapped":
            # curves per (element, node), loads per (node, element, scenario): TWO shared levels in another order, ids of the
            # two levels from one number range, not every combination present
            nodes = [3 - e for e in range(max(ne, 2))]
            combos = [(e, n) for e in el_labels for n in nodes]
            r.shuffle(combos)
            ckeys = combos[: max(2, min(len(combos) - 1, ne + 1))]
            cs = [dict(curves[el_labels.index(e)], SD=curves[el_labels.index(e)]["SD"] * (1.0 + 0.25 * i)) for i, (e, n) in enumerate(ckeys)]
            wcobj = pd.DataFrame(cs, index=pd.MultiIndex.from_tuples(ckeys, names=[EL, "node"]))
            trip = [(n, e, sc) for (e, n) in ckeys for sc in scen]
            r.shuffle(trip)
            arg = pd.Series([loads_of() for _ in trip], index=pd.MultiIndex.from_tuples(trip, names=["node", EL, "scenario"]))
            expected = {(e, n, sc): scalar_result(cs[ckeys.index((e, n))], l) for (n, e, sc), l in zip(trip, arg)}
            want_names = [EL, "node", "scenario"]
        else:   # overlapping: curves per (element, temperature), loads per (element, scenario)
            temps = [0, 1][: r.randint(1, 2)]
            rows = [(e, t) for e in el_labels for t in temps]
            cs = [dict(curves[el_labels.index(e)], SD=curves[el_labels.index(e)]["SD"] * (1.0 + 0.5 * t)) for e, t in rows]
            wcobj = pd.DataFrame(cs, index=pd.MultiIndex.from_tuples(rows, names=[EL, "temperature"]))
            pairs = [(e, s) for e in el_labels for s in scen]
            r.shuffle(pairs)
            arg = pd.Series([loads_of() for _ in pairs], index=pd.MultiIndex.from_tuples(pairs, names=[EL, "scenario"]))
            expected = {(e, t, s): scalar_result(c, l) for (e, t), c in zip(rows, cs) for (e2, s), l in zip(pairs, arg) if e2 == e}
            want_names = [EL, "temperature", "scenario"]
    # ---- evaluate through the (cached) accessor; deep copies of everything before
    wcobj0, arg0 = copy.deepcopy(wcobj), copy.deepcopy(arg)
    try:
        signal = wcobj.woehler
        sig0 = copy.deepcopy(signal.to_pandas())
        with warnings.catch_warnings():
            warnings.simplefilter("ignore")
            got = call(signal, arg)
    except Exception as e:
        return (f"{what} raised {type(e).__name__}: {str(e)[:120]} ({lay}, {ne} curves)", "consumer-raises")
    # the result is numeric: a float64 array / Series (not an object array holding 0-d arrays)
    gd = got.dtype if isinstance(got, (pd.Series, np.ndarray)) else np.asarray(got).dtype
    if gd != np.float64:
        return (f"{what} of a curve {'with a name entry' if case.get('name_entry') else ''} returned dtype {gd} "
                f"({[type(v).__name__ for v in np.asarray(got, dtype=object).ravel()[:3]]}), not float64 ({lay})", "consumer-dtype")
    # "neither operand is modified": the caller's curve data, the signal's own data, the argument
    for name, before, after in (("curve data passed in", wcobj0, wcobj), ("signal's own data", sig0, signal.to_pandas()),
                                ("load / cycles argument", arg0, arg)):
        u = unchanged(before, after)
        if u:
            diff = ""
            if u == "values" and name != "load / cycles argument":
                for col in ("SD", "ND", "failure_probability", "k_1", "k_2", "TN", "TS"):
                    try:
                        x, y = np.asarray(before[col], dtype=float).ravel(), np.asarray(after[col], dtype=float).ravel()
                    except Exception:
                        continue
                    if not bit_equal(x, y):
                        diff += f" {col}: {x[:3].tolist()} -> {y[:3].tolist()};"
            return (f"{what}(…, failure_probability={pf if pfs is None else pfs}) modified the {name} ({u}) ({lay}, scatter {scatter}):{diff}",
                    "consumer-inputs-modified")
    # ---- the result, key by key, against the scalar computation
    if want_names is None:
        g = np.asarray(got, dtype=float)
        if lay == "record-scalar":
            result = {(): float(g)} if g.shape == () else None
        else:
            result = {(i,): float(v) for i, v in enumerate(g)} if g.shape == (ns,) else None
        if result is None:
            return (f"{what}: result shape {g.shape} ({lay})", "consumer-shape")
    else:
        if not isinstance(got, pd.Series):
            return (f"{what} returned {type(got).__name__}", "consumer-shape")
        names = list(got.index.names)
        if sorted(map(repr, names)) != sorted(map(repr, want_names)) or \
                any(type(a) is not type(b) for a, b in zip(sorted(names, key=repr), sorted(want_names, key=repr))):
            return (f"{what}: result levels {names}, expected {want_names} ({lay}, {len(got)} rows for {len(expected)} expected)", "consumer-levels")
        perm = [names.index(n) for n in want_names]
        result = {}
        for key, v in zip(got.index, np.asarray(got, dtype=float)):
            key = key if isinstance(key, tuple) else (key,)
            result[tuple(key[i] for i in perm)] = float(v)
        if len(result) != len(got):
            return (f"duplicate keys in the result of {what}", "consumer-keys")
    if set(result) != set(expected):
        return (f"{what} keys {sorted(result)[:6]} != expected {sorted(expected)[:6]} ({lay})", "consumer-keys")
    for k, v in expected.items():
        if not core.close(result[k], v, rtol=1e-12):
            return (f"{what} at {k}: {result[k]!r} != scalar result {v!r} ({lay})", "consumer-value")
    # ---- evaluating again on the same signal object, and on a fresh signal: bit-identical
    try:
        with warnings.catch_warnings():
            warnings.simplefilter("ignore")
            again = call(signal, arg)
            fresh = call(WoehlerCurve(copy.deepcopy(wcobj0)), copy.deepcopy(arg0))
    except Exception as e:
        return (f"second evaluation of {what} raised {type(e).__name__}: {str(e)[:100]}", "consumer-raises")
    if not bit_equal(again, got):
        return (f"{what}: the second evaluation on the same signal differs from the first (pf {pf}, scatter {scatter}, {lay})", "consumer-state")
    if not bit_equal(fresh, got):
        return (f"{what}: the result differs from a fresh signal's (pf {pf}, scatter {scatter}, {lay})", "consumer-state")
    return None


CONSUMER_KINDS = ("woehler", "haigh", "haigh-five", "haigh-transform", "collective-raise", "matrix", "perf", "haigh-multikey", "kept")


# ------------------------------------------------------------------ the property module
class C13(Prop):
    ID = "C13"
    SOURCES = SOURCES
    LEAN_MODULES = ["Proofs.C13"]
    THEOREMS = [
        "PylifeVerif.C13.broadcast_same_index",
        "PylifeVerif.C13.broadcast_levels",
        "PylifeVerif.C13.joinRows_lookup",
        "PylifeVerif.C13.broadcast_lookup",
        "PylifeVerif.C13.broadcast_scalar",
        "PylifeVerif.C13.prmTbl_array",
        "PylifeVerif.C13.broadcast_array",
        "PylifeVerif.C13.broadcast_nothing_invented",
        "PylifeVerif.C13.broadcast_pairs_complete",
        "PylifeVerif.C13.unmatched_obj_kept",
        "PylifeVerif.C13.unmatched_prm_kept",
        "PylifeVerif.C13.obj_row_represented_iff",
        "PylifeVerif.C13.prm_row_represented_iff",
        "PylifeVerif.C13.broadcast_no_row_lost_partial",
        "PylifeVerif.C13.obj_row_lost_iff",
        "PylifeVerif.C13.obj_represented_of_disjoint",
        "PylifeVerif.C13.joinRows_key_inj",
        "PylifeVerif.C13.broadcast_keys_nodup",
        "PylifeVerif.C13.broadcast_cross_join_card",
        "PylifeVerif.C13.broadcast_total",
    ]
    PARTIAL = {
        "PylifeVerif.C13.broadcast_no_row_lost_partial":
            "completeness ('every row of both operands is represented in the result') is not in the property's text, which "
            "speaks about the rows of the result; it is proved under a guard PER OPERAND: 'EVERY row of the operand has a partner in the "
            "other operand, or a level is shared and the operand is not a one-level index joined with a MultiIndex' (the per-row form of "
            "the guard is obj_row_represented_iff / prm_row_represented_iff).  The unguarded statement is false: the "
            "partner-less rows of a ONE-level operand whose level is contained in the other operand's >= 2 levels are left out "
            "(pandas' join on a level; kernel-checked at PylifeVerif.C13.row_lost_at_witness, characterised exactly by "
            "obj_row_lost_iff - object side only, there is no parameter-side mirror of it - and obj_row_represented_iff / "
            "prm_row_represented_iff).  The oracle accepts such a row only absent "
            "or with NaN in the levels it lacks and counts both (stats partnerless_rows_lacking_a_level).",
    }
    RULE = ("case = (object Series/DataFrame, parameter scalar/array/Series/DataFrame) given by level names (None = unnamed), "
            "ordered lists of distinct integer key codes, column counts, a label type per level, a cell-value kind (whole / "
            "non-representable fractions / int64 / with NaN cells), one-level indices optionally as MultiIndex; quick: all "
            "ordered key lists up to 2 rows over 2 codes for 12 level-name layouts + one-level-MultiIndex layouts + Series "
            "objects with non-string entries against arrays + seeded random cases (1-3 levels, 1-6 rows, names equal / "
            "permuted / disjoint / contained / overlapping with every shared key present, unnamed levels, equal lengths, int / "
            "reversed-int / string / float / interval labels) + scalar / array / record cases + consumer cases (allowable "
            "cycles, Haigh diagram, five-segment Haigh diagram (haigh-five), Haigh transform with droplevel, LoadCollective.scale / shift "
            "on layouts where the alignment raises (collective-raise), rainflow matrix x Haigh parameter through "
            "series.meanstress_transform.fkm_goodman (matrix: one / per-element / lacking an element / surplus element / own level)); "
            "`droplevel` cases (broadcast(prm, droplevel=[levels of the object only]): 6 layouts x 4 key patterns with and without "
            "partner-less rows + random pairs; oracle only, no model line); records with a DUPLICATED entry label (rec_dup) against "
            "arrays / scalars; both operands with the IDENTICAL partly unnamed MultiIndex as two Index objects (4 layouts x 3 key lists); "
            "a shared level name spelt differently but equal on the two operands (name_types_prm: 1 / True / 1.0, 0 / False / 0.0; "
            "6 spellings x 4 layouts); also generated: 7 layouts in which both operands are built from ONE shared Index "
            "object (plus random ones); level names 0 / '' / 0.0 / tuple / float (random cases) and 1 / True / 1.0 / False (the equal-spelling cases) instead of strings; operands without rows (exhaustive "
            "layouts only); datetime and categorical labels; unnamed levels with the same bare codes on both sides (anon_plain); scalars as "
            "python number / numpy scalar / 0-d array and arrays as numpy array / python list; 4 % of the random cases are overlapping "
            "layouts with a shared key missing on one side (`outside` the quantifier: correspondence and operands-unchanged only); the equal "
            "/ permuted / disjoint / contained layouts are drawn with keys missing on one side in 40 % of the cases (only the overlapping "
            "layout is restricted to 'every shared key present'); correspondence compares the two returned objects as sorted "
            "key->cells sets and the result level order with the Lean model; non-trivial = a pandas parameter whose level "
            "names are not identical to the object's, or an array; distinct by full case")
    ASSUMPTIONS = [
        "C13: the theorems are about a relational model of what the Broadcaster returns (Model/Broadcast.lean), they are close "
        "to the model's definition; pandas (align / join / reindex, MultiIndex) is not modelled - the tie to the real code is "
        "this run's correspondence only",
        "C13: how a pandas operand pair is read as tables (Series object = record for non-pandas parameters or a single "
        "unnamed level; unnamed levels are fresh names; cells as payload lists; cell VALUES mapped to cell ids by exact "
        "comparison with the originals) is harness code (harness/c13.py: tables, canon_result)",
        "C13: 'neither operand is modified' (values, dtypes, index labels and order, level names) is not a theorem: it is "
        "compared on the real code before / after every call (deep copies) by the oracle; the verdict is for the installed "
        "pandas (see stats.pandas: version, copy-on-write) - pyLife allows pandas >= 1.4, where a shallow copy shares data",
        "C13: row order is not modelled (the correspondence compares sorted key->cells sets); on the real code the oracle "
        "checks that both returned objects have the identical index, order included, and the documented order (object-major "
        "cross join, object's order for scalars / arrays, the common order for identical indices); keys within an operand "
        "are distinct (the quantifier speaks of key sets; pandas refuses to join duplicate keys, the theorems carry "
        "Tbl.KeysNodup); an operand without rows is generated on the exhaustive layouts only",
        "C13: `droplevel` (HaighDiagram.transform) is not in the model; it is observed on the real code by the oracle: "
        "broadcast(prm, droplevel=…) returns the plain broadcast's object and one parameter row per key over the remaining levels "
        "(harness/c13.py: _oracle_droplevel), and through the consumer oracles haigh-transform and matrix",
        "C13: an unnamed level is never shared, also when both operands carry the IDENTICAL partly unnamed MultiIndex (what "
        "pd.concat({...}, names=['element_id']) makes) as two Index objects: join on the named levels, cross join on the unnamed "
        "ones (since b3ce47d; before, pandas' align took the equal coded indices row by row).  Level names that compare equal "
        "(1 / True / 1.0, 0 / False / 0.0) are ONE level, as for pandas' own look-up of a level by name; the result carries the "
        "parameter's spelling (observed on /repo HEAD; the oracle demands only that the level occurs exactly once, under either spelling).  Both readings are generated and are what the model says (fresh name per unnamed level; symbolic names)",
        "C13: a record's entry labels may repeat (they are fields, not keys): the record is positional in the model",
        "C13: level dtypes are judged on the real code only (oracle, pandas 3): a level of one operand keeps that operand's dtype; "
        "for a level both operands have the reference is the dtype pandas gives the two operand levels put together "
        "(Index.append: two object levels of strings are `str` under pandas 3); integers become floats where a row has no value",
        "C13: one timing comparison per run (cross-join broadcast against a plain pandas cross join measured in the same process) "
        "is RECORDED in the evidence (perf_guard) and never judged: speed is outside the property",
        "C13: the model describes the code after the repairs committed in /repo (b3ce47d align-equal-values, 83030b7 outer join "
        "with NaN levels, 190635a one-level MultiIndex, bc2cb7f record entries with any label, c67dac2 operands untouched, 20f8491 "
        "level names that are not strings) and after the follow-up repairs, committed as well: 1eb3e33 (record frame built by position: "
        "record-duplicate-labels-overwritten), 3894844 (result index rebuilt from the level values: result-index-levels-unsorted, "
        "droplevel-partnerless-parameter-row), 226f5ce (HaighDiagram.transform refuses cycles without diagram: "
        "matrix-element-without-haigh-diagram); all 12 C13 classes in KNOWN_FINDINGS.jsonl are fixed.  While the class of a repair is "
        "OPEN in KNOWN_FINDINGS.jsonl the correspondence tolerates exactly the unrepaired answer on exactly the cases of that class "
        "(harness/c13.py: PENDING, record_dup_defect); with no class open both tolerances are inert",
        "C13: exhaustive = all ordered key lists with <= 2 (thorough: 3) rows over 2 codes on the listed level-name layouts "
        "only; everything else is sampled",
    ]

    def __init__(self):
        self.stats = {"by_layout": {}, "by_kinds": {}, "sizes": {}, "errors": {}, "label_types": {}, "present": {"yes": 0, "no": 0},
                      "align_shortcut_triggers": 0, "unnamed_level_cases": 0, "equal_length_cases": 0, "consumer_cases": {},
                      "outside_quantifier_cases": 0, "shared_index_object_cases": 0,
                      "raising_calls_checked_for_unchanged_operands": 0, "level_name_types": {}, "consumer_pf_scatter": {},
                      "pandas": {"version": pd.__version__,
                                 "copy_on_write": bool(int(pd.__version__.split(".")[0]) >= 3 or pd.get_option("mode.copy_on_write"))}}
        self.exhaustive = False
        self._cache = {}
        # classes that are open in KNOWN_FINDINGS.jsonl (the tolerance of the correspondence for PENDING repairs)
        self._open = {e["class"] for e in core.load_known(self.ID) if e.get("status") == "open"}

    # -------------------------------------------------------------- generation
    def generate(self, rng, tier):
        maxn = 2 if tier == "quick" else 3
        self.exhaustive = True
        self.stats["exhaustive_scope"] = (f"all ordered lists of distinct keys with 1..{maxn} rows over codes {{0,1}} for both operands, "
                                          f"{len(EXH_LAYOUTS)} level-name layouts (overlapping ones restricted to 'every shared key present')")
        for c in exhaustive_cases(maxn):
            yield c
        # both operands built from one shared Index object (unnamed levels are renamed by the Broadcaster)
        for names in SHARED_LAYOUTS:
            for keys in ordered_key_lists(len(names), 2, maxn):
                yield {"obj": {"kind": "frame", "names": list(names), "keys": keys, "ncols": 1},
                       "prm": {"kind": "series", "names": list(names), "keys": [list(k) for k in keys], "ncols": 1},
                       "labels": {}, "share_index": True}
        # falsy but real level names (0 as from df.set_index(0), ''), shared / disjoint / contained / overlapping
        for nt in ({"z": "zero"}, {"z": "empty"}, {"x": "zero", "z": "empty"}):
            for on, pn in ((["z"], ["z"]), (["x"], ["z"]), (["x", "z"], ["z"]), (["z"], ["x", "z"]), (["x", "z"], ["y", "z"])):
                for ok in ordered_key_lists(len(on), 2, 2):
                    for pk in ordered_key_lists(len(pn), 2, 2):
                        case = {"obj": {"kind": "frame", "names": on, "keys": ok, "ncols": 1},
                                "prm": {"kind": "series", "names": pn, "keys": pk, "ncols": 1}, "labels": {}, "name_types": nt}
                        if layout(case) == "overlapping" and not shared_keys_present(case):
                            continue
                        yield case
        # a MultiIndex of ONE level (as groupby / stack / xs(drop_level=False) return it) on either operand
        for on, pn in ((["x"], ["x"]), (["x"], ["y"]), (["x"], ["x", "z"]), (["x", "z"], ["z"]), (["x"], [None])):
            for mo, mp in ((True, False), (False, True), (True, True)):
                if (mo and len(on) > 1) or (mp and len(pn) > 1):
                    continue
                for ok in ordered_key_lists(len(on), 2, 2):
                    for pk in ordered_key_lists(len(pn), 2, 2):
                        case = {"obj": {"kind": "frame" if (len(ok) + len(pk)) % 2 else "series", "names": on, "keys": ok, "ncols": 1},
                                "prm": {"kind": "series", "names": pn, "keys": pk, "ncols": 1}, "labels": {}}
                        if mo:
                            case["obj"]["mi1"] = True
                        if mp:
                            case["prm"]["mi1"] = True
                        yield case
        # a Series object with entries that are not strings / with several levels against arrays and scalars
        for rl in ("int", "float", "tuple", "str"):
            for n in (1, 2, 3):
                for prm in ({"kind": "array", "vals": [4, 5], "np": True}, {"kind": "array", "vals": [7], "np": False},
                            {"kind": "array", "vals": list(range(n)), "np": True}, {"kind": "scalar", "v": 3}):
                    yield {"obj": {"kind": "series", "names": ["x"], "keys": [[i] for i in range(n)], "ncols": 1},
                           "prm": dict(prm), "labels": {"x": "int"}, "rec_labels": rl, "cells": "frac"}
        for prm in ({"kind": "array", "vals": [4, 5], "np": True}, {"kind": "array", "vals": [7], "np": False}, {"kind": "scalar", "v": 3}):
            yield {"obj": {"kind": "series", "names": ["x", "y"], "keys": [[0, 1], [1, 0], [1, 1]], "ncols": 1},
                   "prm": dict(prm), "labels": {"x": "str", "y": "int"}, "cells": "frac"}
        # an operand without rows ("every ... size")
        for on, pn in EXH_LAYOUTS:
            for ok in [[]] + list(ordered_key_lists(len(on), 2, 1)) + [[[0] * len(on), [1] * len(on)]]:
                for pk in [[]] + list(ordered_key_lists(len(pn), 2, 1)) + [[[1] * len(pn), [0] * len(pn)]]:
                    if ok and pk:
                        continue
                    case = {"obj": {"kind": "frame", "names": on, "keys": ok, "ncols": 1},
                            "prm": {"kind": "series", "names": pn, "keys": pk, "ncols": 1}, "labels": {}}
                    if layout(case) == "overlapping" and not shared_keys_present(case):
                        case["outside"] = True
                    yield case
        yield {"kind": "perf", "n": 100000, "m": 100, "bound": 4.0}      # performance guard, one case per run
        # ONE Broadcaster / signal / accessor object kept across calls, its data changed in place in between
        for i, w_ in enumerate(KEPT_WHAT):
            for j in range(4):
                yield {"kind": "kept", "what": w_, "steps": 6 + j, "seed": 7000 + 10 * i + j}
        # mean stress transformation against diagrams per key over >= 2 levels that the cycles carry in another order
        j = 0
        for diagram in ("goodman", "five"):
            for ids in ("same-range", "different-ranges"):
                for via in ("accessor", "haigh"):
                    for nsh in (2, 3):
                        j += 1
                        yield {"kind": "haigh-multikey", "diagram": diagram, "via": via, "n_shared": nsh, "ids": ids, "horder": j % 6,
                               "corder": 3 * j + 1, "extra": ("cycle", "cycle", "none")[j % 3], "surplus": j % 4 == 0,
                               "R_goal": (-1.0, 0.0, 0.5)[j % 3], "seed": 5000 + j}
        for i, op in enumerate(("cycles", "load", "cycles")):
            yield {"kind": "woehler", "layout": "two-shared-swapped", "n_e": 2 + i, "n_s": 2, "seed": 6000 + i, "k2": ("none", "value", "inf")[i],
                   "shuffle": i == 1, "op": op, "pf": (0.5, 0.1, 0.5)[i], "scatter": ("none", "TN", "none")[i], "elem_name": "str"}
        # a Woehler curve that carries a name beside the numbers: load / cycles of an array stay float64
        for i, (lay, op) in enumerate((("record-array", "load"), ("record-array", "cycles"), ("record-series", "load"),
                                       ("record-scalar", "load"), ("frame-array", "load"), ("disjoint", "load"))):
            yield {"kind": "woehler", "layout": lay, "n_e": 2, "n_s": 3, "seed": 4000 + i, "k2": ("none", "value")[i % 2], "shuffle": False,
                   "op": op, "pf": (0.5, 0.1)[i % 2], "scatter": ("none", "TN")[i % 2], "elem_name": "str", "name_entry": True}
        # a Series object (record) that also carries a string entry, some numeric entries as 0-d arrays
        for flags in ({"rec_str": True}, {"rec_str": True, "rec_0d": True}, {"rec_0d": True}):
            for n in (2, 4):
                for cells in ("frac", "i64"):
                    for prm in ({"kind": "array", "vals": [4, 5, 6], "np": True}, {"kind": "array", "vals": [7], "np": False}, {"kind": "scalar", "v": 3}):
                        yield dict({"obj": {"kind": "series", "names": [None], "keys": [[i] for i in range(n)], "ncols": 1},
                                    "prm": dict(prm), "labels": {}, "rec_labels": "str", "cells": cells}, **flags)
        # a Series object with a DUPLICATED entry label against arrays / scalars
        for rl in ("str", "int"):
            for n in (2, 3):
                for prm in ({"kind": "array", "vals": [4, 5], "np": False}, {"kind": "array", "vals": [7], "np": True}, {"kind": "scalar", "v": 3}):
                    yield {"obj": {"kind": "series", "names": ["x"], "keys": [[i] for i in range(n)], "ncols": 1},
                           "prm": dict(prm), "labels": {"x": "int"}, "rec_labels": rl, "cells": "frac", "rec_dup": True}
        yield {"obj": {"kind": "series", "names": ["x", "y"], "keys": [[0, 1], [1, 0], [1, 1]], "ncols": 1},
               "prm": {"kind": "array", "vals": [4, 5], "np": True}, "labels": {"x": "str", "y": "int"}, "cells": "frac", "rec_dup": True}
        # both operands with the SAME partly unnamed MultiIndex (what pd.concat({...}, names=['element_id']) makes), as two
        # distinct Index objects: an unnamed level is never shared, so the result is the join on the named levels and the
        # cross join on the unnamed ones (model: an unnamed level is a fresh name per operand)
        for names in (["x", None], [None, "x"], ["x", None, "z"], [None, None]):
            for keys in ([[0] * len(names), [1] * len(names)], [[0] * len(names), [0] * (len(names) - 1) + [1]],
                         [[1] + [0] * (len(names) - 1), [0] * len(names), [1] * len(names)]):
                yield {"obj": {"kind": "frame", "names": list(names), "keys": [list(k) for k in keys], "ncols": 2},
                       "prm": {"kind": "series", "names": list(names), "keys": [list(k) for k in keys], "ncols": 1},
                       "labels": {"x": "str", "z": "int"}, "anon_plain": True}
        # a shared level whose NAME is spelt 1 on one operand and True (or 1.0) on the other, 0 / False / 0.0: one level
        for a, b in EQUAL_NAME_PAIRS:
            for on, pn in ((["z"], ["z"]), (["x", "z"], ["z"]), (["x", "z"], ["y", "z"]), (["z", "x"], ["z"])):
                yield {"obj": {"kind": "frame", "names": on, "keys": [[0] * len(on), [1] * len(on)], "ncols": 1},
                       "prm": {"kind": "series", "names": pn, "keys": [[1] * len(pn), [0] * len(pn)], "ncols": 1},
                       "labels": {}, "name_types": {"z": a}, "name_types_prm": {"z": b}}
        # `droplevel` (levels of the object only), with and without partner-less rows on either side
        for on, pn, dl in ((["x", "r"], ["x", "c"], ["r"]), (["m", "x", "r"], ["x", "c"], ["r"]), (["x", "r"], ["c"], ["r"]),
                           (["x", "r"], ["x"], ["r"]), (["r", "x"], ["c", "x"], ["r"]), (["m", "x", "r"], ["x", "c"], ["r", "m"])):
            for ok, pk in (("full", "full"), ("full", "more"), ("more", "full"), ("full", "other")):
                xo = [0, 1] + ([2] if ok == "more" else [])
                xp = [0, 1] + ([2] if pk == "more" else []) if pk != "other" else [1, 3]
                okeys = [[{"x": x, "r": rr, "m": x % 2}[n] for n in on] for x in xo for rr in (0, 1)]
                pkeys = [[{"x": x, "c": c}[n] for n in pn] for x in (xp if "x" in pn else [0]) for c in ((1, 0) if "c" in pn else (0,))]
                case = {"obj": {"kind": "series", "names": on, "keys": okeys, "ncols": 1},
                        "prm": {"kind": "frame", "names": pn, "keys": pkeys, "ncols": 2},
                        "labels": {"x": "rev", "r": "str"}, "cells": "frac", "droplevel": dl}
                yield case
        # rainflow matrix x Haigh diagram through series.meanstress_transform.fkm_goodman
        for j, (form, rows, hk) in enumerate((("ft", "sorted", "per-element-lacking"), ("rm", "shuffled", "per-element-lacking"),
                                              ("ft", "sorted", "per-element-exceeding"), ("rm", "descending", "per-element-exceeding"),
                                              ("ft", "shuffled", "per-element-exceeding"))):
            yield {"kind": "matrix", "form": form, "elem": True, "n_el": 2 + j % 2, "nb": 2, "order": j, "rows": rows, "haigh": hk,
                   "n_h": 1, "R_goal": (-1.0, 0.0)[j % 2], "seed": 2000 + j}
        i = 0
        for form in ("ft", "rm"):
            for rows in ("sorted", "shuffled", "descending"):
                for elem, haigh in ((True, "one"), (True, "per-element"), (True, "extra-level"), (False, "one"), (False, "extra-level")):
                    i += 1
                    yield {"kind": "matrix", "form": form, "elem": elem, "n_el": 2 + i % 2, "nb": 2 + (i // 2) % 2, "order": i % 6,
                           "rows": rows, "haigh": haigh, "n_h": 1 + i % 2, "R_goal": (-1.0, 0.0, -1.0, 0.5)[i % 4], "seed": 1000 + i}
        for v in range(len(COLLECTIVE_RAISE_VARIANTS)):
            for op in ("scale", "shift"):
                yield {"kind": "collective-raise", "variant": v, "op": op}
        for op in ("scale", "shift"):
            for fk in ("scalar", "array"):
                yield {"kind": "collective-raise", "variant": 3, "op": op, "factor": fk}
        nrand = 1300 if tier == "quick" else 16000
        for _ in range(nrand):
            u = rng.random()
            if u < 0.66:
                yield gen_table_case(rng)
            elif u < 0.72:
                yield gen_shared_index_case(rng)
            elif u < 0.76:
                c = gen_table_case(rng, lay="overlapping", present=False)
                if not shared_keys_present(c):
                    c["outside"] = True     # outside the quantifier: correspondence only
                yield c
                own = [n for n in c["obj"]["names"] if n is not None and n not in c["prm"]["names"]]
                if own and rng.random() < 0.5:       # the same pair through `droplevel` (oracle only)
                    d = copy.deepcopy(c)
                    d["droplevel"] = [rng.choice(own)]
                    d.pop("name_types", None)
                    d.pop("anon_plain", None)
                    yield d
            elif u < 0.88:
                yield gen_nonpandas_case(rng)
            elif u < 0.93:
                yield gen_record_case(rng)
            elif u < 0.97:
                yield woehler_case(rng)
            elif u < 0.98:
                yield {"kind": "haigh", "n_e": rng.randint(1, 5), "seed": rng.randrange(1 << 30), "m2": rng.random() < 0.6}
            elif u < 0.984:
                yield {"kind": "haigh-five", "n_e": rng.randint(1, 4), "seed": rng.randrange(1 << 30)}
            elif u < 0.992:
                yield matrix_case(rng)
            elif u < 0.996:
                yield multikey_case(rng)
            elif u < 0.998:
                yield kept_case(rng)
            else:
                yield {"kind": "haigh-transform", "n_e": rng.randint(1, 4), "n_c": rng.randint(1, 4), "seed": rng.randrange(1 << 30),
                       "cycles": rng.choice(["disjoint", "per-element"]), "R_goal": rng.choice([-1.0, 0.0, 0.5, -3.0])}

    # -------------------------------------------------------------- correspondence
    def model_lines(self, case):
        if case.get("droplevel"):
            return []       # `droplevel` is not in the model: oracle only
        if case.get("kind") in CONSUMER_KINDS or int_name_not_first(case):
            return []       # (consumer kinds: oracle only.  int_name_not_first always returns False since the finding
            #                  int-level-name-as-position is fixed by 20f8491: that part of the condition is dead)
        t = spec_tokens(case)
        return ["bc_obj " + t, "bc_prm " + t, "bc_names " + t]

    def _run(self, case):
        key = json.dumps(case, sort_keys=True)
        r = self._cache.get(key)
        if r is None:
            r = run_impl(case)
            if len(self._cache) > 50000:
                self._cache.clear()
            self._cache[key] = r
        return r

    def impl_lines(self, case):
        if case.get("kind") in CONSUMER_KINDS or case.get("droplevel"):
            return []
        if int_name_not_first(case):        # always False since 20f8491 (see int_name_not_first): branch and stat are dead
            self.stats["int_name_not_first_cases_oracle_only"] = self.stats.get("int_name_not_first_cases_oracle_only", 0) + 1
            return []
        self._count(case)
        r = self._run(case)
        if r.error:
            self.stats["errors"][r.error] = self.stats["errors"].get(r.error, 0) + 1
            return ["error " + r.error] * 3
        c = canon_result(case, r)
        if isinstance(c, str):
            return ["unaligned: " + c] * 3
        return [show_table(c, 0), show_table(c, 1), result_names(case, r)]

    def compare(self, case, model_out, impl_out):
        d = super().compare(case, model_out, impl_out)
        if d is None or case.get("kind") in CONSUMER_KINDS:
            return d
        # the model describes the repaired code: while a repair's finding class is open, the unrepaired answer
        # (exactly that exception on exactly that class of cases) is not a disagreement
        r = self._run(case)
        pk = pending_class(case, r)
        if pk in self._open and impl_out == ["error " + r.error] * 3:
            t = self.stats.setdefault("correspondence_pending_repair", {})
            t[pk] = t.get(pk, 0) + 1
            return None
        if "record-duplicate-labels-overwritten" in self._open and record_dup_defect(case, r):
            t = self.stats.setdefault("correspondence_pending_repair", {})
            t["record-duplicate-labels-overwritten"] = t.get("record-duplicate-labels-overwritten", 0) + 1
            return None
        return d

    def _count(self, case):
        s = self.stats
        lay = layout(case)
        s["by_layout"][lay] = s["by_layout"].get(lay, 0) + 1
        k = case["obj"]["kind"] + ("(record)" if is_record(case) else "") + " x " + case["prm"]["kind"]
        s["by_kinds"][k] = s["by_kinds"].get(k, 0) + 1
        no = len(case["obj"]["keys"])
        np_ = len(case["prm"].get("keys", case["prm"].get("vals", [0])))
        sz = f"{no}x{np_}"
        s["sizes"][sz] = s["sizes"].get(sz, 0) + 1
        if no == np_:
            s["equal_length_cases"] += 1
        for lt in case.get("labels", {}).values():
            s["label_types"][lt] = s["label_types"].get(lt, 0) + 1
        if case["prm"]["kind"] in ("series", "frame"):
            s["present"]["yes" if shared_keys_present(case) else "no"] += 1
            if None in case["obj"]["names"] or None in case["prm"]["names"]:
                s["unnamed_level_cases"] += 1
        if align_shortcut(case):
            s["align_shortcut_triggers"] += 1
        for t in case.get("name_types", {}).values():
            s["level_name_types"][t] = s["level_name_types"].get(t, 0) + 1
        if case.get("outside"):
            s["outside_quantifier_cases"] += 1

    def nontrivial(self, case, model_out):
        if case.get("kind") in CONSUMER_KINDS or not model_out or model_out[0].startswith("error"):
            return None
        if layout(case) in ("equal", "scalar"):
            return None
        return json.dumps(case, sort_keys=True)

    # -------------------------------------------------------------- the property on the real code
    def oracle(self, case):
        if case.get("kind") == "woehler":
            lay = case["layout"]
            self.stats["consumer_cases"][lay] = self.stats["consumer_cases"].get(lay, 0) + 1
            k = f"{case.get('op', 'cycles')} pf={case.get('pf', 0.5)} scatter={case.get('scatter', 'none')} elem={case.get('elem_name', 'str')}"
            self.stats["consumer_pf_scatter"][k] = self.stats["consumer_pf_scatter"].get(k, 0) + 1
            return woehler_oracle(case)
        if case.get("kind") == "haigh":
            k = "haigh" if case.get("m2", True) else "haigh-default-M2"
            self.stats["consumer_cases"][k] = self.stats["consumer_cases"].get(k, 0) + 1
            res = haigh_oracle(case)
            if res is not None and res[1] == "haigh-callers-frame-modified" and self.known(res[1], res[0]):
                return None
            return res
        if case.get("kind") == "perf":
            return perf_oracle(case, self.stats)
        if case.get("kind") == "kept":
            k = "kept-" + case["what"]
            self.stats["consumer_cases"][k] = self.stats["consumer_cases"].get(k, 0) + 1
            return kept_oracle(case)
        if case.get("kind") == "haigh-multikey":
            k = f"haigh-multikey-{case['diagram']}-{case['via']}-{case['n_shared']}-{case['ids']}"
            self.stats["consumer_cases"][k] = self.stats["consumer_cases"].get(k, 0) + 1
            return multikey_oracle(case)
        if case.get("kind") == "matrix":
            k = f"matrix-{case['form']}-{'elem' if case['elem'] else 'noelem'}-{case['rows']}-{case['haigh']}"
            self.stats["consumer_cases"][k] = self.stats["consumer_cases"].get(k, 0) + 1
            res = matrix_oracle(case)
            if res is not None and res[1] in ("matrix-element-without-haigh-diagram", "droplevel-partnerless-parameter-row") \
                    and self.known(res[1], res[0]):
                return None
            return res
        if case.get("kind") == "haigh-five":
            self.stats["consumer_cases"]["haigh-five"] = self.stats["consumer_cases"].get("haigh-five", 0) + 1
            return haigh_five_oracle(case)
        if case.get("kind") == "haigh-transform":
            k = "haigh-transform-" + case["cycles"]
            self.stats["consumer_cases"][k] = self.stats["consumer_cases"].get(k, 0) + 1
            return haigh_transform_oracle(case)
        if case.get("kind") == "collective-raise":
            k = "collective-" + case["op"] + "-" + case.get("factor", "series")
            self.stats["consumer_cases"][k] = self.stats["consumer_cases"].get(k, 0) + 1
            res = collective_raise_oracle(case)
            if res is not None and res[1] == "collective-scale-shift-writes-into-collective" and self.known(res[1], res[0]):
                return None
            return res
        res = self._oracle_table(case)
        if res is not None and not res[1].startswith("inputs-modified") and int_name_not_first(case):
            return ("a level NAMED 0 that is not the first level is taken for level number 0: " + res[0], "int-level-name-as-position")
        if res is not None and case.get("share_index") and not res[1].startswith("inputs-modified"):
            distinct = {k: v for k, v in case.items() if k != "share_index"}
            if self._oracle_table(distinct) is None:
                return ("the result depends on the IDENTITY of the operands' Index object (the same operands with equal but "
                        "distinct Index objects are aligned correctly): " + res[0], "shared-index-identity")
        return res

    def _oracle_droplevel(self, case, r):
        """`Broadcaster.broadcast(parameter, droplevel=[levels of the object])` (HaighDiagram.transform is the user): the
        returned OBJECT is the one of the plain broadcast; the returned PARAMETER is not aligned to it on purpose: it has
        one row per key over the remaining levels, with the parameter's cells at that key.  Rows whose key lacks a remaining
        level (partner-less rows of the other operand) are left out of the parameter."""
        plain = {k: v for k, v in case.items() if k != "droplevel"}
        rp = self._run(plain)
        if rp.error:
            return None         # the plain call is judged by its own case
        if r.error:
            d = (f"broadcast(…, droplevel={case['droplevel']}) raised {r.error}: {r.errmsg[:80]} where the plain broadcast returns "
                 f"{len(rp.res_obj)} rows ({layout(case)})")
            if r.error == "IndexError" and nan_level_rows(case):
                if not self.known("droplevel-partnerless-parameter-row", d):
                    return (d, "droplevel-partnerless-parameter-row")
                return None
            return (d, "droplevel-raises")
        o, p = r.res_obj, r.res_prm
        co = canon_result(plain, rp)
        if isinstance(co, str):
            return None
        # the object part
        try:
            okeys = decode_index(case, o.index)
        except Exception as e:
            return (f"droplevel: the returned object's index cannot be read: {e}", "droplevel-object")
        if okeys != list(co) and set(okeys) != set(co):
            return (f"droplevel={case['droplevel']}: the returned object has keys {[sk(k) for k in okeys[:4]]}, the plain broadcast "
                    f"{[sk(k) for k in list(co)[:4]]}", "droplevel-object")
        if not np.array_equal(np.asarray(o, dtype=float), np.asarray(rp.res_obj, dtype=float), equal_nan=True):
            return (f"droplevel={case['droplevel']}: the returned object's cells differ from the plain broadcast's", "droplevel-object")
        # the parameter part
        dropped = set(case["droplevel"])
        (on, _), prm = tables(case)
        pn = prm[1]
        pid_ = {frozenset(zip(pn, k)): row for k, row in prm[2]}
        pval = value_rows(case, "p")
        want = {}
        for key, (_, rp_) in co.items():
            rest = frozenset((n, v) for n, v in key if n not in dropped)
            if any(v is None for _, v in rest):
                continue
            want.setdefault(rest, rp_)
        want_names = [n for n in o.index.names if n is None or sym_name(case, n) not in dropped]
        if sorted(map(repr, p.index.names)) != sorted(map(repr, want_names)):
            return (f"droplevel={case['droplevel']}: the returned parameter has the levels {list(p.index.names)}, the object {list(o.index.names)}", "droplevel-parameter")
        try:
            pkeys = decode_index(case, p.index)
        except Exception as e:
            return (f"droplevel: the returned parameter's index cannot be read: {e}", "droplevel-parameter")
        if len(set(pkeys)) != len(pkeys) or set(pkeys) != set(want):
            return (f"droplevel={case['droplevel']}: the returned parameter has the keys {[sk(k) for k in pkeys[:5]]} ({len(pkeys)}), expected one "
                    f"row for each of {[sk(k) for k in list(want)[:5]]} ({len(want)})", "droplevel-parameter")
        for k, row in zip(pkeys, rows_of(p)):
            kp = frozenset((n, v) for n, v in k if n in pn)
            got = to_ids(row, pid_.get(kp), pval.get(kp))
            if got != want[k]:
                return (f"droplevel={case['droplevel']}: parameter row {sk(k)} holds {got}, the original {want[k]}", "droplevel-parameter")
        return None

    def _oracle_table(self, case):
        r = self._run(case)
        if r.error:
            self.stats["raising_calls_checked_for_unchanged_operands"] += 1
        if case.get("share_index"):
            self.stats["shared_index_object_cases"] += 1 if r.shared else 0
        ref = ref_broadcast(case)
        shortcut = align_shortcut(case)
        klass_mis = "align-equal-values" if shortcut else "misaligned"
        # inputs unchanged (also when the call raised)
        for name, b, a in (("object", r.obj0, r.obj), ("parameter", r.prm0, r.prm)):
            u = unchanged(b, a)
            if u:
                return (f"the {name} was modified by broadcast ({u}): index now {list(a.index)[:4]} names {list(a.index.names)}"
                        + (f"; the call raised {r.error}" if r.error else ""),
                        "inputs-modified-after-raise" if r.error else "inputs-modified")
        if case.get("droplevel"):
            return self._oracle_droplevel(case, r)
        if case.get("outside"):     # outside the quantifier: raising is fine, the operands above must still be untouched
            return None
        if isinstance(ref, tuple) and ref[0] == "error":     # the documented ValueError for arrays of a wrong length
            if r.error == ref[1]:
                return None
            return (f"array of a wrong length: expected {ref[1]}, got {r.error or 'a result'}", "array-length")
        if r.error:
            pk = pending_class(case, r)
            if pk is not None:
                d = {"record-nonstring-entries": "a Series object whose index entries are not strings cannot be broadcast to an array",
                     "one-level-multiindex": "an operand whose index is a MultiIndex of one level cannot be broadcast",
                     "contained-multi-shared-missing-key": "a partner-less row of the operand that lacks a result level"}[pk]
                d = f"broadcast raised {r.error}: {r.errmsg[:60]} ({layout(case)}; {d})"
                if not self.known(pk, d):
                    return (d, pk)
                return None       # nothing was returned: no later clause to evaluate
            return (f"broadcast raised {r.error}: {r.errmsg} ({layout(case)})", "align-equal-values" if shortcut else "raises")
        o, p = r.res_obj, r.res_prm
        must, may = ref
        # identical index of the two returned objects
        if isinstance(o, (pd.Series, pd.DataFrame)) and isinstance(p, (pd.Series, pd.DataFrame)) and not \
                (is_record(case) and isinstance(o, pd.Series)):
            if list(o.index.names) != list(p.index.names):
                return (f"the returned objects have different index levels: object {list(o.index.names)}, parameter {list(p.index.names)} ({layout(case)})", klass_mis)
            if len(o.index) != len(p.index) or not all(a == b or (is_nan_label(a) and is_nan_label(b))
                                                        for ta, tb in zip(map(astuple, o.index), map(astuple, p.index))
                                                        for a, b in zip(ta, tb)):
                return (f"the returned objects have different indices: object {list(o.index)[:5]}, parameter {list(p.index)[:5]} ({layout(case)})", klass_mis)
        # the levels of a returned MultiIndex are sorted, as pandas builds them (slicing and the sortedness pandas derives
        # from the codes rely on it: with unsorted levels `o.loc['a':'b']` silently selects nothing)
        d = unsorted_levels(o) or unsorted_levels(p)
        if d and not self.known("result-index-levels-unsorted", d):
            return (d, "result-index-levels-unsorted")
        # the result's level names are the operands' level names (0 and '' are names, only None is "unnamed")
        if case["prm"]["kind"] in ("series", "frame") and isinstance(o, (pd.Series, pd.DataFrame)):
            want = [] if is_record(case) else [real_name(case, n, "o") for n in case["obj"]["names"]]
            want = want + [real_name(case, n, "p") for n in case["prm"]["names"]]
            wantset = {(type(n).__name__, repr(n)) for n in want if n is not None}
            gotset = {(type(n).__name__, repr(n)) for n in o.index.names if n is not None}
            n_none = sum(1 for n in want if n is None)
            if case.get("name_types_prm"):
                # a shared name spelt 1 on one operand and True on the other is ONE level.  The code on /repo HEAD returns the
                # parameter's spelling (ASSUMPTIONS); the demand here is weaker: the level occurs exactly once, under either spelling
                eq = lambda a, b: a is not None and b is not None and a == b and isinstance(a, str) == isinstance(b, str)
                ok = all(sum(1 for g in o.index.names if eq(g, w)) == 1 for w in want if w is not None) and \
                    all(any(eq(g, w) for w in want) for g in o.index.names if g is not None)
                if ok:
                    wantset = gotset
            if wantset != gotset or sum(1 for n in o.index.names if n is None) != n_none:
                return (f"result level names {list(o.index.names)} ({len(o)} rows) are not the operands' level names "
                        f"{[real_name(case, n) for n in case['obj']['names']]} and {[real_name(case, n) for n in case['prm']['names']]} ({layout(case)})",
                        klass_mis if shortcut else "level-names")
        # every level has the dtype of the operand level it comes from
        if case["prm"]["kind"] in ("series", "frame") and not is_record(case):
            d = level_dtype_failure(case, r)
            if d and not (d[1] == "level-dtype-object-with-missing-rows" and self.known(d[1], d[0])):
                return (d[0] + f" ({layout(case)})", d[1])
        d = record_entry_failure(case, r)
        if d:
            return (d, "record-entry-type")
        # a record comes back as a frame whose COLUMNS are the record's entries (labels, order, level names)
        if is_record(case) and isinstance(o, pd.DataFrame) and not record_dup_defect(case, r):
            if list(o.columns) != list(r.obj0.index) or list(o.columns.names) != list(r.obj0.index.names):
                return (f"the record's entries {list(r.obj0.index)[:4]} came back as columns {list(o.columns)[:4]} "
                        f"(names {list(o.columns.names)})", "record-columns")
        if record_dup_defect(case, r):
            d = (f"a Series object with the duplicated entry label {list(r.obj0.index)[0]!r} against an array: the first of the "
                 f"duplicated entries came back with the value of the last: {list(np.asarray(o, dtype=float)[0])[:4]} instead of "
                 f"{list(np.asarray(r.obj0, dtype=float))[:4]}")
            if not self.known("record-duplicate-labels-overwritten", d):
                return (d, "record-duplicate-labels-overwritten")
            return None
        c = canon_result(case, r)
        if isinstance(c, str):
            return (f"the returned objects are not aligned: {c} ({layout(case)})", klass_mis)
        # every row carries the originals' cells at the restricted key, or NaN
        (on, orows), prm = tables(case)
        od = {frozenset(zip(on, k)): row for k, row in orows}
        if prm[0] == "T":
            pn = prm[1]
            pd_ = {frozenset(zip(pn, k)): row for k, row in prm[2]}
            for key, (ro, rp) in c.items():
                ko = frozenset((n, v) for n, v in key if n in on)
                kp = frozenset((n, v) for n, v in key if n in pn)
                if ro != od.get(ko):
                    return (f"row {sk(key)}: object cells {ro}, the original holds {od.get(ko)} at {sk(ko)}", klass_mis if shortcut else "wrong-value")
                if rp != pd_.get(kp):
                    return (f"row {sk(key)}: parameter cells {rp}, the original holds {pd_.get(kp)} at {sk(kp)}", klass_mis if shortcut else "wrong-value")
                if {n for n, _ in key} != set(on) | set(pn):
                    return (f"row {sk(key)}: levels are not the union of the operands' levels", "levels")
        # nothing lost, nothing invented: the relation the documentation describes (cross join: |obj|*|prm| rows)
        missing = [k for k in must if k not in c]
        extra = [k for k in c if k not in must and k not in may]
        wrong = [k for k in c if (k in must and c[k] != must[k]) or (k in may and c[k] != may[k])]
        if missing or extra or wrong:
            return (f"result differs from the relational join: missing rows {[sk(k) for k in missing[:3]]}, extra rows "
                    f"{[sk(k) for k in extra[:3]]}, rows with other cells {[(sk(k), c[k]) for k in wrong[:2]]}; "
                    f"{len(c)} rows, {len(must)} expected" + (f" (+ up to {len(may)} partner-less rows with NaN levels)" if may else "")
                    + f" ({layout(case)})", klass_mis if shortcut else "join")
        if may:
            kept = sum(1 for k in may if k in c)
            t = self.stats.setdefault("partnerless_rows_lacking_a_level", {"kept_with_nan_level": 0, "left_out": 0})
            t["kept_with_nan_level"] += kept
            t["left_out"] += len(may) - kept
        # row order where the documentation fixes it
        want_order = documented_order(case)
        if want_order is not None and list(c) != want_order:
            return (f"row order of the result {[sk(k) for k in list(c)[:4]]} is not the documented one "
                    f"{[sk(k) for k in want_order[:4]]} ({layout(case)})", "row-order")
        # dtypes (recorded, not judged: the property speaks of values)
        try:
            dt = self.stats.setdefault("dtypes_object_original_to_returned", {})
            k = f"{np.asarray(r.obj0).dtype}->{np.asarray(o).dtype}"
            dt[k] = dt.get(k, 0) + 1
        except Exception:
            pass
        return None

    # -------------------------------------------------------------- shrinking
    def shrink(self, case, still_fails):
        if case.get("kind") in CONSUMER_KINDS:
            cur = dict(case)
            if case.get("kind") == "matrix":
                for k, v in (("nb", 2), ("n_el", 1), ("n_h", 1), ("order", 0)):
                    if cur[k] != v:
                        cand = dict(cur, **{k: v})
                        if still_fails(cand):
                            cur = cand
                return cur
            for k in [k for k in ("n_e", "n_s") if k in case]:
                while cur[k] > 1:
                    cand = dict(cur, **{k: cur[k] - 1})
                    if still_fails(cand):
                        cur = cand
                    else:
                        break
            return cur
        cur = copy.deepcopy(case)
        changed = True
        while changed:
            changed = False
            for side in ("obj", "prm"):
                op = cur[side]
                if "keys" in op:
                    for i in range(len(op["keys"])):
                        if len(op["keys"]) <= 1:
                            break
                        cand = copy.deepcopy(cur)
                        del cand[side]["keys"][i]
                        if cur.get("share_index"):      # one Index object: both operands lose the row
                            del cand["prm" if side == "obj" else "obj"]["keys"][i]
                        if still_fails(cand):
                            cur, changed = cand, True
                            break
                    if op.get("ncols", 1) > 1 and op["kind"] == "frame":
                        cand = copy.deepcopy(cur)
                        cand[side]["ncols"] = 1
                        if still_fails(cand):
                            cur, changed = cand, True
                elif "vals" in op and len(op["vals"]) > 1:
                    cand = copy.deepcopy(cur)
                    cand[side]["vals"] = op["vals"][:-1]
                    if still_fails(cand):
                        cur, changed = cand, True
            for nm in list(cur.get("name_types", {})):
                cand = copy.deepcopy(cur)
                del cand["name_types"][nm]
                if still_fails(cand):
                    cur, changed = cand, True
            for side in ("obj", "prm"):
                if cur[side].get("mi1"):
                    cand = copy.deepcopy(cur)
                    del cand[side]["mi1"]
                    if still_fails(cand):
                        cur, changed = cand, True
            for k, plain in (("cells", "int"), ("rec_labels", "str"), ("anon_plain", None)):
                if k in cur and cur[k] != plain:
                    cand = copy.deepcopy(cur)
                    if plain is None:
                        del cand[k]
                    else:
                        cand[k] = plain
                    if still_fails(cand):
                        cur, changed = cand, True
            if cur.get("labels") and any(v != "int" for v in cur["labels"].values()):
                cand = copy.deepcopy(cur)
                cand["labels"] = {k: "int" for k in cur["labels"]}
                if still_fails(cand):
                    cur, changed = cand, True
        return cur
