"""C14: load collectives and histograms account for every cycle exactly once.

Correspondence: the Lean model `Model/Collective.lean` (driver op `c14 …`) against
`LoadCollective` / `LoadHistogram` / `rebin_histogram` / `combine_histogram` / `LoopValueRecorder.histogram`.
Oracle: the property's own relations evaluated on the real code (independent of the Lean model)."""
import itertools
import json
import math
import warnings

import numpy as np
import pandas as pd

from . import core
from .core import Prop, f2h, h2f

SOURCES = [
    "src/pylife/stress/collective/load_collective.py",
    "src/pylife/stress/collective/load_histogram.py",
    "src/pylife/stress/collective/abstract_load_collective.py",
    "src/pylife/utils/histogram.py",
    "src/pylife/stress/rainflow/recorders.py",
]

_MOD = {}


def mods():
    if not _MOD:
        import pylife.stress.collective  # noqa: F401  registers the accessors
        from pylife.utils.histogram import rebin_histogram, combine_histogram
        from pylife.stress.rainflow.recorders import LoopValueRecorder
        _MOD.update(rebin=rebin_histogram, combine=combine_histogram, rec=LoopValueRecorder)
    return _MOD


NAN = float("nan")


def nn(x):
    """JSON null stands for a NaN content (an unoccupied class)."""
    return NAN if x is None else float(x)


def hx(xs):
    return " ".join(f2h(nn(x)) for x in xs)


def err(e):
    return "err:" + type(e).__name__


# ------------------------------------------------------------------ harness errors vs. results that cannot be evaluated
class HarnessError(Exception):
    """A failure while the harness builds its OWN inputs (frames, bin arguments, reference values): a bug of the
    harness -> infrastructure error (exit 2).  Any other exception raised while a result of the implementation is
    taken apart means the implementation returned something of an unexpected shape: a failure on that input."""


def builder(fn):
    import functools

    @functools.wraps(fn)
    def wrapped(*a, **kw):
        try:
            return fn(*a, **kw)
        except HarnessError:
            raise
        except Exception as e:        # noqa: BLE001
            raise HarnessError(f"harness: {fn.__name__}: {type(e).__name__}: {e}") from e
    return wrapped


def _where(e):
    import traceback
    fr = [f for f in traceback.extract_tb(e.__traceback__) if f.filename.endswith("c14.py")]
    return f"c14.py:{fr[-1].lineno} `{(fr[-1].line or '').strip()[:90]}`" if fr else "?"


# ------------------------------------------------------------------ building the real objects
def full_names(case):
    """Names of all index levels of a collective case in index order: the extra levels (None = an unnamed level) with the
    cycle axis `cycle_number` inserted at `cyc_pos` (default: last)."""
    levels = list(case.get("levels") or [])
    pos = case.get("cyc_pos")
    if pos is None:
        pos = len(levels)
    return levels[:pos] + ["cycle_number"] + levels[pos:]


def group_names(case):
    """The levels a histogram is grouped by: every NAMED level but `axis`; none when axis is None (one histogram)."""
    axis = case.get("axis")
    if axis is None or not case.get("levels"):
        return []
    return [n for n in full_names(case) if n != axis and n is not None]


@builder
def cycle_labels(case):
    rows = case["rows"]
    if case.get("idx"):
        return list(case["idx"])
    if not case.get("levels"):
        return list(range(len(rows)))
    counter, out = {}, []
    for k in case["keys"]:
        k = tuple(k)
        counter[k] = counter.get(k, -1) + 1
        out.append(counter[k])
    return out


@builder
def level_arrays(case):
    """name position -> list of labels, for every level of the index (in index order)."""
    levels = list(case.get("levels") or [])
    pos = case.get("cyc_pos")
    if pos is None:
        pos = len(levels)
    cols = [[k[j] for k in case["keys"]] for j in range(len(levels))]
    return cols[:pos] + [cycle_labels(case)] + cols[pos:]


@builder
def row_keys(case):
    """Per row the group key (tuple over group_names)."""
    g = group_names(case)
    if not g:
        return [()] * len(case["rows"])
    names, arrays = full_names(case), level_arrays(case)
    sel = [names.index(n) for n in g]
    return [tuple(arrays[j][i] for j in sel) for i in range(len(case["rows"]))]


def group_keys(case):
    """Sorted distinct group keys (tuples) of a case, [()] when the result is one histogram."""
    return sorted(set(row_keys(case)))


def rows_of_group(case, key):
    return [r for r, k in zip(case["rows"], row_keys(case)) if k == key]


@builder
def make_frame(case):
    """The DataFrame of a collective case.  rows = [from, to, cycles]; form 'rm' hands the real code
    range/mean columns instead; extra index levels from `levels`/`keys` (any order, `cyc_pos`), the cycle axis is `cycle_number`."""
    rows = case["rows"]
    fr = np.asarray([r[0] for r in rows], dtype=float)
    to = np.asarray([r[1] for r in rows], dtype=float)
    if case.get("form") == "rm":
        data = {"range": [r[0] for r in rows], "mean": [r[1] for r in rows]}
    else:
        data = {"from": fr, "to": to}
    if case.get("cycles"):
        cyc = [float(r[2]) for r in rows]
        if case.get("int_cycles"):
            cyc = np.asarray(cyc, dtype=np.int64)
        data["cycles"] = cyc
    if case.get("levels"):
        index = pd.MultiIndex.from_arrays(level_arrays(case), names=full_names(case))
    else:
        # `idx`: explicit labels, possibly repeated (pd.concat of recorded blocks, each numbered from 0)
        index = pd.Index(case["idx"] if case.get("idx") else range(len(rows)),
                         name="cycle_number" if case.get("named_axis") else None)
    return pd.DataFrame(data, index=index)


@builder
def bins_arg(b):
    t = b["t"]
    if t == "count":
        # the class count as a Python int, a numpy integer or a 0-d array (`as`)
        return {"np64": np.int64, "np32": np.int32, "zerod": np.array}.get(b.get("as"), int)(int(b["n"]))
    if t == "npcount":
        return np.int64(b["n"])
    if t == "count0d":
        return np.array(int(b["n"]))
    if t == "iv2":
        # intervals from two edge arrays (like left, left + width): the shared edges may differ in the last bit;
        # the code takes left[0] and the RIGHT bounds as class edges = b["e"]
        return pd.IntervalIndex.from_arrays([float(x) for x in b["left"]], [float(x) for x in b["e"][1:]])
    if t == "count2":
        return [int(b["nx"]), int(b["ny"])]
    if t in ("edges2", "lists2"):
        ex, ey = [float(x) for x in b["ex"]], [float(x) for x in b["ey"]]
        return [ex, ey] if t == "lists2" else [np.asarray(ex), np.asarray(ey)]
    if t in ("iv_gap", "iv_overlap"):
        return pd.IntervalIndex.from_tuples([tuple(x) for x in b["iv"]])
    e = [float(x) for x in b["e"]]
    if t == "edges":
        return e
    if t == "array":
        return np.asarray(e)
    if t == "iv":
        return pd.IntervalIndex.from_breaks(e)
    if t == "ivleft":
        return pd.IntervalIndex.from_breaks(e, closed="left")
    if t == "ia":
        return pd.arrays.IntervalArray.from_breaks(e)
    raise ValueError(t)


def edges_of_index(ix):
    return [float(ix.left[0])] + [float(x) for x in ix.right]


def edges_of_level(ix):
    """Edges of an interval level whose classes repeat (MultiIndex from_product): distinct classes in order of appearance."""
    seen, ivs = set(), []
    for iv in ix:
        k = (float(iv.left), float(iv.right))
        if k not in seen:
            seen.add(k)
            ivs.append(k)
    return [ivs[0][0]] + [k[1] for k in ivs]


def split_result(case, res, nbin_levels=None):
    """Per group key (sorted) the sub-series of a histogram result."""
    g = group_names(case)
    if not g:
        return {(): res}
    out = {}
    for key in group_keys(case):
        out[key] = res.xs(key if len(g) > 1 else key[0], level=g if len(g) > 1 else g[0])
    return out


def np_class(edges, v):
    """numpy's rule, naive: class i with e_i <= v < e_{i+1}; the last class also holds v = e_n."""
    n = len(edges) - 1
    for i in range(n):
        if edges[i] <= v < edges[i + 1]:
            return i
    if n >= 1 and v == edges[n] and edges[n - 1] <= v:
        return n - 1
    return None


def ref_share(tl, tr, last, l, r):
    """Reference for the oracle: fraction of the source class (l, r] that the target class (tl, tr] receives - linear for a
    class of positive width, the whole content of a zero-width class goes to the class numpy's rule puts its point in."""
    if l < r:
        return max(0.0, min(tr, r) - max(tl, l)) / (r - l) if (l < tr and tl < r) else 0.0
    return 1.0 if (tl <= r and (r < tr or (last and r <= tr))) else 0.0


def ref_rebin(src, breaks):
    n = len(breaks) - 1
    return [sum(s[2] * ref_share(breaks[j], breaks[j + 1], j == n - 1, s[0], s[1]) for s in src if s[2] is not None and s[2] == s[2])
            for j in range(n)]


# ------------------------------------------------------------------ generators
def dy(rng, lo=-8.0, hi=8.0, q=8):
    """A dyadic number k/q in [lo, hi]: sums, differences, halves and small products are exact in binary64."""
    return rng.randint(int(lo * q), int(hi * q)) / q


def gen_rows(rng, n, with_cycles, small=False):
    rows = []
    for _ in range(n):
        mode = rng.random()
        if small:
            fr, to = float(rng.randint(-2, 4)), float(rng.randint(-2, 4))
        elif mode < 0.15:
            fr = to = dy(rng)
        elif mode < 0.25:
            fr, to = dy(rng), 0.0
        else:
            fr, to = dy(rng), dy(rng)
        cyc = rng.choice([1.0, 2.0, 0.5, 3.0, 1e6, 0.0, 7.25]) if with_cycles else 1.0
        rows.append([fr, to, cyc])
    return rows


def ulp(x, up):
    return float(np.nextafter(x, math.inf if up else -math.inf))


def gen_edges(rng, rows, two_d):
    """Edge lists that put values exactly on edges (or one ulp beside them), irregular widths, a single class, a zero-width
    class (the LAST class of zero width is the one numpy fills: it holds the values equal to the last edge)."""
    vals = sorted({abs(r[0] - r[1]) for r in rows} | ({(r[0] + r[1]) / 2 for r in rows} if two_d else set()))
    style = rng.random()
    if style < 0.2:                                   # one class
        a = rng.choice(vals + [0.0, dy(rng)])
        return [a, a + rng.choice([0.5, 1.0, 4.0, 20.0])]
    k = rng.randint(2, 6)
    pool = vals + [dy(rng, -2, 16, 2) for _ in range(k)] + [0.0]
    e = sorted(set(rng.sample(pool, min(len(pool), k + 1))))
    if len(e) < 2:
        e = [e[0], e[0] + 1.0]
    if 0.80 < style <= 0.86:                          # an edge one ulp beside a value
        j = rng.randrange(len(e))
        e[j] = ulp(e[j], rng.random() < 0.5)
        e = sorted(set(e))
        if len(e) < 2:
            e = [e[0], e[0] + 1.0]
    if style > 0.93:                                  # a zero-width class
        j = rng.randrange(len(e))
        e.insert(j, e[j])
    elif style > 0.86:                                # the last class has zero width, at a value where possible
        inside = [v for v in vals if v > e[0]]
        if inside and rng.random() < 0.8:
            top = rng.choice(inside)
            e = [x for x in e if x < top] + [top]
        e.append(e[-1])
    return e


def gen_levels(rng, n):
    style = rng.random()
    if style < 0.45 or n == 0:
        return None, None
    if style < 0.8:
        levels = ["element_id"]
        keys = [[rng.choice([10, 20, 30])] for _ in range(n)]
    else:
        levels = ["element_id", "node"]
        keys = [[rng.choice([10, 20]), rng.choice(["a", "b"])] for _ in range(n)]
    return levels, keys


def gen_layout(rng, n):
    """Index layout of a histogram case: extra levels in any position around the cycle axis, the axis to aggregate along
    chosen among ALL levels (or None: one histogram over everything), possibly one unnamed level (never grouped by)."""
    levels, keys = gen_levels(rng, n)
    if not levels:
        return {"levels": None, "keys": None, "axis": None}
    lay = {"levels": list(levels), "keys": keys}
    if rng.random() < 0.5:
        lay["cyc_pos"] = rng.randint(0, len(levels))
    if len(levels) == 2 and rng.random() < 0.25:
        lay["levels"][rng.randrange(2)] = None        # an unnamed level
    named = [lv for lv in lay["levels"] if lv is not None]
    u = rng.random()
    if u < 0.2:
        lay["axis"] = None
    elif u < 0.45 and len(named) >= 1:
        lay["axis"] = rng.choice(named)               # aggregate along an extra level: groups = the other levels + cycle_number
    else:
        lay["axis"] = "cycle_number"
    return lay


def gen_idx(rng, n):
    """Cycle labels with repetitions: blocks that restart at 0 (pd.concat of recordings) or a few random labels."""
    if n < 2 or rng.random() < 0.55:
        return None
    if rng.random() < 0.6:
        k = rng.randint(1, max(1, n - 1))
        return [i % k for i in range(n)]
    return [rng.randint(0, max(1, n // 2)) for _ in range(n)]


def integral(vals):
    return all(v is not None and float(v) == int(v) and abs(v) < 2 ** 40 for v in vals)


class C14(Prop):
    ID = "C14"
    SOURCES = SOURCES
    LEAN_MODULES = ["Proofs.C14"]
    THEOREMS = ["PylifeVerif.C14." + t for t in (
        "collective_consistency", "R_fillna", "rangemean_roundtrip", "fromto_roundtrip", "fromto_roundtrip_id",
        "scale_equivariant", "shift_equivariant", "histogram_rm_consistency", "histogram_ft_consistency",
        "histogram_exactly_one_class", "histogram_partition", "histogram2d_partition", "range_hist_is_marginal",
        "count_histogram_partition", "count_histogram2d_partition", "count_fromto_histogram_partition",
        "rebin_conserves_total", "rebin_zero_width_class", "rebin_zero_width_class_kept", "rebinN_conserves_total",
        "rebin_same_binning_id", "rebin_same_binning_id_point_last", "rebin_compose_literal_false",
        "rebin_compose_conserves_total", "rebin_compose_of_kap", "rebin_compose_of_refines", "rebin_compose_of_breaks_subset",
        "rebin_compose_of_target_coarsens",
        "rebin2d_cell_is_product", "rebin2d_conserves_total", "rebin2d_by_level_name",
        "combine_sum_conserves", "rebin_nan_default_marks_unoccupied", "rebin_nan_default_conserves_total",
        "combine_sum_conserves_optional", "rebin_then_combine_conserves", "hist_rebin_combine_conserves")]
    PARTIAL = {}
    RULE = ("case kinds: coll (rows from/to/cycles or range/mean; derived quantities; scale/shift by scalar, numpy scalar, 0-d array, one value per cycle as ndarray / list, or Series; source collective and operand unchanged afterwards, the same call twice on the same object gives the same result; ONE accessor object kept while its from/to frame is changed in place - cycles column added / overwritten / deleted, loads overwritten - answers like a fresh accessor, also for range_histogram / histogram with and without axis), "
            "hist (range_histogram / histogram / recorder histogram with edges, class count as int / numpy integer / 0-d array, [ex, ey] / [nx, ny], IntervalIndex/IntervalArray right- or left-closed, intervals from two edge arrays whose shared edges differ in the last bit "
            "(iv2: must be ACCEPTED as a gap-free binning, /repo 4183ee2; a shared edge different from 0.0 is moved by one ulp, a shared edge AT 0.0 - inserted into the edges of about half of the cases that cross zero - is replaced by rounding noise of 2**-54 of the larger neighbour, which the code accepts since /repo 125ac37, adjacency judged relative to the class width), interval bins with real gaps / overlaps (iv_gap / iv_overlap: must be "
            "rejected with ValueError, /repo 5cb9f77), one class, zero-width class, values exactly on edges or one ulp "
            "beside them, extra index levels in any order, unnamed level, axis = any level or None, recording in chunks), lh (LoadHistogram "
            "range/mean and from/to matrices: mids / left / right class location, scale, shift by scalar or Series, R, amplitude_histogram, "
            "cumulated_range), rebin (arbitrary source classes incl. zero width, int64 contents -> breaks incl. repeated breaks / class count "
            "(int, np.int64 / np.int32; a 0-d array count = refused with TypeError or the same as the int, oracle only) / single interval / invalid binnings; twice, second target arbitrary / coarsening the first), rebin2d (two "
            "interval levels, NaN contents, nan_default, third non-interval level, class count), combine (sum/min/max/mean, int64 and float "
            "mixed, level order permuted), combine2d (combination of two-level histograms, NaN contents, level order swapped / rows reversed, level names both given / one or both "
            "unnamed / the same name twice; oracle only), pipe (re-bin to a "
            "common binning + combine, NaN), chain (collective -> range_histogram -> re-bin -> "
            "combine; optionally every histogram's class level renamed to None / 'x': index_name).  All numbers dyadic so that + - x are exact; model lines are compared bit-exactly except the lines of the kinds "
            "rebin / rebin2d / combine / pipe / chain (1e-12 relative to the largest magnitude on the line, summation order).  "
            "non-trivial = at least one non-empty class / a derived quantity that is not zero; distinct by full case")
    ASSUMPTIONS = [
        "numpy's np.histogram / np.histogram2d / np.linspace and pandas' IntervalIndex (from_breaks, overlaps, mid), groupby and "
        "broadcasting of scale/shift operands are modelled by the bin rule [e_i, e_{i+1}) with the last class closed, "
        "k*step+start, l<r' & l'<r, 0.5*(l+r) and a per-row operand; the correspondence run is what ties these to the runtimes",
        "theorems are over the real numbers: rounding of class shares and weighted sums is not modelled (correspondence uses dyadic inputs; "
        "the oracle uses a relative tolerance of 1e-9 where a sum is re-associated); loads and contents are finite (NaN loads, NaN cycle "
        "counts and the sign of zero are not generated; R for upper = 0 != lower is +-inf in the code and in the Float run of the model, "
        "the real-number theorems exclude it by `upper r != 0`)",
        "re-binning: a source class of zero width is a point mass that goes to the target class numpy's bin rule puts the point in "
        "(repaired behaviour, /repo commit d3f7088; before the fix its content was dropped: finding class rebin-zero-width-source, fixed by d3f7088); "
        "NaN contents are modelled as absent contents (Option; skipped by sums as pandas' groupby-sum / Series.sum do), nan_default=True as "
        "'no occupied source class overlaps'; aggregations other than sum (min/max/mean), the combination of two-level histograms, "
        "two-level re-binning with NaN contents / an integer class count / a third non-interval level, LoadHistogram with a Series operand "
        "or the left/right class location, interval bins with gaps or overlaps (must be rejected), invalid re-bin targets, a re-bin class "
        "count given as a 0-d array (count0d) or as the legacy np.int64 target (npcount) - class counts given as np.int64 / np.int32 / 0-d array "
        "to the histograms and as np.int64 / np.int32 to rebin_histogram DO go through the model lines rhistn / hist2n / fthistn / rebinn (the "
        "line carries the integer) -, amplitude_histogram, cumulated_range, the recorder's histogram_numpy and 'inputs unchanged / asking again gives "
        "the same answers' are checked by the oracle only; LoadHistogram.scale with a negative factor is rejected by "
        "pandas (left > right); the state of accessor objects is not modelled (every case builds fresh objects)",
        "the pandas interval labels '(a, b]' of a histogram are labels only; class membership follows numpy's rule (a <= v < b, last class "
        "closed); bins given as a left-closed IntervalIndex come back labelled right-closed with the same contents",
        "the clause 'and composes' is literally false for overlap-proportional re-binning (theorem rebin_compose_literal_false, corpus "
        "compose-literal-false; the oracle counts how often A->B->C differs from A->C: distribution.compose_literal_differs); proved and "
        "checked: totals always compose (rebin_compose_conserves_total); contents compose under guards - source classes of positive width, the "
        "middle binning B strictly increasing, and either B covers the source and refines it (rebin_compose_of_refines, "
        "rebin_compose_of_breaks_subset) or every break of the last binning is a break of B (rebin_compose_of_target_coarsens).  Reading "
        "'and composes' as 'totals compose' is an INTERPRETATION of the property text, not a finding against the code",
        "three fixed classes recorded in KNOWN_FINDINGS.jsonl - combine-unnamed-levels (/repo cdc99ee, regression of d0db0a6), "
        "interval-bins-last-bit (/repo 4183ee2, regression of 5cb9f77) and interval-bins-edge-at-zero (/repo 125ac37, leftover of 4183ee2) - are "
        "labels of the record only: no clause of this oracle emits them.  "
        "Their inputs are generated (combine2d with unnamed / twice-named levels; hist bins `iv2` with shared edges moved by one ulp resp. with an "
        "edge at zero replaced by rounding noise of the neighbours' size - generated only, no corpus case holds it), but a recurrence would be reported under the "
        "generic classes combine-error (combine_histogram raises) and histogram-error (histogram / range_histogram raises), i.e. as a NEW "
        "failure that the recorded classes do not cover",
    ]
    PARALLEL = 8          # impl_lines / oracle are sharded over forked processes by core.pmap

    def __init__(self):
        self.stats = {"kinds": {}, "bins": {}, "errors": {}, "on_edge_values": 0, "out_of_range_rows": 0,
                      "rows_total": 0, "max_groups": 0, "with_cycles": 0, "from_gt_to": 0, "from_lt_to": 0, "from_eq_to": 0,
                      "single_class": 0, "zero_width_class": 0, "zero_width_last_class_filled": 0, "rebin_covered": 0,
                      "rebin_not_covered": 0, "rebin_zero_width_source": 0, "rebin_refining": 0, "rebin_coarsening": 0,
                      "compose_literal_checked": 0, "compose_literal_differs": 0, "operand": {}, "repeated_index_labels": 0,
                      "repeated_index_labels_with_cycles": 0, "layouts": {}, "dtypes": {}}
        self.exhaustive = False

    # -------------------------------------------------------------- generation
    def generate(self, rng, tier):
        thorough = tier != "quick"
        # exhaustive small scope: all collectives of <= 2 rows over a small alphabet x all edge lists over it
        alpha = [0.0, 1.0, 2.0, 3.0] if not thorough else [-1.0, 0.0, 1.0, 2.0, 3.0]
        edge_alpha = [0.0, 1.0, 2.0, 3.0]
        self.exhaustive = True
        self.stats["exhaustive_scope"] = (f"all collectives of 1..2 rows with from,to in {alpha} x (all increasing edge lists "
                                          f"over {edge_alpha} (>= 2 edges) + class counts 1, 2, 3) x range_histogram and histogram"
                                          + ("" if thorough else " (histogram: one-row collectives)")
                                          + "; all one-dimensional histograms with breaks over {0, 1, 2} (repeats allowed: zero-width "
                                            "classes) and contents {0, 1} x all targets with breaks over {0, 1, 2, 3}")
        rows1 = [[a, b, 1.0] for a in alpha for b in alpha]
        edge_lists = [list(c) for k in range(2, len(edge_alpha) + 1) for c in itertools.combinations(edge_alpha, k)]
        colls = [[r] for r in rows1] + [[r, s] for r in rows1 for s in rows1 if (r <= s)]
        for coll in colls:
            for e in edge_lists:
                # class membership is decided row by row: the quick tier runs the range/mean matrix on the one-row collectives only
                for which in (("range", "rm") if thorough or len(coll) == 1 else ("range",)):
                    yield {"kind": "hist", "which": which, "rows": coll, "bins": {"t": "edges", "e": e}, "exh": True}
            for n in (1, 2, 3):
                for which in (("range", "rm") if thorough or len(coll) == 1 else ("range",)):
                    yield {"kind": "hist", "which": which, "rows": coll, "bins": {"t": "count", "n": n}, "exh": True}
        # re-binning: every small source (zero-width classes included) x every small target
        src_breaks = [list(c) for k in (2, 3) for c in itertools.combinations_with_replacement([0.0, 1.0, 2.0], k)]
        tgt_breaks = [list(c) for k in (2, 3) for c in itertools.combinations_with_replacement([0.0, 1.0, 2.0, 3.0], k)]
        for sb in src_breaks:
            for vals in itertools.product([0.0, 1.0], repeat=len(sb) - 1):
                if not any(vals):
                    continue
                src = [[sb[i], sb[i + 1], 3.0 * vals[i] + i * vals[i]] for i in range(len(sb) - 1)]
                for tb in tgt_breaks:
                    yield {"kind": "rebin", "src": src, "src_style": "breaks", "target": {"t": "breaks", "b": tb}, "exh": True}
        n = 1000 if not thorough else 6000
        for _ in range(n):
            yield from self._random_case(rng)

    KINDS = ["coll", "coll", "hist", "hist", "hist", "hist", "hist", "lh", "lh", "rebin", "rebin", "rebin", "rebin", "rebin2d", "rebin2d",
             "combine", "combine", "pipe", "pipe", "combine2d", "chain", "chain", "chain"]

    def _random_case(self, rng):
        kind = rng.choice(self.KINDS)
        if kind == "coll":
            n = rng.choice([1, 2, 3, 5, 8])
            with_c = rng.random() < 0.5
            form = rng.choice(["ft", "ft", "rm"])
            rows = gen_rows(rng, n, with_c)
            if form == "rm":
                rows = [[abs(r[0]), r[1], r[2]] for r in rows]   # range >= 0, mean
            levels, keys = gen_levels(rng, n)
            case = {"kind": "coll", "form": form, "rows": rows, "cycles": with_c, "levels": levels, "keys": keys}
            idx = gen_idx(rng, n)
            if idx:
                case["idx"] = idx
            arraylike = ["array", "array", "list", "zerod", "npscalar"]      # non-pandas operands: the Broadcaster hands back the object itself
            opk = rng.choice(["scalar", "scalar", "series_level", "series_new"] + arraylike) if levels else rng.choice(["scalar", "scalar", "series_new"] + arraylike)
            if idx and opk.startswith("series"):
                opk = rng.choice(["scalar"] + arraylike)     # Series operands on repeated labels are the broadcaster's business (C13), pandas refuses them
            case["op"] = rng.choice(["scale", "shift"])
            if opk in ("scalar", "zerod", "npscalar"):
                case["operand"] = {"t": opk, "v": rng.choice([dy(rng, -4, 4, 4), 0.0, 1.0, -1.0, 2.5])}
            elif opk in ("array", "list"):
                case["operand"] = {"t": opk, "v": [rng.choice([dy(rng, -4, 4, 4), 2.0, -1.0, 0.5]) for _ in range(n)]}   # one value per cycle
            elif opk == "series_level":
                lv = rng.choice(levels)
                vals = sorted({k[levels.index(lv)] for k in keys}, key=str)
                case["operand"] = {"t": "series", "level": lv, "index": vals, "v": [dy(rng, -4, 4, 4) for _ in vals]}
            else:
                m = rng.randint(1, 3)
                case["operand"] = {"t": "series", "level": "other", "index": list(range(1, m + 1)), "v": [dy(rng, -4, 4, 4) for _ in range(m)]}
            yield case
        elif kind == "hist":
            yield self._hist_case(rng)
        elif kind == "lh":
            n = rng.choice([1, 2, 4])
            t = rng.choice(["rm", "rm1", "ft"])
            cls, seen_keys = [], set()
            while len(cls) < n:
                a, b = sorted([dy(rng, 0, 16, 4), dy(rng, 0, 16, 4)]) if t != "ft" else sorted([dy(rng), dy(rng)])
                c, d = sorted([dy(rng), dy(rng)])
                key = (a, b) if t == "rm1" else (a, b, c, d)
                if key in seen_keys:
                    continue            # a histogram does not hold one class twice (pandas cannot even join a non-unique index)
                seen_keys.add(key)
                cls.append([a, b, c, d])
            case = {"kind": "lh", "t": t, "classes": cls, "vals": [float(rng.randint(0, 50)) for _ in range(n)],
                    "f": rng.choice([dy(rng, 0, 4, 4), 0.0, 1.0, 2.0]), "d": dy(rng, -4, 4, 4),
                    "neg": rng.choice([None, None, -1.0, -0.5])}
            if rng.random() < 0.4:
                m = rng.randint(1, 3)
                case["series"] = {"index": list(range(1, m + 1)), "f": [dy(rng, 0, 4, 4) for _ in range(m)],
                                  "d": [dy(rng, -4, 4, 4) for _ in range(m)]}
            if rng.random() < 0.3:
                case["int_vals"] = True
            yield case
        elif kind == "rebin":
            yield self._rebin_case(rng)
        elif kind == "rebin2d":
            yield self._rebin2d_case(rng)
        elif kind == "pipe":
            yield self._pipe_case(rng)
        elif kind == "chain":
            yield self._chain_case(rng)
        elif kind == "combine2d":
            ax = sorted({dy(rng, 0, 8, 2) for _ in range(rng.randint(2, 3))} | {0.0, 8.0})
            ay = sorted({dy(rng, -4, 4, 2) for _ in range(rng.randint(2, 3))} | {-4.0, 4.0})
            ncell = (len(ax) - 1) * (len(ay) - 1)
            k = rng.choice([2, 2, 3])
            hists = [[(None if rng.random() < 0.3 else float(rng.randint(0, 80)) / 2) for _ in range(ncell)] for _ in range(k)]
            names = rng.choice([["range", "mean"], ["from", "to"], [None, None], ["x", "x"], [None, "mean"]])
            by_name = None not in names and names[0] != names[1]      # the level order can only differ where the names tell the levels apart
            yield {"kind": "combine2d", "names": names, "ax": ax, "ay": ay, "hists": hists,
                   "reversed": [rng.random() < 0.25 for _ in range(k)], "swapped": [by_name and rng.random() < 0.35 for _ in range(k)]}
        else:
            k = rng.choice([1, 2, 3, 4])
            hists = []
            pool = [[dy(rng, -4, 4, 2), 0.0] for _ in range(4)]
            pool = [[p[0], p[0] + rng.choice([0.5, 1.0, 2.0])] for p in pool]
            with_nan = rng.random() < 0.5

            def val():
                return None if with_nan and rng.random() < 0.35 else float(rng.randint(0, 40)) / rng.choice([1, 1, 4])
            if rng.random() < 0.45:
                # all histograms on one identical index (e.g. after a common re-binning)
                m = rng.choice([1, 2, 3, 5])
                br = sorted({dy(rng, -4, 8, 2) for _ in range(m + 1)} | {-4.0, 8.0})
                cls = [[br[i], br[i + 1]] for i in range(len(br) - 1)]
                hists = [[[c[0], c[1], val()] for c in cls] for _ in range(max(k, 2))]
            else:
                for _ in range(k):
                    m = rng.choice([0, 1, 2, 3, 5])
                    h = []
                    for _ in range(m):
                        if rng.random() < 0.6:
                            l, r = rng.choice(pool)
                        else:
                            l = dy(rng, -4, 4, 2)
                            r = l + rng.choice([0.5, 1.0, 2.0])
                        h.append([l, r, val()])
                    hists.append(h)
            # what range_histogram of a collective without cycles column returns: int64 contents
            dt = ["int64" if h and integral([b[2] for b in h]) and rng.random() < 0.6 else "float64" for h in hists]
            yield {"kind": "combine", "hists": hists, "dtypes": dt, "named": rng.random() < 0.3}

    def _hist_case(self, rng):
        n = rng.choice([1, 2, 3, 5, 8, 13, 30])
        with_c = rng.random() < 0.5
        rows = gen_rows(rng, n, with_c, small=rng.random() < 0.3)
        which = rng.choice(["range", "range", "rm", "rm", "rec", "rec"])
        bt = rng.choice(["edges", "edges", "array", "count", "count", "iv", "iv2", "ia", "ivleft", "ivbad"])
        count_as = rng.choice(["int", "int", "np64", "np32", "zerod", "zerod"])
        if which == "rec":
            src = [[r[0], 0.0, 1.0] for r in rows] + [[r[1], 0.0, 1.0] for r in rows]
            u = rng.random()
            if bt == "count":
                bins = ({"t": "count", "n": rng.choice([1, 2, 3, 5, 10]), "as": count_as} if u < 0.5 else
                        {"t": "count2", "nx": rng.choice([1, 2, 3, 7]), "ny": rng.choice([1, 2, 4, 5])})
            else:
                ex = gen_edges(rng, src, False)
                if bt == "iv2":
                    bt = "edges"
                if u < 0.4:
                    if len(ex) == 2:
                        ex = [ex[0], (ex[0] + ex[1]) / 2, ex[1]]   # two scalars mean [nx, ny] for the recorder (documented numpy spec)
                    bins = {"t": rng.choice(["edges", "array"]), "e": ex}
                else:
                    bins = {"t": rng.choice(["edges2", "edges2", "lists2"]), "ex": ex, "ey": gen_edges(rng, src, False)}
            rows = [[r[0], r[1], 1.0] for r in rows]
            case = {"kind": "hist", "which": "rec", "rows": rows, "cycles": False, "bins": bins, "levels": None, "keys": None, "axis": None}
            if n >= 2 and rng.random() < 0.5:
                cuts = sorted(rng.sample(range(1, n), rng.randint(1, min(3, n - 1))))
                case["chunks"] = [b - a for a, b in zip([0] + cuts, cuts + [n])]
            return case
        if bt == "count":
            bins = {"t": "count", "n": rng.choice([1, 1, 2, 3, 5, 10]), "as": count_as}
        elif bt == "iv2":
            left = sorted(set(gen_edges(rng, rows, which == "rm")))
            if len(left) < 3:
                left = [left[0], left[0] + 1.0, left[0] + 2.5]
            eff = list(left)
            if 0.0 not in left[1:-1] and left[0] < 0.0 < left[-1] and rng.random() < 0.5:
                left = sorted(set(left + [0.0]))            # mean / from-to classes normally cross zero
                eff = list(left)
            # the right bound of class j-1 is one ulp beside the left bound of class j; for an edge at 0.0 (ulp = 5e-324 would say nothing)
            # the right bound is 2**-54 of the larger neighbour instead, see below
            for j in range(1, len(left) - 1):
                if left[j] != 0.0 and rng.random() < 0.7:
                    eff[j] = ulp(left[j], rng.random() < 0.5)
                elif left[j] == 0.0 and rng.random() < 0.8:
                    # an edge at zero computed as left + width comes out as rounding noise of the neighbours' size
                    # (np.arange(-0.3, 0.3, 0.1)[3] + 0.1 = 5.55e-17): /repo 125ac37 judges it relative to the class widths
                    eff[j] = rng.choice([1.0, -1.0]) * 2.0 ** -54 * max(abs(left[j - 1]), abs(left[j + 1]))
            bins = {"t": "iv2", "e": eff, "left": left[:-1]}
        elif bt == "ivbad":
            e = [x for x in sorted(set(gen_edges(rng, rows, which == "rm")))]
            while len(e) < 4:
                e.append(e[-1] + 1.0)
            ivs = [[e[i], e[i + 1]] for i in range(len(e) - 1)]
            u = rng.random()
            if u < 0.4:
                del ivs[rng.randrange(1, len(ivs) - 1)]                     # a gap
                bins = {"t": "iv_gap", "iv": ivs}
            elif u < 0.6:
                j = rng.randrange(0, len(ivs) - 1)                          # a small but real gap / overlap (far beyond the last bits)
                ivs[j][1] = ivs[j][1] + rng.choice([-1.0, 1.0]) * max(abs(ivs[j][1]), 1.0) * rng.choice([1e-9, 1e-6])
                bins = {"t": "iv_gap", "iv": ivs}
            else:
                j = rng.randrange(0, len(ivs) - 1)
                ivs[j][1] = (ivs[j + 1][0] + ivs[j + 1][1]) / 2              # overlaps its right neighbour
                bins = {"t": "iv_overlap", "iv": ivs}
        else:
            bins = {"t": bt, "e": gen_edges(rng, rows, which == "rm")}
        case = {"kind": "hist", "which": which, "rows": rows, "cycles": with_c, "bins": bins}
        case.update(gen_layout(rng, n))
        if with_c and integral([r[2] for r in rows]) and rng.random() < 0.5:
            case["int_cycles"] = True
        if not case["levels"] and rng.random() < 0.3:
            case["named_axis"] = True
        idx = gen_idx(rng, n)
        if idx:
            case["idx"] = idx
        return case

    def _chain_case(self, rng):
        """The documented pipeline: 1-3 collectives -> range_histogram(own edges) -> re-bin to one common binning -> combine."""
        k = rng.choice([1, 2, 2, 3])
        parts = []
        for _ in range(k):
            n = rng.choice([1, 2, 3, 5, 8])
            with_c = rng.random() < 0.4
            rows = gen_rows(rng, n, with_c, small=rng.random() < 0.4)
            rows = [[r[0], r[1], (r[2] if r[2] != 1e6 else 6.0)] for r in rows]
            parts.append({"rows": rows, "cycles": with_c, "e": gen_edges(rng, rows, False), "bt": rng.choice(["edges", "edges", "iv", "array"]),
                          "rebin": True})
        lo = min(p["e"][0] for p in parts)
        hi = max(p["e"][-1] for p in parts)
        u = rng.random()
        if u < 0.4:
            # the first histogram keeps its own binning (int64 when there is no cycles column), the others are re-binned to it
            target = list(parts[0]["e"])
            parts[0]["rebin"] = rng.random() < 0.25
        else:
            cover = rng.random() < 0.85
            a = lo - rng.choice([0.0, 0.0, 1.0]) if cover else lo + 0.5
            b = hi + rng.choice([0.0, 0.0, 1.5])
            if b <= a:
                b = a + 1.0
            m = rng.randint(1, 6)
            if u < 0.7:
                target = [a + (b - a) * i / m for i in range(m + 1)]
            else:
                target = sorted({a + (b - a) * rng.randint(1, 31) / 32 for _ in range(m - 1)} | {a, b})
        case = {"kind": "chain", "parts": parts, "target": target, "order": rng.choice(["fwd", "fwd", "rev"])}
        if rng.random() < 0.3:
            case["index_name"] = rng.choice([None, "x"])
        return case

    def _pipe_case(self, rng):
        """2-3 histograms with their own binnings -> one common (wider) binning, nan_default True/False -> combine."""
        k = rng.choice([2, 2, 3])
        parts = []
        for _ in range(k):
            lo = dy(rng, 0, 6, 2)
            m = rng.randint(1, 4)
            br = sorted({lo + rng.randint(0, 12) / 2 for _ in range(m)} | {lo, lo + rng.choice([1.0, 2.0, 4.0, 6.0])})
            if rng.random() < 0.2:
                br.append(br[-1])               # a zero-width last class (what numpy fills with the values on the last edge)
            parts.append([[br[i], br[i + 1], (None if rng.random() < 0.15 else float(rng.choice([0, 1, 2, 5, 8, 20, 50, 100])))]
                          for i in range(len(br) - 1)])
        lo = min(p[0][0] for p in parts)
        hi = max(p[-1][1] for p in parts)
        cover = rng.random() < 0.85
        a = lo - rng.choice([0.0, 0.0, 1.0]) if cover else lo + 0.5
        b = hi + rng.choice([0.0, 0.0, 1.5])
        n = rng.randint(1, 8)
        style = rng.random()
        if style < 0.5:
            target = [a + (b - a) * i / n for i in range(n + 1)]
        else:
            target = sorted({a + (b - a) * rng.randint(1, 31) / 32 for _ in range(n - 1)} | {a, b})
        return {"kind": "pipe", "parts": parts, "target": target, "nan_default": rng.random() < 0.7}

    def _rebin2d_case(self, rng):
        """Two interval levels; target as MultiIndex (levels in the histogram's order or swapped) or one IntervalIndex."""
        def breaks(lo, hi, m):
            b = sorted({lo + (hi - lo) * rng.randint(0, 16) / 16 for _ in range(m + 1)} | {lo, hi})
            return b
        names = rng.choice([["from", "to"], ["range", "mean"], ["to", "from"]])
        xlo = dy(rng, -4, 4, 2)
        xhi = xlo + rng.choice([1.0, 2.0, 8.0])
        if rng.random() < 0.35:
            ylo, yhi = xlo, xhi                       # rainflow matrix: both axes cover the same extent
        else:
            ylo = dy(rng, -20, 20, 2)
            yhi = ylo + rng.choice([0.5, 4.0, 10.0, 40.0])
        ax, ay = breaks(xlo, xhi, rng.randint(1, 3)), breaks(ylo, yhi, rng.randint(1, 3))
        if rng.random() < 0.12:
            ax = ax + [ax[-1]]                        # zero-width last class of the first level
        ncell = (len(ax) - 1) * (len(ay) - 1)
        vals = [float(rng.choice([0, 1, 2, 3, 5, 10, 40])) for _ in range(ncell)]
        drop = sorted(rng.sample(range(ncell), rng.randint(0, ncell - 1))) if rng.random() < 0.25 else []
        tk = rng.choice(["same", "swapped", "swapped", "swapped", "plain", "identity", "identity_swapped", "count"])
        case = {"kind": "rebin2d", "names": names, "ax": ax, "ay": ay, "vals": vals, "drop": drop}
        if tk in ("identity", "identity_swapped"):
            case["drop"] = []
            case["target"] = {"t": "multi", "order": "swapped" if tk.endswith("swapped") else "same", "bx": ax, "by": ay}
        elif tk == "count":
            case["drop"] = []
            case["target"] = {"t": "count", "n": rng.choice([1, 2, 3])}
        elif tk == "plain":
            lo, hi = min(xlo, ylo) - rng.choice([0.0, 1.0]), max(xhi, yhi) + rng.choice([0.0, 1.0])
            case["target"] = {"t": "plain", "b": breaks(lo, hi, rng.randint(1, 4))}
        else:
            cover = rng.random() < 0.85
            def tb(lo, hi):
                a = lo - rng.choice([0.0, 0.0, 0.5]) if cover else lo + (hi - lo) / 4
                b = hi + rng.choice([0.0, 0.0, 2.0])
                return breaks(a, b, rng.randint(1, 4))
            case["target"] = {"t": "multi", "order": tk, "bx": tb(xlo, xhi), "by": tb(ylo, yhi)}
        u = rng.random()
        if u < 0.2:
            # unoccupied cells (NaN contents) and / or nan_default=True: oracle only
            case["nan"] = sorted(rng.sample(range(ncell), rng.randint(0, max(0, ncell - 1))))
            case["nan_default"] = rng.random() < 0.6
        elif u < 0.35:
            case["extra"] = rng.choice([[10], [10, 20], [7, 3, 5]])   # a third, non-interval level (what histogram(..., axis) returns)
        return case

    def _rebin_case(self, rng):
        style = rng.choice(["breaks", "breaks", "arb"])
        if style == "breaks":
            m = rng.choice([1, 2, 3, 5, 8])
            br = sorted({dy(rng, -4, 12, 4) for _ in range(m + 1)})
            if len(br) < 2:
                br = [br[0], br[0] + 1.0]
            u = rng.random()
            if u < 0.15:
                br = br + [br[-1]]            # zero-width last class (numpy fills it)
            elif u < 0.22:
                j = rng.randrange(len(br))
                br.insert(j, br[j])           # zero-width class anywhere
            src = [[br[i], br[i + 1], float(rng.choice([0, 0, 1, 2, 5, 10, 40, 7]))] for i in range(len(br) - 1)]
        else:
            m = rng.choice([1, 2, 4, 6])
            src = []
            for _ in range(m):
                l = dy(rng, -4, 12, 4)
                src.append([l, l + rng.choice([0.25, 0.5, 1.0, 3.0, 6.5, 0.0]), float(rng.choice([0, 1, 2, 5, 10, 40, 7]))])
        if style == "breaks" and len(src) > 1 and rng.random() < 0.25:
            rng.shuffle(src)          # the classes of a histogram need not be stored in increasing order
            style = "arb"
        lo = min(s[0] for s in src)
        hi = max(s[1] for s in src)
        tk = rng.choice(["breaks", "breaks", "breaks", "count", "single", "same", "refine", "refine", "invalid"] + (["count", "count"] if style == "arb" else []))
        case = {"kind": "rebin", "src": src, "src_style": style}
        if rng.random() < 0.3:
            case["src_dtype"] = "int64"
        if tk == "count":
            case["target"] = {"t": "count", "n": rng.choice([1, 1, 2, 3, 7]), "as": rng.choice(["int", "int", "np64", "np32"])}
            if rng.random() < 0.1:
                case["target"] = {"t": "count0d", "n": case["target"]["n"]}     # a 0-d array: refused (TypeError) or taken as the class count (since /repo 4183ee2); oracle only
        elif tk == "invalid":
            e = sorted({lo - 1.0, lo, (lo + hi) / 2, hi, hi + 1.0, hi + 2.0})
            ivs = [[e[i], e[i + 1]] for i in range(len(e) - 1)]
            what = rng.choice(["gap", "overlap", "decreasing", "list", "float"])
            if what == "gap":
                del ivs[rng.randrange(1, len(ivs) - 1)]
            elif what == "overlap":
                j = rng.randrange(0, len(ivs) - 1)
                ivs[j][1] = (ivs[j + 1][0] + ivs[j + 1][1]) / 2
            elif what == "decreasing":
                ivs.reverse()
            case["target"] = {"t": "invalid", "what": what, "iv": ivs}
        elif tk == "single":
            case["target"] = {"t": "breaks", "b": [lo - rng.choice([0.0, 1.0]), hi + rng.choice([0.0, 2.5])]}
        elif tk == "same" and style == "breaks":
            case["target"] = {"t": "breaks", "b": [s[0] for s in src] + [src[-1][1]]}
        else:
            cover = rng.random() < 0.8
            k = rng.randint(1, 7)
            a = lo - rng.choice([0.0, 0.0, 0.5, 3.0]) if cover else lo + rng.choice([0.25, 1.0])
            b = hi + rng.choice([0.0, 0.0, 0.5, 3.0]) if cover else hi - rng.choice([0.0, 0.25])
            if b <= a:
                b = a + 1.0
            inner = sorted({a + (b - a) * rng.randint(1, 31) / 32 for _ in range(k - 1)})
            if tk == "refine" and style == "breaks":   # target keeps every source break
                inner = sorted(set(inner) | {s[0] for s in src} | {src[-1][1]})
                inner = [x for x in inner if a < x < b]
            tb = [a] + inner + [b]
            if rng.random() < 0.12:
                j = rng.randrange(len(tb))
                tb.insert(j, tb[j])           # a zero-width target class
            case["target"] = {"t": "breaks", "b": tb}
        # second target for the composition A -> B -> C
        if case["target"]["t"] == "breaks" and rng.random() < 0.7:
            tb = case["target"]["b"]
            if len(tb) >= 3 and rng.random() < 0.5:
                # C coarsens B: a sub-list of B's breaks (first and last kept or not)
                keep = [x for x in tb if rng.random() < 0.6]
                if rng.random() < 0.7:
                    keep = [tb[0]] + keep + [tb[-1]]
                keep = sorted(set(keep))
                if len(keep) < 2:
                    keep = [tb[0], tb[-1]]
                if keep[0] == keep[-1]:
                    keep = [tb[0], tb[-1]] if tb[0] < tb[-1] else [tb[0], tb[0] + 1.0]
                case["target2"] = keep
            else:
                k = rng.randint(1, 5)
                a2, b2 = tb[0] - rng.choice([0.0, 1.0]), tb[-1] + rng.choice([0.0, 1.0])
                if b2 <= a2:
                    b2 = a2 + 1.0
                inner = sorted({a2 + (b2 - a2) * rng.randint(1, 15) / 16 for _ in range(k - 1)})
                case["target2"] = [a2] + inner + [b2]
        return case

    # -------------------------------------------------------------- model side
    @staticmethod
    def _flat_rows(rows, weighted):
        return " ".join(f"{f2h(r[0])} {f2h(r[1])} {f2h(r[2] if weighted else 1.0)}" for r in rows)

    @staticmethod
    def _rec_edges(b):
        """(ex, ey) of an explicit recorder bin specification, None for class counts."""
        if b["t"] in ("edges", "array"):
            return b["e"], b["e"]
        if b["t"] in ("edges2", "lists2"):
            return b["ex"], b["ey"]
        return None

    def model_lines(self, case):
        k = case["kind"]
        if k == "coll":
            lines = []
            rows = case["rows"]
            if case["form"] == "rm":
                lines += [f"c14 rm {f2h(r[0])} {f2h(r[1])}" for r in rows]
                rows = [[r[1] - r[0] / 2.0, r[1] + r[0] / 2.0, r[2]] for r in rows]
            lines += [f"c14 derive {f2h(r[0])} {f2h(r[1])}" for r in rows]
            once = [f"c14 {case['op']} {f2h(f)} {f2h(r[0])} {f2h(r[1])}" for r, f in self._expanded_operands(case, rows)]
            return lines + once + once      # the same question is put twice to the same collective object: the same answer
        if k == "hist":
            lines = []
            b = case["bins"]
            if b["t"] in ("iv_gap", "iv_overlap"):
                return []          # must be rejected: oracle only
            if case["which"] == "rec":
                flat = self._flat_rows(case["rows"], False)
                ee = self._rec_edges(b)
                if ee is not None:
                    return [f"c14 fthist2 {len(ee[0])} {hx(ee[0])} {len(ee[1])} {hx(ee[1])} {flat}"]
                nx, ny = (b["n"], b["n"]) if b["t"] == "count" else (b["nx"], b["ny"])
                return [f"c14 fthistn {nx} {ny} {flat}"]
            for key in group_keys(case):
                flat = self._flat_rows(rows_of_group(case, key), case.get("cycles"))
                if b["t"] == "count":
                    op = {"range": "rhistn", "rm": "hist2n"}[case["which"]]
                    lines.append(f"c14 {op} {b['n']} {flat}")
                else:
                    op = {"range": "rhist", "rm": "hist2"}[case["which"]]
                    lines.append(f"c14 {op} {len(b['e'])} {hx(b['e'])} {flat}")
            return lines
        if k == "lh":
            op = "ftclass" if case["t"] == "ft" else "rmclass"
            out = []
            for c in case["classes"]:
                c = list(c)
                if case["t"] == "rm1":
                    out.append(f"c14 r1class {hx(c[:2])} {f2h(case['f'])} {f2h(case['d'])}")
                    continue
                out.append(f"c14 {op} {hx(c)} {f2h(case['f'])} {f2h(case['d'])}")
            return out
        if k == "rebin":
            flat = " ".join(hx(s) for s in case["src"])
            t = case["target"]
            lines = []
            if t["t"] in ("invalid", "npcount", "count0d"):
                return []          # oracle only
            if t["t"] == "count":
                lines.append(f"c14 rebinn {t['n']} {flat}")
            else:
                lines.append(f"c14 rebin {len(t['b'])} {hx(t['b'])} {flat}")
                if case.get("target2"):
                    c = case["target2"]
                    lines.append(f"c14 rebin2 {len(t['b'])} {hx(t['b'])} {len(c)} {hx(c)} {flat}")
            return lines
        if k == "rebin2d":
            n1, n2 = case["names"]
            t = case["target"]
            if t["t"] == "count" or case.get("nan") is not None or case.get("extra"):
                return []          # oracle only
            if t["t"] == "plain":
                tl = [(n1, t["b"]), (n2, t["b"])]
            else:
                tl = [(n1, t["bx"]), (n2, t["by"])]
                if t["order"] == "swapped":
                    tl.reverse()
            cells = " ".join(hx(c) for c in self._cells(case))
            return [f"c14 rebin2d {n1} {n2} " + " ".join(f"{nm} {len(b)} {hx(b)}" for nm, b in tl) + " " + cells]
        if k == "pipe":
            hs = case["parts"]
            t = case["target"]
            return [f"c14 pipe {1 if case['nan_default'] else 0} {len(t)} {hx(t)} {len(hs)} "
                    f"{' '.join(str(len(h)) for h in hs)} {' '.join(hx(b) for h in hs for b in h)}"]
        if k == "chain":
            t = case["target"]
            parts = self._chain_parts(case)
            return [f"c14 chain {len(t)} {hx(t)} {len(parts)} " +
                    " ".join(f"{len(p['e'])} {hx(p['e'])} {len(p['rows'])} {self._flat_rows(p['rows'], p.get('cycles'))}" for p in parts)]
        if k == "combine2d":
            return []
        if k == "combine":
            hs = case["hists"]
            return [f"c14 combine {len(hs)} {' '.join(str(len(h)) for h in hs)} {' '.join(hx(b) for h in hs for b in h)}".rstrip()]
        return []

    @staticmethod
    def _chain_parts(case):
        parts = list(case["parts"])
        if case.get("order") == "rev":
            parts.reverse()
        return parts

    @staticmethod
    def _cells(case):
        ax, ay = case["ax"], case["ay"]
        ny = len(ay) - 1
        nan = set(case.get("nan") or [])
        out = []
        for i in range(len(ax) - 1):
            for j in range(ny):
                k = i * ny + j
                if k not in case["drop"]:
                    out.append([ax[i], ax[i + 1], ay[j], ay[j + 1], None if k in nan else case["vals"][k]])
        return out

    @staticmethod
    @builder
    def _hist2(case, factor=1.0):
        cells = C14._cells(case)
        ix = pd.MultiIndex.from_arrays([pd.IntervalIndex.from_arrays([c[0] for c in cells], [c[1] for c in cells]),
                                        pd.IntervalIndex.from_arrays([c[2] for c in cells], [c[3] for c in cells])],
                                       names=case["names"])
        return pd.Series([nn(c[4]) * factor for c in cells], index=ix, dtype=float)

    @staticmethod
    @builder
    def _hist3(case):
        """The two-level histogram repeated under a third, non-interval level `element_id` (contents x 1, x 2, ...)."""
        parts = {e: C14._hist2(case, float(i + 1)) for i, e in enumerate(case["extra"])}
        return pd.concat(parts, names=["element_id"])

    @staticmethod
    @builder
    def _target2(case, order=None):
        t = case["target"]
        if t["t"] == "count":
            n = int(t["n"])
            bx = [case["ax"][0] + (case["ax"][-1] - case["ax"][0]) * i / n for i in range(n + 1)]
            by = [case["ay"][0] + (case["ay"][-1] - case["ay"][0]) * i / n for i in range(n + 1)]
            return n, bx, by
        if t["t"] == "plain":
            return pd.IntervalIndex.from_breaks(t["b"]), t["b"], t["b"]
        n1, n2 = case["names"]
        lv = [(n1, pd.IntervalIndex.from_breaks(t["bx"])), (n2, pd.IntervalIndex.from_breaks(t["by"]))]
        if (order or t["order"]) == "swapped":
            lv.reverse()
        return pd.MultiIndex.from_product([l[1] for l in lv], names=[l[0] for l in lv]), t["bx"], t["by"]

    @staticmethod
    def _matrix2(case, res, bx, by, approx=False):
        """Row-major contents of the result for the requested classes; None if the result has other classes."""
        n1, n2 = case["names"]
        if list(res.index.names) != [n1, n2]:
            return None
        a, b = res.index.get_level_values(n1), res.index.get_level_values(n2)
        got = {}
        for xl, xr, yl, yr, v in zip(a.left, a.right, b.left, b.right, res.to_numpy(dtype=float)):
            key = (float(xl), float(xr), float(yl), float(yr))
            if key in got:
                # repeated labels (zero-width classes of a binning with repeated breaks): contents add up
                got[key] = got[key] + float(v) if v == v else got[key]
                continue
            got[key] = float(v)
        want = [(bx[i], bx[i + 1], by[j], by[j + 1]) for i in range(len(bx) - 1) for j in range(len(by) - 1)]
        if approx:
            def near(k):
                for g in got:
                    if all(abs(x - y) <= 1e-9 * max(1.0, abs(x)) for x, y in zip(g, k)):
                        return g
                return None
            keys = [near(k) for k in want]
            if len(got) != len(set(want)) or any(k is None for k in keys):
                return None
            return [got[k] for k in keys]
        if len(got) != len(set(want)) or any(k not in got for k in want):
            return None
        return [got[k] for k in want]

    def _expanded_operands(self, case, rows):
        """(row, factor) pairs in the order the real result has them (row-major: row, then the operand's own level)."""
        op = case["operand"]
        if op["t"] in ("scalar", "zerod", "npscalar"):
            return [(r, op["v"]) for r in rows]
        if op["t"] in ("array", "list"):
            return list(zip(rows, op["v"]))
        if op["level"] == "other":
            return [(r, v) for r in rows for v in op["v"]]
        lv = case["levels"].index(op["level"])
        table = dict(zip(op["index"], op["v"]))
        return [(r, table[k[lv]]) for r, k in zip(rows, case["keys"])]

    # -------------------------------------------------------------- implementation side
    def impl_lines(self, case):
        mods()
        with warnings.catch_warnings():
            warnings.simplefilter("ignore")
            try:
                return self._impl_lines(case)
            except HarnessError:
                raise
            except Exception as e:          # noqa: BLE001
                if core._involves_implementation(e):
                    raise                   # core reports `EXC ...` as the implementation's answer
                # the implementation returned something the canonicalisation cannot take apart: a disagreement, not a harness bug
                return [f"err:malformed-result:{type(e).__name__}: {str(e)[:120]} at {_where(e)}"]

    def _count(self, d, k):
        self.stats[d][k] = self.stats[d].get(k, 0) + 1

    @staticmethod
    def _bins_of(ix, vals):
        return " ".join(hx([iv.left, iv.right, v]) for iv, v in zip(ix, vals))

    def _impl_lines(self, case):
        m = mods()
        k = case["kind"]
        self._count("kinds", k)
        if k in ("hist", "coll") and case.get("idx") and len(set(case["idx"])) < len(case["idx"]):
            self.stats["repeated_index_labels"] += 1
            if case.get("cycles"):
                self.stats["repeated_index_labels_with_cycles"] += 1
        if k == "coll":
            df = make_frame(case)
            lc = df.load_collective
            lines = []
            if case["form"] == "rm":
                obj = lc.to_pandas()
                lines += [hx([a, b]) for a, b in zip(obj["from"], obj["to"])]
            cols = [lc.amplitude, lc.meanstress, lc.upper, lc.lower, lc.R]
            lines += [hx(vals) for vals in zip(*[c.to_numpy(dtype=float) for c in cols])]
            for r in case["rows"]:
                self.stats["rows_total"] += 1
            if case["form"] != "rm":
                for r in case["rows"]:
                    key = "from_gt_to" if r[0] > r[1] else "from_lt_to" if r[0] < r[1] else "from_eq_to"
                    self.stats[key] += 1
            if case.get("cycles"):
                self.stats["with_cycles"] += 1
            self._count("operand", case["operand"]["t"] + ":" + str(case["operand"].get("level", "")))
            for _ in range(2):              # twice on the SAME accessor object
                res = self._apply_operand(case, lc).to_pandas()
                lines += [hx([a, b]) for a, b in zip(res["from"], res["to"])]
            return lines
        if k == "hist":
            return self._impl_hist(case)
        if k == "lh":
            ser = self._lh_series(case)
            lh = ser.load_collective

            def q(x):
                return [hx(v) for v in zip(x.amplitude.to_numpy(dtype=float), np.asarray(x.meanstress, dtype=float),
                                           x.upper.to_numpy(dtype=float), x.lower.to_numpy(dtype=float), x.R.to_numpy(dtype=float))]
            a, b, c = q(lh), q(lh.scale(case["f"])), q(lh.shift(case["d"]))
            return [f"{x};{y};{z}" for x, y, z in zip(a, b, c)]
        if k == "rebin":
            src = case["src"]
            h = self._rebin_src(case)
            if any(s[0] == s[1] for s in src):
                self.stats["rebin_zero_width_source"] += 1
            self._count("dtypes", "rebin:" + str(h.dtype))
            t = case["target"]
            lines = []
            covered = True
            if t["t"] in ("invalid", "npcount", "count0d"):
                self._count("bins", "rebin:" + t["t"])
                return []
            if t["t"] == "count":
                self._count("bins", "rebin:count:" + t.get("as", "int"))
                try:
                    r = m["rebin"](h, bins_arg(t))
                    lines.append(hx(edges_of_index(r.index)) + ";" + hx(r.to_numpy(dtype=float)))
                except Exception as e:
                    self._count("errors", "rebin:" + type(e).__name__)
                    lines.append(err(e))
            else:
                covered = t["b"][0] <= min(s[0] for s in src) and t["b"][-1] >= max(s[1] for s in src)
                try:
                    r = m["rebin"](h, pd.IntervalIndex.from_breaks(t["b"]))
                    lines.append(hx(r.to_numpy(dtype=float)))
                except Exception as e:
                    self._count("errors", "rebin:" + type(e).__name__)
                    r = None
                    lines.append(err(e))
                if case.get("target2"):
                    try:
                        r2 = m["rebin"](r, pd.IntervalIndex.from_breaks(case["target2"]))
                        lines.append(hx(r2.to_numpy(dtype=float)))
                    except Exception as e:
                        lines.append(err(e))
            self.stats["rebin_covered" if covered else "rebin_not_covered"] += 1
            return lines
        if k == "rebin2d":
            t = case["target"]
            if t["t"] == "count" or case.get("nan") is not None or case.get("extra"):
                self._count("bins", "rebin2d:" + ("count" if t["t"] == "count" else "nan" if case.get("nan") is not None else "extra-level"))
                return []
            target, bx, by = self._target2(case)
            self._count("bins", "rebin2d:" + case["target"]["t"] + ":" + case["target"].get("order", ""))
            try:
                r = m["rebin"](self._hist2(case), target)
            except Exception as e:
                self._count("errors", "rebin2d:" + type(e).__name__)
                return [err(e)]
            mat = self._matrix2(case, r, bx, by)
            return [hx(mat)] if mat is not None else ["err:classes"]
        if k == "combine2d":
            return []
        if k == "pipe":
            try:
                parts, comb = self._run_pipe(case)
            except Exception as e:
                self._count("errors", "pipe:" + type(e).__name__)
                return [err(e)]
            self._count("bins", "pipe:nan_default=" + str(case["nan_default"]))
            return [";".join(hx(p.to_numpy(dtype=float)) for p in parts) + ";" + self._bins_of(comb.index, comb.to_numpy(dtype=float))]
        if k == "chain":
            try:
                hs, rb, comb = self._run_chain(case)
            except Exception as e:
                self._count("errors", "chain:" + type(e).__name__)
                return [err(e)]
            for h in rb:
                self._count("dtypes", "chain:" + str(h.dtype))
            return [";".join(hx(h.to_numpy(dtype=float)) for h in hs) + ";" + ";".join(hx(h.to_numpy(dtype=float)) for h in rb) + ";" +
                    self._bins_of(comb.index, comb.to_numpy(dtype=float))]
        if k == "combine":
            if any(b[2] is None for h in case["hists"] for b in h):
                self._count("bins", "combine:with-nan")
            hs = self._combine_inputs(case)
            for h in hs:
                self._count("dtypes", "combine:" + str(h.dtype))
            try:
                r = m["combine"](hs, "sum")
                if len(r) == 0:
                    return [""]
                return [self._bins_of(r.index, r.to_numpy(dtype=float))]
            except Exception as e:
                self._count("errors", "combine:" + type(e).__name__)
                return [err(e)]
        return []

    @staticmethod
    @builder
    def _series1(h, dtype=float, name=None):
        ix = pd.IntervalIndex.from_arrays([b[0] for b in h], [b[1] for b in h], name=name)
        return pd.Series([nn(b[2]) for b in h], index=ix, dtype=dtype)

    @builder
    def _combine_inputs(self, case):
        dts = case.get("dtypes") or ["float64"] * len(case["hists"])
        name = "range" if case.get("named") else None
        return [self._series1(h, np.int64 if dt == "int64" else float, name) for h, dt in zip(case["hists"], dts)]

    @builder
    def _rebin_src(self, case):
        src = case["src"]
        dt = np.int64 if case.get("src_dtype") == "int64" and integral([s[2] for s in src]) else float
        return pd.Series([s[2] for s in src], index=pd.IntervalIndex.from_arrays([s[0] for s in src], [s[1] for s in src]), dtype=dt)

    def _run_pipe(self, case):
        m = mods()
        target = pd.IntervalIndex.from_breaks(case["target"])
        parts = [m["rebin"](self._series1(h), target, nan_default=bool(case["nan_default"])) for h in case["parts"]]
        return parts, m["combine"](parts, "sum")

    def _run_chain(self, case):
        m = mods()
        target = pd.IntervalIndex.from_breaks(case["target"])
        hs, rb = [], []
        for p in self._chain_parts(case):
            lc = make_frame({"rows": p["rows"], "cycles": p.get("cycles")}).load_collective
            h = lc.range_histogram(bins_arg({"t": p["bt"], "e": p["e"]})).to_pandas()
            if "index_name" in case:
                h = h.rename_axis(case["index_name"])     # an unnamed / otherwise named class level (every histogram alike)
            hs.append(h)
            rb.append(m["rebin"](h, target) if p.get("rebin", True) else h)
        return hs, rb, m["combine"](rb, "sum")

    @builder
    def _operand_arg(self, case):
        op = case["operand"]
        if op["t"] == "scalar":
            return op["v"]
        if op["t"] == "npscalar":
            return np.float64(op["v"])
        if op["t"] == "zerod":
            return np.array(float(op["v"]))
        if op["t"] == "array":
            return np.asarray(op["v"], dtype=float)
        if op["t"] == "list":
            return [float(v) for v in op["v"]]
        return pd.Series(op["v"], index=pd.Index(op["index"], name=op["level"]), dtype=float)

    def _apply_operand(self, case, lc):
        arg = self._operand_arg(case)
        return lc.scale(arg) if case["op"] == "scale" else lc.shift(arg)

    @builder
    def _lh_series(self, case):
        cls = case["classes"]
        if case["t"] == "ft":
            names = ["from", "to"]
        else:
            names = ["range", "mean"]
        a = pd.IntervalIndex.from_arrays([c[0] for c in cls], [c[1] for c in cls])
        b = pd.IntervalIndex.from_arrays([c[2] for c in cls], [c[3] for c in cls])
        dt = np.int64 if case.get("int_vals") else float
        if case["t"] == "rm1":
            a.name = "range"
            return pd.Series(case["vals"], index=a, name="cycles", dtype=dt)
        return pd.Series(case["vals"], index=pd.MultiIndex.from_arrays([a, b], names=names), name="cycles", dtype=dt)

    def _recorder(self, case):
        rec = mods()["rec"]()
        fr = np.asarray([r[0] for r in case["rows"]], dtype=float)
        to = np.asarray([r[1] for r in case["rows"]], dtype=float)
        pos = 0
        for n in case.get("chunks") or [len(fr)]:
            rec.record_values(fr[pos:pos + n], to[pos:pos + n])
            pos += n
        return rec

    def _hist_result(self, case):
        """Call the real histogram function; returns the pandas Series."""
        bins = bins_arg(case["bins"])
        if case["which"] == "rec":
            return self._recorder(case).histogram(bins)
        lc = make_frame(case).load_collective
        fn = lc.range_histogram if case["which"] == "range" else lc.histogram
        if case.get("axis"):
            return fn(bins, case["axis"]).to_pandas()
        return fn(bins).to_pandas()

    def _impl_hist(self, case):
        b = case["bins"]
        self._count("bins", case["which"] + ":" + b["t"] + (":" + b["as"] if b.get("as", "int") != "int" else "") + (":axis" if case.get("axis") else ""))
        if case.get("levels"):
            names = full_names(case)
            self._count("layouts", f"levels={len(names)} axis={'none' if case.get('axis') is None else 'last' if names[-1] == case['axis'] else 'inner'}"
                                   + (" unnamed" if None in names else ""))
        if "e" in b:
            if len(b["e"]) == 2:
                self.stats["single_class"] += 1
            if any(x == y for x, y in zip(b["e"], b["e"][1:])):
                self.stats["zero_width_class"] += 1
            es = set(b["e"])
            for r in case["rows"]:
                rg = abs(r[0] - r[1])
                if rg in es or (case["which"] == "rm" and (r[0] + r[1]) / 2 in es):
                    self.stats["on_edge_values"] += 1
                if not (b["e"][0] <= rg <= b["e"][-1]):
                    self.stats["out_of_range_rows"] += 1
            if case["which"] == "range" and len(b["e"]) >= 2 and b["e"][-1] == b["e"][-2] and any(abs(r[0] - r[1]) == b["e"][-1] for r in case["rows"]):
                self.stats["zero_width_last_class_filled"] += 1
        if b["t"] in ("iv_gap", "iv_overlap"):
            return []
        groups = group_keys(case)
        self.stats["max_groups"] = max(self.stats["max_groups"], len(groups))
        self.stats["rows_total"] += len(case["rows"])
        if case.get("cycles"):
            self.stats["with_cycles"] += 1
        try:
            res = self._hist_result(case)
        except Exception as e:
            self._count("errors", "hist:" + type(e).__name__)
            return [err(e)] * len(groups)
        if case["which"] == "rec":
            fr, to = res.index.get_level_values("from"), res.index.get_level_values("to")
            return [hx(edges_of_level(fr)) + ";" + hx(edges_of_level(to)) + ";" + hx(res.to_numpy(dtype=float))]
        parts = split_result(case, res)
        if sum(len(p) for p in parts.values()) != len(res):
            return [f"err:groups: {len(res)} result rows, {sum(len(p) for p in parts.values())} belong to the expected groups {groups}"] * len(groups)
        lines = []
        for key in groups:
            sub = parts[key]
            vals = hx(sub.to_numpy(dtype=float))
            if b["t"] == "count":
                if case["which"] == "range":
                    lines.append(hx(edges_of_index(sub.index)) + ";" + vals)
                else:
                    er = edges_of_level(sub.index.get_level_values("range"))
                    em = edges_of_level(sub.index.get_level_values("mean"))
                    lines.append(hx(er) + ";" + hx(em) + ";" + vals)
            else:
                lines.append(vals)
        return lines

    # -------------------------------------------------------------- comparison
    def compare(self, case, model_out, impl_out):
        if len(model_out) != len(impl_out):
            return f"length {len(model_out)} vs {len(impl_out)}: impl={[l[:200] for l in impl_out[:2]]!r}"
        tol = case["kind"] in ("rebin", "rebin2d", "combine", "pipe", "chain")
        for i, (a, b) in enumerate(zip(model_out, impl_out)):
            if a == b:
                continue
            if b.startswith("err:") or b.startswith("EXC ") or a == "bad-op":
                return f"line {i}: model={a[:200]!r} impl={b[:200]!r}"
            ta, tb = a.replace(";", " ; ").split(), b.replace(";", " ; ").split()
            if len(ta) != len(tb):
                return f"line {i}: {len(ta)} vs {len(tb)} tokens: model={a[:200]!r} impl={b[:200]!r}"
            scale = max([abs(h2f(t)) for t in tb if t != ";" and math.isfinite(h2f(t))] + [1.0])
            for x, y in zip(ta, tb):
                if x == y:
                    continue
                if x == ";" or y == ";":
                    return f"line {i}: structure differs"
                fx, fy = h2f(x), h2f(y)
                if fx == fy or (fx != fx and fy != fy):     # -0.0 == 0.0
                    continue
                if tol and abs(fx - fy) <= 1e-12 * scale:
                    continue
                return f"line {i}: model={fx!r} impl={fy!r} (model line {a[:120]!r} impl line {b[:120]!r})"
        return None

    def nontrivial(self, case, model_out):
        if not model_out:
            return None
        zero = f2h(0.0)
        toks = [t for l in model_out for t in l.replace(";", " ").split()]
        if all(t == zero for t in toks):
            return None
        return json.dumps(case, sort_keys=True)

    # -------------------------------------------------------------- oracle
    def oracle(self, case):
        mods()      # registers the accessors (the oracle may run without a preceding correspondence pass)
        with warnings.catch_warnings():
            warnings.simplefilter("ignore")
            try:
                return getattr(self, "_oracle_" + case["kind"])(case)
            except HarnessError:
                raise                       # the harness could not build its own input: infrastructure error
            except Exception as e:          # noqa: BLE001
                if core._involves_implementation(e):
                    raise                   # core turns it into the finding `implementation-raises`
                # no pylife frame: the exception comes from taking a RESULT of the implementation apart (missing level, wrong
                # index type, wrong length ...) - the implementation returned something the property does not allow
                return (f"the result of the implementation has an unexpected shape: {type(e).__name__}: {str(e)[:200]} at {_where(e)}",
                        "result-malformed")

    def _oracle_coll(self, case):
        df = make_frame(case)
        df0 = df.copy(deep=True)
        lc = df.load_collective
        amp, mean, up, lo, R, cyc = (lc.amplitude.to_numpy(float), lc.meanstress.to_numpy(float), lc.upper.to_numpy(float),
                                     lc.lower.to_numpy(float), lc.R.to_numpy(float), lc.cycles.to_numpy(float))
        n = len(case["rows"])
        for i in range(n):
            if up[i] - lo[i] != 2 * amp[i]:
                return (f"row {i}: upper - lower = {up[i] - lo[i]} != 2*amplitude = {2 * amp[i]}", "consistency")
            if (up[i] + lo[i]) / 2 != mean[i]:
                return (f"row {i}: (upper + lower)/2 = {(up[i] + lo[i]) / 2} != mean = {mean[i]}", "consistency")
            want = 0.0 if (up[i] == 0 and lo[i] == 0) else (lo[i] / up[i] if up[i] != 0 else math.copysign(math.inf, lo[i]) * (1 if math.copysign(1, up[i]) > 0 else -1))
            if not (R[i] == want):
                return (f"row {i}: R = {R[i]} != lower/upper = {want}", "consistency")
            want_c = case["rows"][i][2] if case.get("cycles") else 1.0
            if cyc[i] != want_c:
                return (f"row {i}: cycles = {cyc[i]} != {want_c}", "cycles")
        if case["form"] == "rm":
            for i, r in enumerate(case["rows"]):
                if 2 * amp[i] != r[0] or mean[i] != r[1]:
                    return (f"row {i}: range/mean ({r[0]}, {r[1]}) became range {2 * amp[i]} mean {mean[i]}", "roundtrip")
        else:
            # from/to -> range/mean -> from/to gives the same loops (lower value first)
            back = pd.DataFrame({"range": 2 * amp, "mean": mean}, index=df.index).load_collective
            if list(back.lower.to_numpy(float)) != list(lo) or list(back.upper.to_numpy(float)) != list(up):
                return ("from/to -> range/mean -> from/to changes upper/lower", "roundtrip")
        # scale / shift
        arg = self._operand_arg(case)
        res = lc.scale(arg) if case["op"] == "scale" else lc.shift(arg)
        pairs = self._expanded_operands(case, list(zip(amp, mean, up, lo, cyc)))
        a2, m2, u2, l2, c2 = (res.amplitude.to_numpy(float), res.meanstress.to_numpy(float), res.upper.to_numpy(float),
                              res.lower.to_numpy(float), res.cycles.to_numpy(float))
        if len(pairs) != len(a2):
            return (f"{case['op']}: {len(a2)} rows, expected {len(pairs)}", "equivariance")
        for i, ((a, mm, u, l, c), f) in enumerate(pairs):
            if case["op"] == "scale":
                want = (abs(f) * a, f * mm, f * u if f >= 0 else f * l, f * l if f >= 0 else f * u)
            else:
                want = (a, mm + f, u + f, l + f)
            got = (a2[i], m2[i], u2[i], l2[i])
            if got != want:
                return (f"{case['op']} by {f}: row {i} (amplitude, mean, upper, lower) = {got}, expected {want}", "equivariance")
            if c2[i] != c:
                return (f"{case['op']}: cycles of row {i} changed from {c} to {c2[i]}", "cycles")
        # the collective that was scaled / shifted is still the same, and asking it again gives the same answers
        again = (lc.amplitude.to_numpy(float), lc.meanstress.to_numpy(float), lc.upper.to_numpy(float), lc.lower.to_numpy(float))
        changed = not df.equals(df0) or not df.index.equals(df0.index)
        if changed or any(list(x) != list(y) for x, y in zip(again, (amp, mean, up, lo))):
            # mechanism of the former defect (collective-scale-shift-in-place, fixed by 3af2b75): a scalar operand was applied IN PLACE
            # (the returned collective was the caller's object)
            in_place = case["operand"]["t"] == "scalar" and list(again[0]) == list(a2) and list(again[1]) == list(m2)
            d = (f"{case['op']}({case['operand'].get('v')}) changed the collective it was called on"
                 + (" (the caller's DataFrame now holds the scaled / shifted loads)" if changed else " (its amplitudes / means are now the scaled / shifted ones)"))
            if case["operand"]["t"] != "scalar":
                d = (f"{case['op']} with the {case['operand']['t']} operand {case['operand'].get('v')} changed the collective it was called on"
                     + (": the caller's DataFrame now holds the transformed loads" if changed else ": its amplitudes / means are now the transformed ones"))
            cls = "collective-scale-shift-in-place" if in_place else "input-modified"
            if not self.known(cls, d):
                return (d, cls)
        # the operand is not modified either
        arg0 = self._operand_arg(case)
        if isinstance(arg, pd.Series):
            same_arg = arg.equals(arg0) and arg.index.equals(arg0.index)
        else:
            same_arg = type(arg) is type(arg0) and np.array_equal(np.asarray(arg, dtype=float), np.asarray(arg0, dtype=float))
        if not same_arg:
            return (f"{case['op']} modified its operand: {arg0!r} became {arg!r}", "input-modified")
        # the same operation a second time on the same accessor object, and on a fresh accessor of the same frame: the same result
        for what, acc in (("the same collective object", lc), ("the same frame", df.load_collective)):
            r2 = acc.scale(arg) if case["op"] == "scale" else acc.shift(arg)
            second = (r2.amplitude.to_numpy(float), r2.meanstress.to_numpy(float), r2.upper.to_numpy(float), r2.lower.to_numpy(float),
                      r2.cycles.to_numpy(float))
            if any(list(x) != list(y) for x, y in zip(second, (a2, m2, u2, l2, c2))):
                i = next(i for i in range(len(a2)) if any(x[i] != y[i] for x, y in zip(second, (a2, m2, u2, l2, c2))))
                return (f"{case['op']} with the {case['operand']['t']} operand {case['operand'].get('v')} asked a second time of {what} gives another "
                        f"answer: row {i} (amplitude, mean, upper, lower, cycles) first {tuple(x[i] for x in (a2, m2, u2, l2, c2))}, "
                        f"then {tuple(x[i] for x in second)}", "input-modified")
        if case["form"] != "rm":
            return self._kept_accessor(case)
        return None

    # -------------------------------------------------------------- ONE accessor object kept across in-place changes of its frame
    def _kept_accessor(self, case, bins=None):
        """`lc = df.load_collective` on a from/to frame is kept while the caller changes `df` in place: (a) a cycles column is
        added, (b) overwritten, (c) from/to are overwritten, (d) the cycles column is deleted.  After every step the kept object
        must answer like a FRESH accessor on the same frame (which the other clauses tie to the model).  A range/mean frame is
        converted to an internal from/to frame at construction (a snapshot by design), so this is about from/to frames."""
        rows = case["rows"]
        n = len(rows)
        df = make_frame(dict(case, cycles=False, form="ft"))
        lc = df.load_collective
        axis = case.get("axis")

        def snapshot(acc):
            out = {}
            for k in ("cycles", "amplitude", "meanstress", "R", "upper", "lower"):
                out[k] = [float(v) for v in getattr(acc, k).to_numpy(dtype=float)]
            if bins is not None:
                for k in ("range_histogram", "histogram"):
                    for ax in ([None, axis] if axis else [None]):
                        key = k + ("" if ax is None else f"(axis={ax!r})")
                        try:
                            r = (getattr(acc, k)(bins_arg(bins), ax) if ax else getattr(acc, k)(bins_arg(bins))).to_pandas()
                            out[key] = ([str(i) for i in r.index], [float(v) for v in r.to_numpy(dtype=float)])
                        except Exception as e:          # noqa: BLE001  (kept and fresh object must then fail alike)
                            out[key] = "raises " + type(e).__name__
            return out
        snapshot(lc)        # the object has been used before the frame changes
        c1 = [float(r[2]) for r in rows] if case.get("cycles") else [float(1 + (i % 3)) for i in range(n)]
        c2 = [2.0 * c + 1.0 for c in reversed(c1)]
        fr2 = [float(r[1]) for r in rows]
        to2 = [float(r[0]) + 1.0 for r in rows]

        def set_loads():
            df["from"] = fr2
            df["to"] = to2
        steps = [("a `cycles` column was added in place", lambda: df.__setitem__("cycles", c1)),
                 ("the `cycles` column was overwritten in place", lambda: df.__setitem__("cycles", c2)),
                 ("`from` / `to` were overwritten in place", set_loads),
                 ("the `cycles` column was deleted in place", lambda: df.__delitem__("cycles"))]
        for what, change in steps:
            try:
                change()
            except Exception as e:      # noqa: BLE001
                raise HarnessError(f"harness: in-place change of the frame failed: {type(e).__name__}: {e}") from e
            kept, fresh = snapshot(lc), snapshot(df.load_collective)
            for k in fresh:
                if kept[k] != fresh[k]:
                    return (f"after {what} the accessor object that was created before reports {k} = {str(kept[k])[:160]}, "
                            f"a fresh df.load_collective on the same frame {str(fresh[k])[:160]}", "accessor-stale-after-in-place-change")
        return None

    def _oracle_hist(self, case):
        res = self._oracle_hist_main(case)
        b = case["bins"]
        if res is None and not case.get("exh") and case["which"] != "rec" and b["t"] not in ("iv_gap", "iv_overlap"):
            self._count("bins", "kept-accessor:" + case["which"] + (":axis" if case.get("axis") else ""))
            res = self._kept_accessor(case, b)
        return res

    def _oracle_hist_main(self, case):
        b = case["bins"]
        which = case["which"]
        try:
            res = self._hist_result(case)
        except Exception as e:
            if b["t"] in ("iv_gap", "iv_overlap") and isinstance(e, ValueError):
                return None            # interval bins that are not a gap-free binning are rejected
            if "e" in b and len(b["e"]) == 2 and which == "rm":
                return (f"histogram with the single class {b['e']} raises {type(e).__name__}: {e}", "histogram-two-edges")
            if b["t"] == "count" and case.get("axis") and which == "rm":
                return (f"histogram(bins={b['n']}, axis=...) raises {type(e).__name__}: {e}", "histogram-count-axis")
            return (f"histogram raises {type(e).__name__}: {e}", "histogram-error")
        if b["t"] in ("iv_gap", "iv_overlap"):
            d = (f"{'range_histogram' if which == 'range' else 'histogram'} accepts interval bins {b['iv']} that are not a gap-free "
                 f"binning and returns the classes {[str(i) for i in (res.index if which == 'range' else res.index.get_level_values(0).unique())]}: "
                 f"cycles are counted in classes that were not requested")
            if not self.known("histogram-interval-bins-not-adjacent", d):
                return (d, "histogram-interval-bins-not-adjacent")
            return None
        if which == "rec":
            return self._oracle_rec(case, res)
        groups = group_keys(case)
        missing = [n for n in group_names(case) if n not in res.index.names]
        if missing:
            return (f"the result is not grouped by the level(s) {missing}: index levels {full_names(case)}, axis {case.get('axis')!r} -> "
                    f"result levels {list(res.index.names)}", "histogram-groups")
        parts = split_result(case, res)
        if sum(len(p) for p in parts.values()) != len(res):
            return (f"the result has {len(res)} rows, only {sum(len(p) for p in parts.values())} of them belong to the groups {groups} "
                    f"(levels {full_names(case)}, axis {case.get('axis')!r}; result levels {list(res.index.names)})", "histogram-groups")
        for key in groups:
            rows = rows_of_group(case, key)
            w = [r[2] if case.get("cycles") else 1.0 for r in rows]
            sub = parts[key]
            counts = sub.to_numpy(dtype=float)
            if which == "range":
                xs = [abs(r[0] - r[1]) for r in rows]
                edges = edges_of_index(sub.index) if b["t"] == "count" else [float(x) for x in b["e"]]
                if len(counts) != len(edges) - 1:
                    return (f"group {key}: {len(counts)} classes for {len(edges)} edges", "histogram-shape")
                if b["t"] != "count" and edges_of_index(sub.index) != edges:
                    return (f"group {key}: classes labelled {edges_of_index(sub.index)} for the edges {edges}", "histogram-labels")
                want = [0.0] * (len(edges) - 1)
                for x, wi in zip(xs, w):
                    c = np_class(edges, x)
                    if c is not None:
                        want[c] += wi
                inrange = sum(wi for x, wi in zip(xs, w) if edges[0] <= x <= edges[-1])
                if b["t"] == "count" and (edges[0] > min(xs) or edges[-1] < max(xs)):
                    return (f"group {key}: automatic edges {edges} do not cover the ranges", "histogram-auto-edges")
                if b["t"] == "count" and len(edges) != int(b["n"]) + 1:
                    return (f"group {key}: {len(edges) - 1} classes for bins={b['n']}", "histogram-shape")
            else:
                xs = [abs(r[0] - r[1]) for r in rows]
                ys = [(r[0] + r[1]) / 2 for r in rows]
                lx, ly = sub.index.get_level_values("range"), sub.index.get_level_values("mean")
                if b["t"] == "count":
                    n = int(b["n"])
                    if len(counts) != n * n:
                        return (f"group {key}: {len(counts)} classes for bins={n}", "histogram-shape")
                    ex, ey = edges_of_level(lx), edges_of_level(ly)
                    if ex[0] > min(xs) or ex[-1] < max(xs) or ey[0] > min(ys) or ey[-1] < max(ys):
                        return (f"group {key}: automatic edges do not cover the data", "histogram-auto-edges")
                else:
                    ex = ey = [float(x) for x in b["e"]]
                nx, ny = len(ex) - 1, len(ey) - 1
                if len(counts) != nx * ny:
                    cls = "histogram-two-edges" if len(ex) == 2 else "histogram-shape"
                    return (f"group {key}: {len(counts)} classes instead of {nx}x{ny} for edges {ex}", cls)
                labels = [(float(a.left), float(a.right), float(c.left), float(c.right)) for a, c in zip(lx, ly)]
                if labels != [(ex[i], ex[i + 1], ey[j], ey[j + 1]) for i in range(nx) for j in range(ny)]:
                    return (f"group {key}: the classes are not the row-major product of the range edges {ex} and the mean edges {ey}", "histogram-labels")
                want = [0.0] * (nx * ny)
                for x, y, wi in zip(xs, ys, w):
                    cx, cy = np_class(ex, x), np_class(ey, y)
                    if cx is not None and cy is not None:
                        want[cx * ny + cy] += wi
                inrange = sum(wi for x, y, wi in zip(xs, ys, w) if ex[0] <= x <= ex[-1] and ey[0] <= y <= ey[-1])
            tot = float(np.sum(counts))
            ignores = False
            if case.get("cycles") and any(wi != 1.0 for wi in w):
                # would the result be explained by counting rows instead of cycles?
                one = [0.0] * len(want)
                if which == "range":
                    for x in xs:
                        c = np_class(edges, x)
                        if c is not None:
                            one[c] += 1.0
                else:
                    for x, y in zip(xs, ys):
                        cx, cy = np_class(ex, x), np_class(ey, y)
                        if cx is not None and cy is not None:
                            one[cx * ny + cy] += 1.0
                ignores = [float(g) for g in counts] == one and one != want
            if not core.close(tot, inrange, rtol=1e-9):
                cls = "histogram-ignores-cycles" if ignores else "histogram-total"
                return (f"group {key}: class contents sum to {tot}, cycles inside the covered range: {inrange}", cls)
            for i, (g, wv) in enumerate(zip(counts, want)):
                if not core.close(float(g), wv, rtol=1e-9):
                    cls = "histogram-ignores-cycles" if ignores else "histogram-class"
                    return (f"group {key}: class {i} holds {g}, numpy's rule on the rows gives {wv}", cls)
        # marginal: range histogram = sum over the mean classes when every mean is covered
        if which == "rm" and b["t"] != "count":
            e = [float(x) for x in b["e"]]
            if all(e[0] <= (r[0] + r[1]) / 2 <= e[-1] for r in case["rows"]):
                lc = make_frame(case).load_collective
                bins = bins_arg(b)
                try:
                    rh = (lc.range_histogram(bins, case["axis"]) if case.get("axis") else lc.range_histogram(bins)).to_pandas()
                except Exception as ex_:
                    return (f"range_histogram raises {type(ex_).__name__}: {ex_}", "histogram-error")
                rparts = split_result(case, rh)
                for key in groups:
                    m2 = parts[key].to_numpy(dtype=float).reshape(len(e) - 1, len(e) - 1).sum(axis=1)
                    r1 = rparts[key].to_numpy(dtype=float)
                    if len(r1) != len(m2) or any(not core.close(float(x), float(y), rtol=1e-9) for x, y in zip(r1, m2)):
                        return (f"group {key}: range histogram {list(r1)} is not the marginal {list(m2)} of the range/mean histogram", "marginal")
        return None

    def _oracle_rec(self, case, res):
        """LoopValueRecorder.histogram: from x to matrix of the recorded loops (recorded in one or several chunks)."""
        b = case["bins"]
        rows = case["rows"]
        xs, ys = [r[0] for r in rows], [r[1] for r in rows]
        lf, lt = res.index.get_level_values("from"), res.index.get_level_values("to")
        counts = res.to_numpy(dtype=float)
        ee = self._rec_edges(b)
        if ee is None:
            nx, ny = (b["n"], b["n"]) if b["t"] == "count" else (b["nx"], b["ny"])
            ex, ey = edges_of_level(lf), edges_of_level(lt)
            if len(ex) != nx + 1 or len(ey) != ny + 1:
                return (f"recorder histogram: {len(ex) - 1} x {len(ey) - 1} classes for bins=[{nx}, {ny}]", "histogram-shape")
            if ex[0] > min(xs) or ex[-1] < max(xs) or ey[0] > min(ys) or ey[-1] < max(ys):
                return (f"recorder histogram: automatic edges from {ex} to {ey} do not cover the recorded loops", "histogram-auto-edges")
        else:
            ex, ey = [float(x) for x in ee[0]], [float(x) for x in ee[1]]
        nx, ny = len(ex) - 1, len(ey) - 1
        if len(counts) != nx * ny:
            return (f"recorder histogram: {len(counts)} classes instead of {nx}x{ny}", "histogram-shape")
        labels = [(float(a.left), float(a.right), float(c.left), float(c.right)) for a, c in zip(lf, lt)]
        if labels != [(ex[i], ex[i + 1], ey[j], ey[j + 1]) for i in range(nx) for j in range(ny)]:
            return (f"recorder histogram: the classes are not the row-major product of the from edges {ex} and the to edges {ey}: "
                    f"first labels {labels[:3]}", "histogram-labels")
        want = [0.0] * (nx * ny)
        for x, y in zip(xs, ys):
            cx, cy = np_class(ex, x), np_class(ey, y)
            if cx is not None and cy is not None:
                want[cx * ny + cy] += 1.0
        inrange = sum(1.0 for x, y in zip(xs, ys) if ex[0] <= x <= ex[-1] and ey[0] <= y <= ey[-1])
        if not core.close(float(np.sum(counts)), inrange, rtol=1e-9):
            return (f"recorder histogram: class contents sum to {float(np.sum(counts))}, loops inside the covered range: {inrange}", "histogram-total")
        for i, (g, wv) in enumerate(zip(counts, want)):
            if float(g) != wv:
                return (f"recorder histogram: class {i} holds {g}, numpy's rule on the loops gives {wv}", "histogram-class")
        # the plain numpy form of the same histogram
        H, hx_, hy_ = self._recorder(case).histogram_numpy(bins_arg(b))
        if [float(v) for v in np.asarray(H).ravel()] != [float(v) for v in counts] or [float(v) for v in hx_] != ex or [float(v) for v in hy_] != ey:
            return ("recorder: histogram_numpy and histogram differ in contents or edges", "histogram-class")
        return None

    def _oracle_lh(self, case):
        ser = self._lh_series(case)
        lh = ser.load_collective

        def q(x):
            return (x.amplitude.to_numpy(float), np.asarray(x.meanstress, dtype=float), x.upper.to_numpy(float),
                    x.lower.to_numpy(float), x.R.to_numpy(float), x.cycles.to_numpy(float))

        def consistent(what, a, mm, u, l, R):
            for i in range(len(a)):
                if u[i] - l[i] != 2 * a[i] or (u[i] + l[i]) / 2 != mm[i]:
                    return (f"{what}class {i}: upper {u[i]} lower {l[i]} amplitude {a[i]} mean {mm[i]} inconsistent", "consistency")
                want = 0.0 if (u[i] == 0 and l[i] == 0) else (l[i] / u[i] if u[i] != 0 else None)
                if want is not None and R[i] != want:
                    return (f"{what}class {i}: R = {R[i]} != lower/upper = {want}", "consistency")
            return None
        cls = case["classes"]
        a, mm, u, l, R, c = q(lh)
        if len(a) != len(cls):
            return (f"{len(a)} amplitudes for {len(cls)} classes", "consistency")
        bad = consistent("", a, mm, u, l, R)
        if bad:
            return bad
        for i, cl in enumerate(cls):
            if case["t"] == "ft":
                want_a, want_m = abs((cl[0] + cl[1]) / 2 - (cl[2] + cl[3]) / 2) / 2, ((cl[0] + cl[1]) / 2 + (cl[2] + cl[3]) / 2) / 2
            else:
                want_a, want_m = (cl[0] + cl[1]) / 2 / 2, (0.0 if case["t"] == "rm1" else (cl[2] + cl[3]) / 2)
            if (a[i], mm[i]) != (want_a, want_m):
                return (f"class {i} {cl}: amplitude/mean ({a[i]}, {mm[i]}), the class mids give ({want_a}, {want_m})", "consistency")
            if c[i] != case["vals"][i]:
                return (f"class {i}: cycles {c[i]} != content {case['vals'][i]}", "cycles")
        f, d = case["f"], case["d"]
        a2, m2, u2, l2, _, c2 = q(lh.scale(f))
        a3, m3, u3, l3, _, c3 = q(lh.shift(d))
        if len(a2) != len(a) or len(a3) != len(a):
            return (f"scale / shift by a scalar changed the number of classes: {len(a)} -> {len(a2)}, {len(a3)}", "equivariance")
        for i in range(len(a)):
            if (a2[i], m2[i]) != (f * a[i], f * mm[i]) or c2[i] != c[i]:
                return (f"scale({f}): class {i} amplitude/mean/cycles ({a2[i]}, {m2[i]}, {c2[i]}) expected ({f * a[i]}, {f * mm[i]}, {c[i]})", "equivariance")
            if (a3[i], m3[i]) != (a[i], (mm[i] + d) if case["t"] != "rm1" else mm[i]) or c3[i] != c[i]:
                return (f"shift({d}): class {i} amplitude/mean/cycles ({a3[i]}, {m3[i]}, {c3[i]}) unexpected", "equivariance")
        ser0 = self._lh_series(case)
        if not ser.equals(ser0) or not ser.index.equals(ser0.index):
            return ("scale / shift modified the histogram they were called on", "input-modified")
        if any(list(x) != list(y) for x, y in zip(q(lh)[:4], (a, mm, u, l))):
            return ("after scale / shift the original histogram reports other amplitudes / means / upper / lower values", "input-modified")
        if case.get("neg") is not None and any(cl[0] != cl[1] or cl[2] != cl[3] for cl in case["classes"]):
            try:
                r = lh.scale(case["neg"]).to_pandas()
                # if pandas accepts it the classes must still be consistent
                for name in r.index.names:
                    lv = r.index.get_level_values(name)
                    if isinstance(lv, pd.IntervalIndex) and any(iv.left > iv.right for iv in lv):
                        return ("scale by a negative factor produced inverted classes", "equivariance")
            except ValueError:
                self._count("errors", "lh-negative-scale:ValueError")
        # a Series operand: every class x every operand entry (row-major), cycles repeated
        sop = case.get("series")
        if sop:
            self._count("operand", "lh:series")
            ix = pd.Index(sop["index"], name="other")
            for what, vals in (("scale", sop["f"]), ("shift", sop["d"])):
                arg = pd.Series(vals, index=ix, dtype=float)
                r = lh.scale(arg) if what == "scale" else lh.shift(arg)
                ar, mr, ur, lr, Rr, cr = q(r)
                if len(ar) != len(a) * len(vals):
                    return (f"{what} by a Series of {len(vals)} entries: {len(ar)} classes, expected {len(a) * len(vals)}", "equivariance")
                bad = consistent(f"{what} by a Series: ", ar, mr, ur, lr, Rr)
                if bad:
                    return bad
                k = 0
                for i in range(len(a)):
                    for v in vals:
                        if what == "scale":
                            want = (v * a[i], v * mm[i])
                        else:
                            want = (a[i], mm[i] + v if case["t"] != "rm1" else mm[i])
                        if (ar[k], mr[k]) != want or cr[k] != c[i]:
                            return (f"{what} by Series entry {v}: class {i} amplitude/mean/cycles ({ar[k]}, {mr[k]}, {cr[k]}), expected {want + (c[i],)}", "equivariance")
                        k += 1
        # class location left / right: the same identities on the class bounds
        for loc in ("left", "right"):
            x = self._lh_series(case).load_collective
            x = x.use_class_left() if loc == "left" else x.use_class_right()
            al, ml, ul, ll, Rl, cl_ = q(x)
            bad = consistent(f"use_class_{loc}: ", al, ml, ul, ll, Rl)
            if bad:
                return bad
            j = 0 if loc == "left" else 1
            for i, cl in enumerate(cls):
                if case["t"] == "ft":
                    want = (abs(cl[j] - cl[2 + j]) / 2, (cl[j] + cl[2 + j]) / 2)
                else:
                    want = (cl[j] / 2, 0.0 if case["t"] == "rm1" else cl[2 + j])
                if (al[i], ml[i]) != want or cl_[i] != c[i]:
                    return (f"use_class_{loc}: class {i} {cl}: amplitude/mean/cycles ({al[i]}, {ml[i]}, {cl_[i]}), expected {want + (c[i],)}", "consistency")
        # amplitude histogram: the same cycles over amplitude classes
        ah = lh.amplitude_histogram
        if list(ah.to_numpy(dtype=float)) != [float(v) for v in case["vals"]]:
            return (f"amplitude_histogram changed the cycles: {list(ah)} != {case['vals']}", "cycles")
        if case["t"] != "ft":
            for i, (iv, cl) in enumerate(zip(ah.index, cls)):
                if (iv.left, iv.right) != (cl[0] / 2, cl[1] / 2):
                    return (f"amplitude_histogram: class {i} is {iv}, half of the range class {cl[:2]} expected", "consistency")
        if case["t"] != "ft":
            cum = lh.cumulated_range()
            by_range = {}
            for cl, v, cv in zip(cls, case["vals"], cum.to_numpy(dtype=float)):
                k = (cl[0], cl[1])
                by_range[k] = by_range.get(k, 0.0) + v
                if cv != by_range[k]:
                    return (f"cumulated_range: class {cl} has {cv}, the cycles of its range class so far are {by_range[k]}", "cycles")
        return None

    def _oracle_rebin(self, case):
        m = mods()
        src = case["src"]
        h = self._rebin_src(case)
        total = float(sum(s[2] for s in src))
        zero_total = float(sum(s[2] for s in src if s[0] == s[1]))
        t = case["target"]
        lo, hi = min(s[0] for s in src), max(s[1] for s in src)

        def total_cls(got, what):
            """Finding for a total that is not conserved.  The former defect `rebin-zero-width-source` (the content of source
            classes of zero width vanished; fixed by d3f7088) is recognised by its mechanism: exactly the zero-width content is missing."""
            if zero_total > 0 and core.close(got, total - zero_total, rtol=1e-9):
                return (f"{what}: total {got} != {total}: the content {zero_total} of the zero-width source class(es) "
                        f"{[s for s in src if s[0] == s[1] and s[2]]} is lost", "rebin-zero-width-source")
            return (f"{what}: total {got} != {total}", "rebin-total")

        if t["t"] == "invalid":
            ivs = [tuple(x) for x in t["iv"]]
            if t["what"] == "list":
                arg, want = [x[0] for x in ivs] + [ivs[-1][1]], TypeError
            elif t["what"] == "float":
                arg, want = 2.0, TypeError
            else:
                arg, want = pd.IntervalIndex.from_tuples(ivs), ValueError
            try:
                r = m["rebin"](h, arg)
            except (TypeError, ValueError) as e:
                if isinstance(e, want):
                    self._count("errors", f"rebin-invalid-{t['what']}:{type(e).__name__}")
                    return None
                return (f"rebin_histogram to the invalid binning ({t['what']}) {arg!r} raises {type(e).__name__} instead of {want.__name__}: {e}",
                        "rebin-invalid-binning")
            return (f"rebin_histogram accepts the invalid binning ({t['what']}) {arg!r}: total {float(np.nansum(r.to_numpy(dtype=float)))} "
                    f"of {total}", "rebin-invalid-binning")
        if t["t"] == "count0d":
            # documented: IntervalIndex or int.  A 0-d array is either refused (TypeError) or taken as the class count
            try:
                r = m["rebin"](h, bins_arg(t))
            except TypeError:
                self._count("errors", "rebin-0d-array:TypeError")
                return None
            ri = m["rebin"](h, int(t["n"]))
            if not ri.index.equals(r.index) or list(ri.to_numpy(dtype=float)) != list(r.to_numpy(dtype=float)):
                return (f"rebin_histogram(h, np.array({t['n']})) differs from rebin_histogram(h, {t['n']})", "rebin-numpy-integer-count")
            return None
        if t["t"] in ("count", "npcount"):
            try:
                r = m["rebin"](h, bins_arg(t))
            except Exception as e:
                cls = "rebin-numpy-integer-count" if (t["t"] == "npcount" or t.get("as", "int") != "int") and isinstance(e, TypeError) else "rebin-error"
                d = f"rebin_histogram(h, {bins_arg(t)!r}) raises {type(e).__name__}: {e}"
                if not self.known(cls, d):
                    return (d, cls)
                return None
            if len(r) != t["n"]:
                return (f"rebin_histogram(h, {t['n']}) has {len(r)} classes", "rebin-shape")
            if t["t"] == "npcount":
                ri = m["rebin"](h, int(t["n"]))
                if not ri.index.equals(r.index) or list(ri.to_numpy(dtype=float)) != list(r.to_numpy(dtype=float)):
                    return (f"rebin_histogram(h, np.int64({t['n']})) differs from rebin_histogram(h, {t['n']})", "rebin-numpy-integer-count")
            if not core.close(float(r.sum()), total, rtol=1e-9):
                bad = total_cls(float(r.sum()), f"rebin to {t['n']} classes")
                if not self.known(bad[1], bad[0]):
                    return bad
            return None
        b = t["b"]
        try:
            r = m["rebin"](h, pd.IntervalIndex.from_breaks(b))
        except Exception as e:
            cls = "rebin-single-interval" if len(b) == 2 else "rebin-error"
            return (f"rebin_histogram to breaks {b} raises {type(e).__name__}: {e}", cls)
        h0 = self._rebin_src(case)
        if not h.equals(h0) or not h.index.equals(h0.index):
            return ("rebin_histogram modified the histogram it was given", "input-modified")
        got = r.to_numpy(dtype=float)
        if len(got) != len(b) - 1 or edges_of_index(r.index) != [float(x) for x in b]:
            return (f"rebin to breaks {b}: the result has the classes {[str(i) for i in r.index]}", "rebin-shape")
        covered = b[0] <= lo and b[-1] >= hi
        lost_known = False
        if covered and not core.close(float(got.sum()), total, rtol=1e-9):
            bad = total_cls(float(got.sum()), f"rebin to {b}")
            if not self.known(bad[1], bad[0]):
                return bad
            lost_known = True
        if not covered and float(got.sum()) > total * (1 + 1e-9) + 1e-12:
            return (f"rebin to a non-covering binning {b} created cycles: {float(got.sum())} > {total}", "rebin-total")
        # class by class: linear distribution of the classes of positive width, a zero-width class goes where numpy puts its point
        want = ref_rebin(src, b)
        sc = max(total, 1.0)
        if not lost_known and any(abs(float(x) - y) > 1e-9 * sc for x, y in zip(got, want)):
            d = f"rebin of {src} to {b}: contents {list(got)}, overlap-proportional distribution gives {want}"
            if zero_total > 0 and all(abs(float(x) - y) <= 1e-9 * sc for x, y in zip(got, ref_rebin([s for s in src if s[0] < s[1]], b))):
                if not self.known("rebin-zero-width-source", d):
                    return (d + " (the zero-width source classes are lost)", "rebin-zero-width-source")
            else:
                return (d, "rebin-class")
        same = b == [s[0] for s in src] + [src[-1][1]] and case["src_style"] == "breaks"
        # identity: numpy only ever fills a zero-width class when it is the last one
        if same and all(s[0] < s[1] or s[2] == 0 or i == len(src) - 1 for i, s in enumerate(src)):
            if any(not core.close(float(x), float(y), rtol=1e-12) for x, y in zip(got, [s[2] for s in src])):
                d = f"rebin to the same binning changed the contents: {list(got)} != {[s[2] for s in src]}"
                if not (zero_total > 0 and self.known("rebin-zero-width-source", d)):
                    return (d, "rebin-zero-width-source" if zero_total > 0 and core.close(float(got.sum()), total - zero_total) else "rebin-identity")
        if case.get("target2"):
            c = case["target2"]
            try:
                r2 = m["rebin"](r, pd.IntervalIndex.from_breaks(c))
            except Exception as e:
                cls = "rebin-single-interval" if len(c) == 2 else "rebin-error"
                return (f"rebin_histogram to breaks {c} raises {type(e).__name__}: {e}", cls)
            g2 = r2.to_numpy(dtype=float)
            cov2 = covered and c[0] <= b[0] and c[-1] >= b[-1]
            if cov2 and not lost_known and not core.close(float(g2.sum()), total, rtol=1e-9):
                bad = total_cls(float(g2.sum()), f"rebin {b} then {c}")
                if not self.known(bad[1], bad[0]):
                    return bad
            positive = all(s[0] < s[1] for s in src) and all(x < y for x, y in zip(b, b[1:]))
            refines = case["src_style"] == "breaks" and covered and all(s[0] in b for s in src) and src[-1][1] in b
            coarsens = all(x in b for x in c)
            try:
                d = m["rebin"](h, pd.IntervalIndex.from_breaks(c)).to_numpy(dtype=float)
            except Exception as e:
                return (f"rebin_histogram to breaks {c} raises {type(e).__name__}: {e}", "rebin-error")
            differs = any(abs(float(x) - float(y)) > 1e-9 * sc for x, y in zip(g2, d))
            if positive and (refines or coarsens):
                self.stats["rebin_refining" if refines else "rebin_coarsening"] += 1
                if differs:
                    why = f"B={b} refines A" if refines else f"C={c} coarsens B={b}"
                    return (f"A->B->C {list(g2)} != A->C {list(d)} although {why}", "rebin-compose")
            else:
                # the literal clause 'and composes' (false in general, see rebin_compose_literal_false): how often it fails is recorded
                self.stats["compose_literal_checked"] += 1
                self.stats["compose_literal_differs"] += bool(differs)
        return None

    def _oracle_rebin2d(self, case):
        m = mods()
        h = self._hist2(case)
        total = float(np.nansum(h.to_numpy(dtype=float)))
        n1, n2 = case["names"]
        nd = bool(case.get("nan_default"))
        cells = [c for c in self._cells(case) if c[4] is not None]
        kw = {"nan_default": True} if nd else {}
        if case.get("extra"):
            # a third, non-interval level: every element is re-binned on its own
            target, bx, by = self._target2(case)
            h3 = self._hist3(case)
            try:
                r3 = m["rebin"](h3, target)
            except Exception as e:
                return (f"rebin_histogram of a histogram with the levels (element_id, {n1}, {n2}) raises {type(e).__name__}: {e}", "rebin2d-extra-level")
            if sorted(r3.index.get_level_values("element_id").unique()) != sorted(case["extra"]):
                return (f"rebin with a third level: elements {sorted(r3.index.get_level_values('element_id').unique())} != {sorted(case['extra'])}", "rebin2d-extra-level")
            for i, e in enumerate(case["extra"]):
                sub = r3.xs(e, level="element_id")
                mat = self._matrix2(case, sub.reorder_levels([n1, n2]) if set(sub.index.names) == {n1, n2} else sub, bx, by)
                ref = self._matrix2(case, m["rebin"](self._hist2(case, float(i + 1)), target), bx, by)
                if mat is None or ref is None:
                    return (f"rebin with a third level: element {e} does not have the requested classes", "rebin2d-classes")
                if any(abs(x - y) > 1e-9 * max(1.0, abs(y)) for x, y in zip(mat, ref)):
                    return (f"rebin with a third level: element {e} gets {mat}, re-binned on its own {ref}", "rebin2d-extra-level")
            return None
        if case["target"]["t"] == "count":
            n, bx, by = self._target2(case)
            try:
                r = m["rebin"](h, n, **kw)
            except Exception as e:
                return (f"two-level rebin_histogram(h, {n}) raises {type(e).__name__}: {e}", "rebin2d-error")
            mat = self._matrix2(case, r, bx, by, approx=True)
            if mat is None:
                return (f"two-level rebin_histogram(h, {n}): the result does not have {n} x {n} classes over the extent of the histogram "
                        f"(got levels {list(r.index.names)}, {len(r)} cells)", "rebin2d-classes")
            if not core.close(float(np.nansum(mat)), total, rtol=1e-9):
                return (f"two-level rebin_histogram(h, {n}): total {float(np.nansum(mat))} != {total}", "rebin2d-total")
            return None
        res = {}
        for order in (["same", "swapped"] if case["target"]["t"] == "multi" else ["plain"]):
            target, bx, by = self._target2(case, order)
            try:
                r = m["rebin"](h, target, **kw)
            except Exception as e:
                return (f"two-level rebin_histogram ({order} level order) raises {type(e).__name__}: {e}", "rebin2d-error")
            mat = self._matrix2(case, r, bx, by)
            if mat is None:
                return (f"two-level re-bin ({order} level order of the target): the result does not have the requested classes "
                        f"{n1}: {bx}, {n2}: {by} (got levels {list(r.index.names)}, {len(r)} cells)", "rebin2d-classes")
            covered = bx[0] <= case["ax"][0] and bx[-1] >= case["ax"][-1] and by[0] <= case["ay"][0] and by[-1] >= case["ay"][-1]
            tot = float(np.nansum(mat))
            if covered and not core.close(tot, total, rtol=1e-9):
                zero = sum(c[4] for c in cells if c[0] == c[1] or c[2] == c[3])
                cls = "rebin-zero-width-source" if zero > 0 and core.close(tot, total - zero, rtol=1e-9) else "rebin2d-total"
                d = f"two-level re-bin ({order} level order of the target) to a covering binning: total {tot} != {total}"
                if not self.known(cls, d):
                    return (d, cls)
                continue
            if not covered and tot > total * (1 + 1e-9) + 1e-12:
                return (f"two-level re-bin created cycles: {tot} > {total}", "rebin2d-total")
            # cell by cell: product of the shares along the two levels
            nby = len(by) - 1
            want = [sum(c[4] * ref_share(bx[i], bx[i + 1], i == len(bx) - 2, c[0], c[1]) * ref_share(by[j], by[j + 1], j == nby - 1, c[2], c[3])
                        for c in cells) for i in range(len(bx) - 1) for j in range(nby)]
            sc = max(total, 1.0)
            for k, (g, w) in enumerate(zip(mat, want)):
                if g != g:
                    occupied = any(ref_share(bx[k // nby], bx[k // nby + 1], k // nby == len(bx) - 2, c[0], c[1]) > 0 and
                                   ref_share(by[k % nby], by[k % nby + 1], k % nby == nby - 1, c[2], c[3]) > 0 for c in cells)
                    if not nd or occupied and w > 0:
                        return (f"two-level re-bin (nan_default={nd}): cell {k} is NaN, expected {w}", "rebin-nan-default")
                elif abs(g - w) > 1e-9 * sc:
                    return (f"two-level re-bin ({order} level order): cell {k} holds {g}, the product of the per-level shares gives {w}", "rebin2d-class")
            if not case["drop"] and not case.get("nan") and bx == case["ax"] and by == case["ay"]:
                if any(not core.close(x, y, rtol=1e-12) for x, y in zip(mat, case["vals"])):
                    return (f"re-bin to the same two-level binning ({order} level order) changed the contents: {mat} != {case['vals']}", "rebin2d-identity")
            res[order] = mat
        if len(res) == 2:
            sc = max(total, 1.0)
            if any(not ((x != x and y != y) or abs(x - y) <= 1e-9 * sc) for x, y in zip(res["same"], res["swapped"])):
                return (f"the level order of the target changes the result: {res['same']} vs {res['swapped']}", "rebin2d-level-order")
        return None

    @staticmethod
    def _skipna(method, vals):
        """What an aggregation that skips unoccupied (NaN) classes gives for the values of one class."""
        v = [x for x in vals if x == x]
        if method == "sum":
            return float(sum(v))
        if not v:
            return NAN
        return {"min": min(v), "max": max(v), "mean": sum(v) / len(v)}[method]

    def _check_combined(self, what, hs, keyed_parts, extract, methods=("sum", "min", "max", "mean")):
        """keyed_parts: per histogram a dict class -> content (NaN allowed); extract(result) -> dict class -> content."""
        m = mods()
        keys = []
        for kp in keyed_parts:
            for k in kp:
                if k not in keys:
                    keys.append(k)
        for method in methods:
            try:
                r = m["combine"](hs, method)
            except Exception as e:
                return (f"combine_histogram({what}, {method!r}) raises {type(e).__name__}: {e}", "combine-error")
            got = extract(r) if len(r) else {}
            want = {k: self._skipna(method, [x for kp in keyed_parts for kk, x in kp.items() if kk == k]) for k in keys}
            if method == "sum":
                total = float(sum(x for kp in keyed_parts for x in kp.values() if x == x))
                gt = float(np.nansum(r.to_numpy(dtype=float))) if len(r) else 0.0
                if not core.close(gt, total, rtol=1e-9):
                    return (f"{what}: combined grand total {gt} != sum of the totals of the parts {total} (NaN = unoccupied)", "combine-total")
            if set(got) != set(want):
                return (f"{what} ({method}): combined classes {sorted(got)} != classes of the parts {sorted(want)}", "combine-class")
            for k in want:
                g, w = got[k], want[k]
                if not ((g != g and w != w) or core.close(g, w, rtol=1e-9)):
                    return (f"{what} ({method}): class {k} holds {g}, the parts that have a value there give {w}", "combine-class")
        return None

    def _oracle_combine(self, case):
        hs = self._combine_inputs(case)
        parts = []
        for h in case["hists"]:
            d = {}
            for b in h:      # a histogram may list a class twice: its contents add up / aggregate like separate parts
                d.setdefault((b[0], b[1]), []).append(nn(b[2]))
            parts.append(d)
        # flatten duplicates inside one histogram into separate pseudo-parts
        flat = []
        for d in parts:
            depth = max([len(v) for v in d.values()] + [0])
            for i in range(depth):
                flat.append({k: v[i] for k, v in d.items() if len(v) > i})
        res = self._check_combined("histograms" + (f" (dtypes {case['dtypes']})" if case.get("dtypes") else ""), hs, flat,
                                   lambda r: {(iv.left, iv.right): float(v) for iv, v in zip(r.index, r.to_numpy(dtype=float))})
        if res is None:
            for h, h0 in zip(hs, self._combine_inputs(case)):
                if not h.equals(h0) or not h.index.equals(h0.index) or h.dtype != h0.dtype:
                    return ("combine_histogram modified a histogram it was given", "input-modified")
        return res

    @builder
    def _combine2d_inputs(self, case):
        ax, ay = case["ax"], case["ay"]
        keys = [(ax[i], ax[i + 1], ay[j], ay[j + 1]) for i in range(len(ax) - 1) for j in range(len(ay) - 1)]
        hs, parts = [], []
        swapped = case.get("swapped") or [False] * len(case["hists"])
        for vals, rev, sw in zip(case["hists"], case["reversed"], swapped):
            kv = list(zip(keys, [nn(v) for v in vals]))
            if rev:
                kv.reverse()
            ix = pd.MultiIndex.from_arrays([pd.IntervalIndex.from_arrays([k[0] for k, _ in kv], [k[1] for k, _ in kv]),
                                            pd.IntervalIndex.from_arrays([k[2] for k, _ in kv], [k[3] for k, _ in kv])],
                                           names=case["names"])
            s = pd.Series([v for _, v in kv], index=ix, dtype=float)
            if sw:
                s = s.reorder_levels(list(reversed(case["names"])))     # the same histogram with its levels in the other order
            hs.append(s)
            parts.append(dict(kv))
        return hs, parts

    def _oracle_combine2d(self, case):
        hs, parts = self._combine2d_inputs(case)
        n1, n2 = case["names"]
        by_name = n1 is not None and n2 is not None and n1 != n2
        self._count("bins", "combine2d:names=" + ("unnamed" if n1 is None and n2 is None else "one-unnamed" if None in (n1, n2) else "same-twice" if n1 == n2 else "named"))

        def extract(r):
            a, b = (r.index.get_level_values(n1), r.index.get_level_values(n2)) if by_name else (r.index.get_level_values(0), r.index.get_level_values(1))
            return {(float(xl), float(xr), float(yl), float(yr)): float(v)
                    for xl, xr, yl, yr, v in zip(a.left, a.right, b.left, b.right, r.to_numpy(dtype=float))}
        try:
            r0 = mods()["combine"](hs, "sum")
        except Exception as e:
            return (f"combine_histogram of two-level histograms with the level names {case['names']} raises {type(e).__name__}: {e}", "combine-error")
        if len(r0) and (r0.index.nlevels != 2 or list(r0.index.names) != list(hs[0].index.names)):
            return (f"the combined histogram has the levels {list(r0.index.names)}, the first histogram has {list(hs[0].index.names)}", "combine-class")
        swapped = case.get("swapped") or []
        if any(swapped) and not all(swapped):
            self._count("bins", "combine2d:mixed-level-order")
        res = self._check_combined("two-level histograms" + (" (level order differs between the histograms)" if any(swapped) and not all(swapped) else ""),
                                   hs, parts, extract)
        if res is not None and res[1] == "combine-class" and any(swapped) and not all(swapped):
            # recognised by its mechanism: correct when every histogram is given in the same level order
            same = [h.reorder_levels(case["names"]) for h in hs]
            if self._check_combined("two-level histograms", same, parts, extract) is None:
                res = (res[0], "combine-level-order")
                if self.known(res[1], res[0]):
                    return None
        return res

    def _oracle_pipe(self, case):
        target = case["target"]
        try:
            parts, comb = self._run_pipe(case)
        except Exception as e:
            return (f"rebin to a common binning + combine raises {type(e).__name__}: {e}", "pipe-error")
        keyed = []
        nt = len(target) - 1
        for h, p in zip(case["parts"], parts):
            vals = p.to_numpy(dtype=float)
            if len(vals) != nt:
                return (f"re-bin of {h} to {target}: {len(vals)} classes", "rebin-shape")
            pres = [b for b in h if b[2] is not None]
            covered = target[0] <= h[0][0] and target[-1] >= h[-1][1]
            tot = float(sum(b[2] for b in pres))
            zero = float(sum(b[2] for b in pres if b[0] == b[1]))
            lost = False
            if covered and not core.close(float(np.nansum(vals)), tot, rtol=1e-9):
                cls = "rebin-zero-width-source" if zero > 0 and core.close(float(np.nansum(vals)), tot - zero, rtol=1e-9) else "rebin-total"
                d = f"re-bin (nan_default={case['nan_default']}) of {h} to {target}: total {float(np.nansum(vals))} != {tot}"
                if not self.known(cls, d):
                    return (d, cls)
                lost = True
            for j, v in enumerate(vals):
                occupied = any(ref_share(target[j], target[j + 1], j == nt - 1, b[0], b[1]) > 0 or
                               (b[0] < b[1] and b[0] < target[j + 1] and target[j] < b[1]) for b in pres)
                unocc_ok = (v != v) if case["nan_default"] else (v == 0.0)
                if not lost and ((not occupied and not unocc_ok) or (occupied and v != v)):
                    return (f"re-bin (nan_default={case['nan_default']}): class ({target[j]}, {target[j + 1]}] holds {v}; "
                            f"occupied by a source class with a value: {occupied}", "rebin-nan-default")
            keyed.append({(target[j], target[j + 1]): float(v) for j, v in enumerate(vals)})
        return self._check_combined("re-binned histograms", parts, keyed,
                                    lambda r: {(iv.left, iv.right): float(v) for iv, v in zip(r.index, r.to_numpy(dtype=float))})

    def _oracle_chain(self, case):
        """collective -> range_histogram(own edges) -> re-bin to the common binning -> combine by sum."""
        target = [float(x) for x in case["target"]]
        try:
            hs, rb, comb = self._run_chain(case)
        except Exception as e:
            return (f"range_histogram -> rebin_histogram -> combine_histogram raises {type(e).__name__}: {e}", "chain-error")
        parts = self._chain_parts(case)
        grand, all_cov, keyed = 0.0, True, []
        lost = False
        for p, h, r in zip(parts, hs, rb):
            e = [float(x) for x in p["e"]]
            xs = [abs(x[0] - x[1]) for x in p["rows"]]
            w = [x[2] if p.get("cycles") else 1.0 for x in p["rows"]]
            want = [0.0] * (len(e) - 1)
            for x, wi in zip(xs, w):
                c = np_class(e, x)
                if c is not None:
                    want[c] += wi
            hv = h.to_numpy(dtype=float)
            if len(hv) != len(want) or any(float(g) != wv for g, wv in zip(hv, want)):
                return (f"range_histogram({e}) of the ranges {xs} (cycles {w}) gives {list(hv)}, numpy's rule gives {want}", "histogram-class")
            inrange = sum(wi for x, wi in zip(xs, w) if e[0] <= x <= e[-1])
            grand += inrange
            covered = target[0] <= e[0] and target[-1] >= e[-1]
            all_cov = all_cov and covered
            rv = r.to_numpy(dtype=float)
            rcls = [(float(iv.left), float(iv.right)) for iv in r.index]
            if p.get("rebin", True):
                if rcls != list(zip(target, target[1:])):
                    return (f"re-bin of range_histogram({e}) to {target}: classes {rcls}", "rebin-shape")
                src = [[e[i], e[i + 1], want[i]] for i in range(len(want))]
                ref = ref_rebin(src, target)
                zero = sum(s[2] for s in src if s[0] == s[1])
                sc = max(sum(want), 1.0)
                if any(abs(float(g) - y) > 1e-9 * sc for g, y in zip(rv, ref)):
                    d = (f"range_histogram({e}) = {want} re-binned to {target}: {list(rv)}, the overlap-proportional distribution "
                         f"(zero-width class = point) gives {ref}")
                    if zero > 0 and all(abs(float(g) - y) <= 1e-9 * sc for g, y in zip(rv, ref_rebin([s for s in src if s[0] < s[1]], target))):
                        if not self.known("rebin-zero-width-source", d):
                            return (d + f": the {zero} cycles of the zero-width class are lost", "rebin-zero-width-source")
                        lost = True
                    else:
                        return (d, "rebin-class")
                if covered and not lost and not core.close(float(rv.sum()), inrange, rtol=1e-9):
                    return (f"range_histogram({e}) re-binned to the covering binning {target}: total {float(rv.sum())} != cycles in range {inrange}", "rebin-total")
            d = {}
            for kcls, v in zip(rcls, rv):
                d.setdefault(kcls, []).append(float(v))
            depth = max(len(v) for v in d.values())
            for i in range(depth):
                keyed.append({k: v[i] for k, v in d.items() if len(v) > i})
        res = self._check_combined(f"histograms of the pipeline (dtypes {[str(r.dtype) for r in rb]})", rb, keyed,
                                   lambda r: {(float(iv.left), float(iv.right)): float(v) for iv, v in zip(r.index, r.to_numpy(dtype=float))},
                                   methods=("sum",))
        if res is not None:
            return res
        if all_cov and not lost and not core.close(float(comb.to_numpy(dtype=float).sum()), grand, rtol=1e-9):
            return (f"collectives -> histograms -> common binning {target} -> combined: grand total {float(comb.sum())} != cycles in range {grand}", "chain-total")
        return None

    # -------------------------------------------------------------- shrinking
    def shrink(self, case, still_fails):
        cur = json.loads(json.dumps(case))
        key = {"coll": "rows", "hist": "rows", "rebin": "src", "lh": "classes", "pipe": "parts", "combine": "hists",
               "combine2d": "hists", "chain": "parts"}.get(cur["kind"])
        if key is None:
            return cur
        if cur["kind"] == "hist" and cur.get("chunks"):
            cand = json.loads(json.dumps(cur))
            del cand["chunks"]
            try:
                if still_fails(cand):
                    cur = cand
            except Exception:
                pass
        changed = True
        while changed and len(cur[key]) > 1:
            changed = False
            for i in range(len(cur[key])):
                cand = json.loads(json.dumps(cur))
                del cand[key][i]
                for par in ("keys", "vals", "idx", "reversed", "swapped", "dtypes"):
                    if cand.get(par):
                        del cand[par][i]
                if cand.get("chunks"):
                    del cand["chunks"]
                try:
                    if still_fails(cand):
                        cur = cand
                        changed = True
                        break
                except Exception:
                    continue
        return cur
