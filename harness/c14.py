"""C14: load collectives and histograms account for every cycle exactly once.

Correspondence: the Lean model `Model/Collective.lean` (driver op `c14 …`) against
`LoadCollective` / `LoadHistogram` / `rebin_histogram` / `combine_histogram` / `LoopValueRecorder.histogram`.
Oracle: the property's own relations evaluated on the real code (independent of the Lean model)."""
import itertools
import json
import math
import warnings

import numpy as np
import pandas as pd

from . import core
from .core import Prop, f2h, h2f

SOURCES = [
    "src/pylife/stress/collective/load_collective.py",
    "src/pylife/stress/collective/load_histogram.py",
    "src/pylife/stress/collective/abstract_load_collective.py",
    "src/pylife/utils/histogram.py",
    "src/pylife/stress/rainflow/recorders.py",
]

_MOD = {}


def mods():
    if not _MOD:
        import pylife.stress.collective  # noqa: F401  registers the accessors
        from pylife.utils.histogram import rebin_histogram, combine_histogram
        from pylife.stress.rainflow.recorders import LoopValueRecorder
        _MOD.update(rebin=rebin_histogram, combine=combine_histogram, rec=LoopValueRecorder)
    return _MOD


NAN = float("nan")


def nn(x):
    """JSON null stands for a NaN content (an unoccupied class)."""
    return NAN if x is None else float(x)


def hx(xs):
    return " ".join(f2h(nn(x)) for x in xs)


def err(e):
    return "err:" + type(e).__name__


# ------------------------------------------------------------------ building the real objects
def group_keys(case):
    """Sorted distinct group keys (tuples) of a case, [()] when the collective has no extra levels."""
    keys = case.get("keys")
    if not keys:
        return [()]
    return sorted({tuple(k) for k in keys})


def rows_of_group(case, key):
    keys = case.get("keys")
    if not keys:
        return list(case["rows"])
    return [r for r, k in zip(case["rows"], keys) if tuple(k) == key]


def make_frame(case):
    """The DataFrame of a collective case.  rows = [from, to, cycles]; form 'rm' hands the real code
    range/mean columns instead; extra index levels from `levels`/`keys`, the cycle axis is `cycle_number`."""
    rows = case["rows"]
    fr = np.asarray([r[0] for r in rows], dtype=float)
    to = np.asarray([r[1] for r in rows], dtype=float)
    if case.get("form") == "rm":
        data = {"range": [r[0] for r in rows], "mean": [r[1] for r in rows]}
    else:
        data = {"from": fr, "to": to}
    if case.get("cycles"):
        data["cycles"] = [float(r[2]) for r in rows]
    levels = case.get("levels") or []
    if levels:
        counter = {}
        arrays = [[] for _ in levels] + [[]]
        for i, k in enumerate(case["keys"]):
            k = tuple(k)
            counter[k] = counter.get(k, -1) + 1
            for a, v in zip(arrays, k):
                a.append(v)
            arrays[-1].append(case["idx"][i] if case.get("idx") else counter[k])
        index = pd.MultiIndex.from_arrays(arrays, names=list(levels) + ["cycle_number"])
    else:
        # `idx`: explicit labels, possibly repeated (pd.concat of recorded blocks, each numbered from 0)
        index = pd.Index(case["idx"] if case.get("idx") else range(len(rows)),
                         name="cycle_number" if case.get("named_axis") else None)
    return pd.DataFrame(data, index=index)


def bins_arg(b):
    t = b["t"]
    if t == "count":
        return int(b["n"])
    e = [float(x) for x in b["e"]]
    if t == "edges":
        return e
    if t == "array":
        return np.asarray(e)
    if t == "iv":
        return pd.IntervalIndex.from_breaks(e)
    if t == "ia":
        return pd.arrays.IntervalArray.from_breaks(e)
    raise ValueError(t)


def edges_of_index(ix):
    return [float(ix.left[0])] + [float(x) for x in ix.right]


def split_result(case, res, nbin_levels):
    """Per group key (sorted) the sub-series of a histogram result."""
    levels = case.get("levels") or []
    out = {}
    if not levels or case.get("axis") is None:
        out[()] = res
        return out
    for key in group_keys(case):
        sub = res.xs(key if len(key) > 1 else key[0], level=list(levels) if len(levels) > 1 else levels[0])
        out[key] = sub
    return out


def np_class(edges, v):
    """numpy's rule, naive: class i with e_i <= v < e_{i+1}; the last class also holds v = e_n."""
    n = len(edges) - 1
    for i in range(n):
        if edges[i] <= v < edges[i + 1]:
            return i
    if n >= 1 and v == edges[n] and edges[n - 1] <= v:
        return n - 1
    return None


# ------------------------------------------------------------------ generators
def dy(rng, lo=-8.0, hi=8.0, q=8):
    """A dyadic number k/q in [lo, hi]: sums, differences, halves and small products are exact in binary64."""
    return rng.randint(int(lo * q), int(hi * q)) / q


def gen_rows(rng, n, with_cycles, small=False):
    rows = []
    for _ in range(n):
        mode = rng.random()
        if small:
            fr, to = float(rng.randint(-2, 4)), float(rng.randint(-2, 4))
        elif mode < 0.15:
            fr = to = dy(rng)
        elif mode < 0.25:
            fr, to = dy(rng), 0.0
        else:
            fr, to = dy(rng), dy(rng)
        cyc = rng.choice([1.0, 2.0, 0.5, 3.0, 1e6, 0.0, 7.25]) if with_cycles else 1.0
        rows.append([fr, to, cyc])
    return rows


def gen_edges(rng, rows, two_d):
    """Edge lists that put values exactly on edges, irregular widths, a single class, a zero-width class."""
    vals = sorted({abs(r[0] - r[1]) for r in rows} | ({(r[0] + r[1]) / 2 for r in rows} if two_d else set()))
    style = rng.random()
    if style < 0.2:                                   # one class
        a = rng.choice(vals + [0.0, dy(rng)])
        return [a, a + rng.choice([0.5, 1.0, 4.0, 20.0])]
    k = rng.randint(2, 6)
    pool = vals + [dy(rng, -2, 16, 2) for _ in range(k)] + [0.0]
    e = sorted(set(rng.sample(pool, min(len(pool), k + 1))))
    if len(e) < 2:
        e = [e[0], e[0] + 1.0]
    if style > 0.93 and len(e) >= 2:                  # a zero-width class
        j = rng.randrange(len(e))
        e.insert(j, e[j])
    return e


def gen_levels(rng, n):
    style = rng.random()
    if style < 0.45 or n == 0:
        return None, None
    if style < 0.8:
        levels = ["element_id"]
        keys = [[rng.choice([10, 20, 30])] for _ in range(n)]
    else:
        levels = ["element_id", "node"]
        keys = [[rng.choice([10, 20]), rng.choice(["a", "b"])] for _ in range(n)]
    return levels, keys


def gen_idx(rng, n):
    """Cycle labels with repetitions: blocks that restart at 0 (pd.concat of recordings) or a few random labels."""
    if n < 2 or rng.random() < 0.55:
        return None
    if rng.random() < 0.6:
        k = rng.randint(1, max(1, n - 1))
        return [i % k for i in range(n)]
    return [rng.randint(0, max(1, n // 2)) for _ in range(n)]


class C14(Prop):
    ID = "C14"
    SOURCES = SOURCES
    LEAN_MODULES = ["Proofs.C14"]
    THEOREMS = ["PylifeVerif.C14." + t for t in (
        "collective_consistency", "R_fillna", "rangemean_roundtrip", "fromto_roundtrip", "fromto_roundtrip_id",
        "scale_equivariant", "shift_equivariant", "histogram_rm_consistency", "histogram_ft_consistency",
        "histogram_exactly_one_class", "histogram_partition", "histogram2d_partition", "range_hist_is_marginal",
        "rebin_conserves_total", "rebin_zero_width_class_lost", "rebin_same_binning_id", "rebin_compose_literal_false",
        "rebin_compose_conserves_total", "rebin_compose_of_refines", "rebin_compose_of_breaks_subset",
        "rebin2d_cell_is_product", "rebin2d_conserves_total", "rebin2d_by_level_name",
        "combine_sum_conserves", "rebin_nan_default_marks_unoccupied", "rebin_nan_default_conserves_total",
        "combine_sum_conserves_optional", "rebin_then_combine_conserves")]
    PARTIAL = {}
    RULE = ("case kinds: coll (rows from/to/cycles or range/mean; derived quantities; scale/shift by scalar or Series), "
            "hist (range_histogram / histogram / recorder histogram with edges, class count, IntervalIndex/IntervalArray, "
            "one class, zero-width class, values exactly on edges, extra index levels with axis=), lh (LoadHistogram "
            "range/mean and from/to matrices: mids, scale, shift), rebin (arbitrary source classes -> breaks / class "
            "count / single interval; twice), combine (sum).  All numbers dyadic so that + - x are exact; model lines "
            "are compared bit-exactly except class contents of rebin/combine (relative 1e-12, summation order).  "
            "non-trivial = at least one non-empty class / a derived quantity that is not zero; distinct by full case")
    ASSUMPTIONS = [
        "numpy's np.histogram / np.histogram2d / np.linspace and pandas' IntervalIndex (from_breaks, overlaps, mid), groupby and "
        "broadcasting of scale/shift operands are modelled by the bin rule [e_i, e_{i+1}) with the last class closed, "
        "k*step+start, l<r' & l'<r, 0.5*(l+r) and a per-row operand; the correspondence run is what ties these to the runtimes",
        "theorems are over the real numbers: rounding of class shares and weighted sums is not modelled (correspondence uses dyadic inputs; "
        "the oracle uses a relative tolerance of 1e-9 where a sum is re-associated)",
        "re-binning: source classes of zero width are outside the theorems' guard (the code silently drops their content); "
        "NaN contents are modelled as absent contents (Option; skipped by sums as pandas' groupby-sum / Series.sum do), nan_default=True as 'no occupied source class overlaps'; aggregations other than sum (min/max/mean) and the combination of two-level histograms are checked by the oracle only; an integer class count for a two-level histogram is not modelled; a two-level histogram is a list of cells with two interval levels (further non-interval levels are documented as unsupported by the code); LoadHistogram.scale with a negative factor is rejected by pandas (left > right)",
        "the pandas interval labels '(a, b]' of a histogram are labels only; class membership follows numpy's rule (a <= v < b, last class closed)",
    ]

    def __init__(self):
        self.stats = {"kinds": {}, "bins": {}, "errors": {}, "on_edge_values": 0, "out_of_range_rows": 0,
                      "rows_total": 0, "groups_max": 0, "with_cycles": 0, "from_gt_to": 0, "from_lt_to": 0, "from_eq_to": 0,
                      "single_class": 0, "zero_width_class": 0, "rebin_covered": 0, "rebin_not_covered": 0,
                      "rebin_refining": 0, "operand": {}, "repeated_index_labels": 0,
                      "repeated_index_labels_with_cycles": 0}
        self.exhaustive = False

    # -------------------------------------------------------------- generation
    def generate(self, rng, tier):
        thorough = tier != "quick"
        # exhaustive small scope: all collectives of <= 2 rows over a small alphabet x all edge lists over it
        alpha = [0.0, 1.0, 2.0, 3.0] if not thorough else [-1.0, 0.0, 1.0, 2.0, 3.0]
        edge_alpha = [0.0, 1.0, 2.0, 3.0]
        self.exhaustive = True
        self.stats["exhaustive_scope"] = (f"all collectives of 1..2 rows with from,to in {alpha} x all increasing edge lists "
                                          f"over {edge_alpha} (>= 2 edges) x range_histogram and histogram"
                                          + ("" if thorough else " (histogram: one-row collectives)"))
        rows1 = [[a, b, 1.0] for a in alpha for b in alpha]
        edge_lists = [list(c) for k in range(2, len(edge_alpha) + 1) for c in itertools.combinations(edge_alpha, k)]
        colls = [[r] for r in rows1] + [[r, s] for r in rows1 for s in rows1 if (r <= s)]
        for coll in colls:
            for e in edge_lists:
                # class membership is decided row by row: the quick tier runs the range/mean matrix on the one-row collectives only
                for which in (("range", "rm") if thorough or len(coll) == 1 else ("range",)):
                    yield {"kind": "hist", "which": which, "rows": coll, "bins": {"t": "edges", "e": e}, "exh": True}
        n = 500 if not thorough else 6000
        for _ in range(n):
            yield from self._random_case(rng)

    def _random_case(self, rng):
        kind = rng.choice(["coll", "coll", "hist", "hist", "hist", "hist", "lh", "rebin", "rebin", "rebin", "rebin2d", "rebin2d", "combine", "combine", "pipe", "pipe", "combine2d"])
        if kind == "coll":
            n = rng.choice([1, 2, 3, 5, 8])
            with_c = rng.random() < 0.5
            form = rng.choice(["ft", "ft", "rm"])
            rows = gen_rows(rng, n, with_c)
            if form == "rm":
                rows = [[abs(r[0]), r[1], r[2]] for r in rows]   # range >= 0, mean
            levels, keys = gen_levels(rng, n)
            case = {"kind": "coll", "form": form, "rows": rows, "cycles": with_c, "levels": levels, "keys": keys}
            idx = gen_idx(rng, n)
            if idx:
                case["idx"] = idx
            opk = rng.choice(["scalar", "scalar", "series_level", "series_new"]) if levels else rng.choice(["scalar", "scalar", "series_new"])
            if idx:
                opk = "scalar"     # Series operands on repeated labels are the broadcaster's business (C13), pandas refuses them
            case["op"] = rng.choice(["scale", "shift"])
            if opk == "scalar":
                case["operand"] = {"t": "scalar", "v": rng.choice([dy(rng, -4, 4, 4), 0.0, 1.0, -1.0, 2.5])}
            elif opk == "series_level":
                lv = rng.choice(levels)
                vals = sorted({k[levels.index(lv)] for k in keys}, key=str)
                case["operand"] = {"t": "series", "level": lv, "index": vals, "v": [dy(rng, -4, 4, 4) for _ in vals]}
            else:
                m = rng.randint(1, 3)
                case["operand"] = {"t": "series", "level": "other", "index": list(range(1, m + 1)), "v": [dy(rng, -4, 4, 4) for _ in range(m)]}
            yield case
        elif kind == "hist":
            n = rng.choice([1, 2, 3, 5, 8, 13, 30])
            with_c = rng.random() < 0.5
            rows = gen_rows(rng, n, with_c, small=rng.random() < 0.3)
            which = rng.choice(["range", "rm", "rm", "rec"])
            levels, keys = (None, None) if which == "rec" else gen_levels(rng, n)
            bt = rng.choice(["edges", "edges", "array", "count", "iv", "ia"])
            if which == "rec":
                src = [[r[0], 0.0, 1.0] for r in rows] + [[r[1], 0.0, 1.0] for r in rows]
                e = gen_edges(rng, src, False)
                if len(e) == 2:
                    e = [e[0], (e[0] + e[1]) / 2, e[1]]   # two scalars mean [nx, ny] for the recorder (documented numpy spec)
                bins = {"t": rng.choice(["edges", "array"]), "e": e} if bt != "count" else {"t": "count", "n": rng.choice([1, 2, 3, 5, 10])}
                rows = [[r[0], r[1], 1.0] for r in rows]
                with_c = False
            elif bt == "count":
                bins = {"t": "count", "n": rng.choice([1, 1, 2, 3, 5, 10])}
            else:
                bins = {"t": bt, "e": gen_edges(rng, rows, which == "rm")}
            case = {"kind": "hist", "which": which, "rows": rows, "cycles": with_c, "bins": bins,
                    "levels": levels, "keys": keys, "axis": "cycle_number" if levels else None}
            if not levels and rng.random() < 0.3:
                case["named_axis"] = True
            if which != "rec":
                idx = gen_idx(rng, n)
                if idx:
                    case["idx"] = idx
            yield case
        elif kind == "lh":
            n = rng.choice([1, 2, 4])
            t = rng.choice(["rm", "rm1", "ft"])
            cls = []
            for _ in range(n):
                a, b = sorted([dy(rng, 0, 16, 4), dy(rng, 0, 16, 4)]) if t != "ft" else sorted([dy(rng), dy(rng)])
                c, d = sorted([dy(rng), dy(rng)])
                cls.append([a, b, c, d])
            yield {"kind": "lh", "t": t, "classes": cls, "vals": [float(rng.randint(0, 50)) for _ in range(n)],
                   "f": rng.choice([dy(rng, 0, 4, 4), 0.0, 1.0, 2.0]), "d": dy(rng, -4, 4, 4),
                   "neg": rng.choice([None, None, -1.0, -0.5])}
        elif kind == "rebin":
            yield self._rebin_case(rng)
        elif kind == "rebin2d":
            yield self._rebin2d_case(rng)
        elif kind == "pipe":
            yield self._pipe_case(rng)
        elif kind == "combine2d":
            ax = sorted({dy(rng, 0, 8, 2) for _ in range(rng.randint(2, 3))} | {0.0, 8.0})
            ay = sorted({dy(rng, -4, 4, 2) for _ in range(rng.randint(2, 3))} | {-4.0, 4.0})
            ncell = (len(ax) - 1) * (len(ay) - 1)
            k = rng.choice([2, 2, 3])
            hists = [[(None if rng.random() < 0.3 else float(rng.randint(0, 80)) / 2) for _ in range(ncell)] for _ in range(k)]
            yield {"kind": "combine2d", "names": rng.choice([["range", "mean"], ["from", "to"]]), "ax": ax, "ay": ay, "hists": hists,
                   "reversed": [rng.random() < 0.25 for _ in range(k)]}
        else:
            k = rng.choice([1, 2, 3, 4])
            hists = []
            pool = [[dy(rng, -4, 4, 2), 0.0] for _ in range(4)]
            pool = [[p[0], p[0] + rng.choice([0.5, 1.0, 2.0])] for p in pool]
            with_nan = rng.random() < 0.5

            def val():
                return None if with_nan and rng.random() < 0.35 else float(rng.randint(0, 40)) / 4
            if rng.random() < 0.45:
                # all histograms on one identical index (e.g. after a common re-binning)
                m = rng.choice([1, 2, 3, 5])
                br = sorted({dy(rng, -4, 8, 2) for _ in range(m + 1)} | {-4.0, 8.0})
                cls = [[br[i], br[i + 1]] for i in range(len(br) - 1)]
                hists = [[[c[0], c[1], val()] for c in cls] for _ in range(max(k, 2))]
            else:
                for _ in range(k):
                    m = rng.choice([0, 1, 2, 3, 5])
                    h = []
                    for _ in range(m):
                        if rng.random() < 0.6:
                            l, r = rng.choice(pool)
                        else:
                            l = dy(rng, -4, 4, 2)
                            r = l + rng.choice([0.5, 1.0, 2.0])
                        h.append([l, r, val()])
                    hists.append(h)
            yield {"kind": "combine", "hists": hists}

    def _pipe_case(self, rng):
        """2-3 histograms with their own binnings -> one common (wider) binning, nan_default True/False -> combine."""
        k = rng.choice([2, 2, 3])
        parts = []
        for _ in range(k):
            lo = dy(rng, 0, 6, 2)
            m = rng.randint(1, 4)
            br = sorted({lo + rng.randint(0, 12) / 2 for _ in range(m)} | {lo, lo + rng.choice([1.0, 2.0, 4.0, 6.0])})
            parts.append([[br[i], br[i + 1], (None if rng.random() < 0.15 else float(rng.choice([0, 1, 2, 5, 8, 20, 50, 100])))]
                          for i in range(len(br) - 1)])
        lo = min(p[0][0] for p in parts)
        hi = max(p[-1][1] for p in parts)
        cover = rng.random() < 0.85
        a = lo - rng.choice([0.0, 0.0, 1.0]) if cover else lo + 0.5
        b = hi + rng.choice([0.0, 0.0, 1.5])
        n = rng.randint(1, 8)
        style = rng.random()
        if style < 0.5:
            target = [a + (b - a) * i / n for i in range(n + 1)]
        else:
            target = sorted({a + (b - a) * rng.randint(1, 31) / 32 for _ in range(n - 1)} | {a, b})
        return {"kind": "pipe", "parts": parts, "target": target, "nan_default": rng.random() < 0.7}

    def _rebin2d_case(self, rng):
        """Two interval levels; target as MultiIndex (levels in the histogram's order or swapped) or one IntervalIndex."""
        def breaks(lo, hi, m):
            b = sorted({lo + (hi - lo) * rng.randint(0, 16) / 16 for _ in range(m + 1)} | {lo, hi})
            return b
        names = rng.choice([["from", "to"], ["range", "mean"], ["to", "from"]])
        xlo = dy(rng, -4, 4, 2)
        xhi = xlo + rng.choice([1.0, 2.0, 8.0])
        if rng.random() < 0.35:
            ylo, yhi = xlo, xhi                       # rainflow matrix: both axes cover the same extent
        else:
            ylo = dy(rng, -20, 20, 2)
            yhi = ylo + rng.choice([0.5, 4.0, 10.0, 40.0])
        ax, ay = breaks(xlo, xhi, rng.randint(1, 3)), breaks(ylo, yhi, rng.randint(1, 3))
        ncell = (len(ax) - 1) * (len(ay) - 1)
        vals = [float(rng.choice([0, 1, 2, 3, 5, 10, 40])) for _ in range(ncell)]
        drop = sorted(rng.sample(range(ncell), rng.randint(0, ncell - 1))) if rng.random() < 0.25 else []
        tk = rng.choice(["same", "swapped", "swapped", "swapped", "plain", "identity", "identity_swapped"])
        case = {"kind": "rebin2d", "names": names, "ax": ax, "ay": ay, "vals": vals, "drop": drop}
        if tk in ("identity", "identity_swapped"):
            case["drop"] = []
            case["target"] = {"t": "multi", "order": "swapped" if tk.endswith("swapped") else "same", "bx": ax, "by": ay}
        elif tk == "plain":
            lo, hi = min(xlo, ylo) - rng.choice([0.0, 1.0]), max(xhi, yhi) + rng.choice([0.0, 1.0])
            case["target"] = {"t": "plain", "b": breaks(lo, hi, rng.randint(1, 4))}
        else:
            cover = rng.random() < 0.85
            def tb(lo, hi):
                a = lo - rng.choice([0.0, 0.0, 0.5]) if cover else lo + (hi - lo) / 4
                b = hi + rng.choice([0.0, 0.0, 2.0])
                return breaks(a, b, rng.randint(1, 4))
            case["target"] = {"t": "multi", "order": tk, "bx": tb(xlo, xhi), "by": tb(ylo, yhi)}
        return case

    def _rebin_case(self, rng):
        style = rng.choice(["breaks", "breaks", "arb"])
        if style == "breaks":
            m = rng.choice([1, 2, 3, 5, 8])
            br = sorted({dy(rng, -4, 12, 4) for _ in range(m + 1)})
            if len(br) < 2:
                br = [br[0], br[0] + 1.0]
            src = [[br[i], br[i + 1], float(rng.choice([0, 0, 1, 2, 5, 10, 40, 7]))] for i in range(len(br) - 1)]
        else:
            m = rng.choice([1, 2, 4, 6])
            src = []
            for _ in range(m):
                l = dy(rng, -4, 12, 4)
                src.append([l, l + rng.choice([0.25, 0.5, 1.0, 3.0, 6.5]), float(rng.choice([0, 1, 2, 5, 10, 40, 7]))])
        if style == "breaks" and len(src) > 1 and rng.random() < 0.25:
            rng.shuffle(src)          # the classes of a histogram need not be stored in increasing order
            style = "arb"
        lo = min(s[0] for s in src)
        hi = max(s[1] for s in src)
        tk = rng.choice(["breaks", "breaks", "breaks", "count", "single", "same", "refine"] + (["count", "count"] if style == "arb" else []))
        case = {"kind": "rebin", "src": src, "src_style": style}
        if tk == "count":
            case["target"] = {"t": "count", "n": rng.choice([1, 1, 2, 3, 7])}
        elif tk == "single":
            case["target"] = {"t": "breaks", "b": [lo - rng.choice([0.0, 1.0]), hi + rng.choice([0.0, 2.5])]}
        elif tk == "same" and style == "breaks":
            case["target"] = {"t": "breaks", "b": [s[0] for s in src] + [src[-1][1]]}
        else:
            cover = rng.random() < 0.8
            k = rng.randint(1, 7)
            a = lo - rng.choice([0.0, 0.0, 0.5, 3.0]) if cover else lo + rng.choice([0.25, 1.0])
            b = hi + rng.choice([0.0, 0.0, 0.5, 3.0]) if cover else hi - rng.choice([0.0, 0.25])
            if b <= a:
                b = a + 1.0
            inner = sorted({a + (b - a) * rng.randint(1, 31) / 32 for _ in range(k - 1)})
            if tk == "refine" and style == "breaks":   # target keeps every source break
                inner = sorted(set(inner) | {s[0] for s in src} | {src[-1][1]})
                inner = [x for x in inner if a < x < b]
            case["target"] = {"t": "breaks", "b": [a] + inner + [b]}
        # second target for the composition A -> B -> C
        if case["target"]["t"] == "breaks" and rng.random() < 0.7:
            tb = case["target"]["b"]
            k = rng.randint(1, 5)
            a2, b2 = tb[0] - rng.choice([0.0, 1.0]), tb[-1] + rng.choice([0.0, 1.0])
            inner = sorted({a2 + (b2 - a2) * rng.randint(1, 15) / 16 for _ in range(k - 1)})
            case["target2"] = [a2] + inner + [b2]
        return case

    # -------------------------------------------------------------- model side
    def model_lines(self, case):
        k = case["kind"]
        if k == "coll":
            lines = []
            rows = case["rows"]
            if case["form"] == "rm":
                lines += [f"c14 rm {f2h(r[0])} {f2h(r[1])}" for r in rows]
                rows = [[r[1] - r[0] / 2.0, r[1] + r[0] / 2.0, r[2]] for r in rows]
            lines += [f"c14 derive {f2h(r[0])} {f2h(r[1])}" for r in rows]
            for r, f in self._expanded_operands(case, rows):
                lines.append(f"c14 {case['op']} {f2h(f)} {f2h(r[0])} {f2h(r[1])}")
            return lines
        if k == "hist":
            lines = []
            b = case["bins"]
            for key in group_keys(case) if case.get("axis") else [()]:
                rows = rows_of_group(case, key) if case.get("axis") else case["rows"]
                flat = " ".join(f"{f2h(r[0])} {f2h(r[1])} {f2h(r[2] if case.get('cycles') else 1.0)}" for r in rows)
                if b["t"] == "count":
                    op = {"range": "rhistn", "rm": "hist2n", "rec": "hist2n"}[case["which"]]
                    if case["which"] == "rec":
                        return []      # integer class counts of the recorder: oracle only (edges from from/to, not range/mean)
                    lines.append(f"c14 {op} {b['n']} {flat}")
                else:
                    op = {"range": "rhist", "rm": "hist2", "rec": "fthist"}[case["which"]]
                    lines.append(f"c14 {op} {len(b['e'])} {hx(b['e'])} {flat}")
            return lines
        if k == "lh":
            op = "ftclass" if case["t"] == "ft" else "rmclass"
            out = []
            for c in case["classes"]:
                c = list(c)
                if case["t"] == "rm1":
                    out.append(f"c14 r1class {hx(c[:2])} {f2h(case['f'])} {f2h(case['d'])}")
                    continue
                out.append(f"c14 {op} {hx(c)} {f2h(case['f'])} {f2h(case['d'])}")
            return out
        if k == "rebin":
            flat = " ".join(hx(s) for s in case["src"])
            t = case["target"]
            lines = []
            if t["t"] == "count":
                lines.append(f"c14 rebinn {t['n']} {flat}")
            else:
                lines.append(f"c14 rebin {len(t['b'])} {hx(t['b'])} {flat}")
                if case.get("target2"):
                    c = case["target2"]
                    lines.append(f"c14 rebin2 {len(t['b'])} {hx(t['b'])} {len(c)} {hx(c)} {flat}")
            return lines
        if k == "rebin2d":
            n1, n2 = case["names"]
            t = case["target"]
            if t["t"] == "plain":
                tl = [(n1, t["b"]), (n2, t["b"])]
            else:
                tl = [(n1, t["bx"]), (n2, t["by"])]
                if t["order"] == "swapped":
                    tl.reverse()
            cells = " ".join(hx(c) for c in self._cells(case))
            return [f"c14 rebin2d {n1} {n2} " + " ".join(f"{nm} {len(b)} {hx(b)}" for nm, b in tl) + " " + cells]
        if k == "pipe":
            hs = case["parts"]
            t = case["target"]
            return [f"c14 pipe {1 if case['nan_default'] else 0} {len(t)} {hx(t)} {len(hs)} "
                    f"{' '.join(str(len(h)) for h in hs)} {' '.join(hx(b) for h in hs for b in h)}"]
        if k == "combine2d":
            return []
        if k == "combine":
            hs = case["hists"]
            return [f"c14 combine {len(hs)} {' '.join(str(len(h)) for h in hs)} {' '.join(hx(b) for h in hs for b in h)}".rstrip()]
        return []

    @staticmethod
    def _cells(case):
        ax, ay = case["ax"], case["ay"]
        ny = len(ay) - 1
        out = []
        for i in range(len(ax) - 1):
            for j in range(ny):
                k = i * ny + j
                if k not in case["drop"]:
                    out.append([ax[i], ax[i + 1], ay[j], ay[j + 1], case["vals"][k]])
        return out

    @staticmethod
    def _hist2(case):
        cells = C14._cells(case)
        ix = pd.MultiIndex.from_arrays([pd.IntervalIndex.from_arrays([c[0] for c in cells], [c[1] for c in cells]),
                                        pd.IntervalIndex.from_arrays([c[2] for c in cells], [c[3] for c in cells])],
                                       names=case["names"])
        return pd.Series([c[4] for c in cells], index=ix, dtype=float)

    @staticmethod
    def _target2(case, order=None):
        t = case["target"]
        if t["t"] == "plain":
            return pd.IntervalIndex.from_breaks(t["b"]), t["b"], t["b"]
        n1, n2 = case["names"]
        lv = [(n1, pd.IntervalIndex.from_breaks(t["bx"])), (n2, pd.IntervalIndex.from_breaks(t["by"]))]
        if (order or t["order"]) == "swapped":
            lv.reverse()
        return pd.MultiIndex.from_product([l[1] for l in lv], names=[l[0] for l in lv]), t["bx"], t["by"]

    @staticmethod
    def _matrix2(case, res, bx, by):
        """Row-major contents of the result for the requested classes; None if the result has other classes."""
        n1, n2 = case["names"]
        if list(res.index.names) != [n1, n2]:
            return None
        a, b = res.index.get_level_values(n1), res.index.get_level_values(n2)
        got = {}
        for xl, xr, yl, yr, v in zip(a.left, a.right, b.left, b.right, res.to_numpy(dtype=float)):
            key = (float(xl), float(xr), float(yl), float(yr))
            if key in got:
                return None
            got[key] = float(v)
        want = [(bx[i], bx[i + 1], by[j], by[j + 1]) for i in range(len(bx) - 1) for j in range(len(by) - 1)]
        if len(got) != len(want) or any(k not in got for k in want):
            return None
        return [got[k] for k in want]

    def _expanded_operands(self, case, rows):
        """(row, factor) pairs in the order the real result has them (row-major: row, then the operand's own level)."""
        op = case["operand"]
        if op["t"] == "scalar":
            return [(r, op["v"]) for r in rows]
        if op["level"] == "other":
            return [(r, v) for r in rows for v in op["v"]]
        lv = case["levels"].index(op["level"])
        table = dict(zip(op["index"], op["v"]))
        return [(r, table[k[lv]]) for r, k in zip(rows, case["keys"])]

    # -------------------------------------------------------------- implementation side
    def impl_lines(self, case):
        mods()
        with warnings.catch_warnings():
            warnings.simplefilter("ignore")
            return self._impl_lines(case)

    def _count(self, d, k):
        self.stats[d][k] = self.stats[d].get(k, 0) + 1

    def _impl_lines(self, case):
        m = mods()
        k = case["kind"]
        self._count("kinds", k)
        if k in ("hist", "coll") and case.get("idx") and len(set(case["idx"])) < len(case["idx"]):
            self.stats["repeated_index_labels"] += 1
            if case.get("cycles"):
                self.stats["repeated_index_labels_with_cycles"] += 1
        if k == "coll":
            df = make_frame(case)
            lc = df.load_collective
            lines = []
            if case["form"] == "rm":
                obj = lc.to_pandas()
                lines += [hx([a, b]) for a, b in zip(obj["from"], obj["to"])]
            cols = [lc.amplitude, lc.meanstress, lc.upper, lc.lower, lc.R]
            lines += [hx(vals) for vals in zip(*[c.to_numpy(dtype=float) for c in cols])]
            for r in case["rows"]:
                self.stats["rows_total"] += 1
            if case["form"] != "rm":
                for r in case["rows"]:
                    key = "from_gt_to" if r[0] > r[1] else "from_lt_to" if r[0] < r[1] else "from_eq_to"
                    self.stats[key] += 1
            if case.get("cycles"):
                self.stats["with_cycles"] += 1
            res = self._apply_operand(case, lc).to_pandas()
            self._count("operand", case["operand"]["t"] + ":" + str(case["operand"].get("level", "")))
            lines += [hx([a, b]) for a, b in zip(res["from"], res["to"])]
            return lines
        if k == "hist":
            return self._impl_hist(case)
        if k == "lh":
            lines = []
            ser = self._lh_series(case)
            lh = ser.load_collective

            def q(x):
                return [hx(v) for v in zip(x.amplitude.to_numpy(dtype=float), np.asarray(x.meanstress, dtype=float),
                                           x.upper.to_numpy(dtype=float), x.lower.to_numpy(dtype=float))]
            a, b, c = q(lh), q(lh.scale(case["f"])), q(lh.shift(case["d"]))
            return [f"{x};{y};{z}" for x, y, z in zip(a, b, c)]
        if k == "rebin":
            src = case["src"]
            h = pd.Series([s[2] for s in src], index=pd.IntervalIndex.from_arrays([s[0] for s in src], [s[1] for s in src]))
            t = case["target"]
            lines = []
            covered = True
            if t["t"] == "count":
                try:
                    r = m["rebin"](h, int(t["n"]))
                    lines.append(hx(edges_of_index(r.index)) + ";" + hx(r.to_numpy(dtype=float)))
                except Exception as e:
                    self._count("errors", "rebin:" + type(e).__name__)
                    lines.append(err(e))
            else:
                covered = t["b"][0] <= min(s[0] for s in src) and t["b"][-1] >= max(s[1] for s in src)
                try:
                    r = m["rebin"](h, pd.IntervalIndex.from_breaks(t["b"]))
                    lines.append(hx(r.to_numpy(dtype=float)))
                except Exception as e:
                    self._count("errors", "rebin:" + type(e).__name__)
                    r = None
                    lines.append(err(e))
                if case.get("target2"):
                    try:
                        r2 = m["rebin"](r, pd.IntervalIndex.from_breaks(case["target2"]))
                        lines.append(hx(r2.to_numpy(dtype=float)))
                    except Exception as e:
                        lines.append(err(e))
            self.stats["rebin_covered" if covered else "rebin_not_covered"] += 1
            return lines
        if k == "rebin2d":
            target, bx, by = self._target2(case)
            self._count("bins", "rebin2d:" + case["target"]["t"] + ":" + case["target"].get("order", ""))
            try:
                r = m["rebin"](self._hist2(case), target)
            except Exception as e:
                self._count("errors", "rebin2d:" + type(e).__name__)
                return [err(e)]
            mat = self._matrix2(case, r, bx, by)
            return [hx(mat)] if mat is not None else ["err:classes"]
        if k == "combine2d":
            return []
        if k == "pipe":
            try:
                parts, comb = self._run_pipe(case)
            except Exception as e:
                self._count("errors", "pipe:" + type(e).__name__)
                return [err(e)]
            self._count("bins", "pipe:nan_default=" + str(case["nan_default"]))
            return [";".join(hx(p.to_numpy(dtype=float)) for p in parts) + ";" +
                    " ".join(hx([iv.left, iv.right, v]) for iv, v in zip(comb.index, comb.to_numpy(dtype=float)))]
        if k == "combine":
            if any(b[2] is None for h in case["hists"] for b in h):
                self._count("bins", "combine:with-nan")
            hs = [pd.Series([nn(b[2]) for b in h], index=pd.IntervalIndex.from_arrays([b[0] for b in h], [b[1] for b in h]), dtype=float)
                  for h in case["hists"]]
            try:
                r = m["combine"](hs, "sum")
                if len(r) == 0:
                    return [""]
                return [" ".join(hx([iv.left, iv.right, v]) for iv, v in zip(r.index, r.to_numpy(dtype=float)))]
            except Exception as e:
                self._count("errors", "combine:" + type(e).__name__)
                return [err(e)]
        return []

    @staticmethod
    def _series1(h):
        return pd.Series([nn(b[2]) for b in h], index=pd.IntervalIndex.from_arrays([b[0] for b in h], [b[1] for b in h]), dtype=float)

    def _run_pipe(self, case):
        m = mods()
        target = pd.IntervalIndex.from_breaks(case["target"])
        parts = [m["rebin"](self._series1(h), target, nan_default=bool(case["nan_default"])) for h in case["parts"]]
        return parts, m["combine"](parts, "sum")

    def _apply_operand(self, case, lc):
        op = case["operand"]
        if op["t"] == "scalar":
            arg = op["v"]
        else:
            arg = pd.Series(op["v"], index=pd.Index(op["index"], name=op["level"]), dtype=float)
        return lc.scale(arg) if case["op"] == "scale" else lc.shift(arg)

    def _lh_series(self, case):
        cls = case["classes"]
        if case["t"] == "ft":
            names = ["from", "to"]
        else:
            names = ["range", "mean"]
        a = pd.IntervalIndex.from_arrays([c[0] for c in cls], [c[1] for c in cls])
        b = pd.IntervalIndex.from_arrays([c[2] for c in cls], [c[3] for c in cls])
        if case["t"] == "rm1":
            a.name = "range"
            return pd.Series(case["vals"], index=a, name="cycles", dtype=float)
        return pd.Series(case["vals"], index=pd.MultiIndex.from_arrays([a, b], names=names), name="cycles", dtype=float)

    def _hist_result(self, case):
        """Call the real histogram function; returns the pandas Series."""
        bins = bins_arg(case["bins"])
        if case["which"] == "rec":
            rec = mods()["rec"]()
            rec.record_values(np.asarray([r[0] for r in case["rows"]], dtype=float), np.asarray([r[1] for r in case["rows"]], dtype=float))
            return rec.histogram(bins)
        lc = make_frame(case).load_collective
        fn = lc.range_histogram if case["which"] == "range" else lc.histogram
        if case.get("axis"):
            return fn(bins, case["axis"]).to_pandas()
        return fn(bins).to_pandas()

    def _impl_hist(self, case):
        b = case["bins"]
        self._count("bins", case["which"] + ":" + b["t"] + (":axis" if case.get("axis") else ""))
        if b["t"] != "count":
            if len(b["e"]) == 2:
                self.stats["single_class"] += 1
            if any(x == y for x, y in zip(b["e"], b["e"][1:])):
                self.stats["zero_width_class"] += 1
            es = set(b["e"])
            for r in case["rows"]:
                rg = abs(r[0] - r[1])
                if rg in es or (case["which"] == "rm" and (r[0] + r[1]) / 2 in es):
                    self.stats["on_edge_values"] += 1
                if not (b["e"][0] <= rg <= b["e"][-1]):
                    self.stats["out_of_range_rows"] += 1
        if case["which"] == "rec" and b["t"] == "count":
            return []
        groups = group_keys(case) if case.get("axis") else [()]
        self.stats["groups_max"] = max(self.stats["groups_max"], len(groups))
        self.stats["rows_total"] += len(case["rows"])
        if case.get("cycles"):
            self.stats["with_cycles"] += 1
        try:
            res = self._hist_result(case)
        except Exception as e:
            self._count("errors", "hist:" + type(e).__name__)
            return [err(e)] * len(groups)
        parts = split_result(case, res, 1 if case["which"] == "range" else 2)
        lines = []
        for key in groups:
            sub = parts[key]
            vals = hx(sub.to_numpy(dtype=float))
            if b["t"] == "count":
                if case["which"] == "range":
                    lines.append(hx(edges_of_index(sub.index)) + ";" + vals)
                else:
                    n = int(b["n"])
                    er = edges_of_index(sub.index.get_level_values(0)[::n])
                    em = edges_of_index(sub.index.get_level_values(1)[:n])
                    lines.append(hx(er) + ";" + hx(em) + ";" + vals)
            else:
                lines.append(vals)
        return lines

    # -------------------------------------------------------------- comparison
    def compare(self, case, model_out, impl_out):
        if len(model_out) != len(impl_out):
            return f"length {len(model_out)} vs {len(impl_out)}"
        tol = case["kind"] in ("rebin", "rebin2d", "combine", "pipe")
        for i, (a, b) in enumerate(zip(model_out, impl_out)):
            if a == b:
                continue
            if b.startswith("err:") or a == "bad-op":
                return f"line {i}: model={a[:200]!r} impl={b[:200]!r}"
            ta, tb = a.replace(";", " ; ").split(), b.replace(";", " ; ").split()
            if len(ta) != len(tb):
                return f"line {i}: {len(ta)} vs {len(tb)} tokens: model={a[:200]!r} impl={b[:200]!r}"
            scale = max([abs(h2f(t)) for t in tb if t != ";" and math.isfinite(h2f(t))] + [1.0])
            for x, y in zip(ta, tb):
                if x == y:
                    continue
                if x == ";" or y == ";":
                    return f"line {i}: structure differs"
                fx, fy = h2f(x), h2f(y)
                if fx == fy or (fx != fx and fy != fy):     # -0.0 == 0.0
                    continue
                if tol and abs(fx - fy) <= 1e-12 * scale:
                    continue
                return f"line {i}: model={fx!r} impl={fy!r} (model line {a[:120]!r} impl line {b[:120]!r})"
        return None

    def nontrivial(self, case, model_out):
        if not model_out:
            return None
        zero = f2h(0.0)
        toks = [t for l in model_out for t in l.replace(";", " ").split()]
        if all(t == zero for t in toks):
            return None
        return json.dumps(case, sort_keys=True)

    # -------------------------------------------------------------- oracle
    def oracle(self, case):
        mods()      # registers the accessors (the oracle may run without a preceding correspondence pass)
        with warnings.catch_warnings():
            warnings.simplefilter("ignore")
            return getattr(self, "_oracle_" + case["kind"])(case)

    def _oracle_coll(self, case):
        df = make_frame(case)
        lc = df.load_collective
        amp, mean, up, lo, R, cyc = (lc.amplitude.to_numpy(float), lc.meanstress.to_numpy(float), lc.upper.to_numpy(float),
                                     lc.lower.to_numpy(float), lc.R.to_numpy(float), lc.cycles.to_numpy(float))
        n = len(case["rows"])
        for i in range(n):
            if up[i] - lo[i] != 2 * amp[i]:
                return (f"row {i}: upper - lower = {up[i] - lo[i]} != 2*amplitude = {2 * amp[i]}", "consistency")
            if (up[i] + lo[i]) / 2 != mean[i]:
                return (f"row {i}: (upper + lower)/2 = {(up[i] + lo[i]) / 2} != mean = {mean[i]}", "consistency")
            want = 0.0 if (up[i] == 0 and lo[i] == 0) else (lo[i] / up[i] if up[i] != 0 else math.copysign(math.inf, lo[i]) * (1 if math.copysign(1, up[i]) > 0 else -1))
            if not (R[i] == want):
                return (f"row {i}: R = {R[i]} != lower/upper = {want}", "consistency")
            want_c = case["rows"][i][2] if case.get("cycles") else 1.0
            if cyc[i] != want_c:
                return (f"row {i}: cycles = {cyc[i]} != {want_c}", "cycles")
        if case["form"] == "rm":
            for i, r in enumerate(case["rows"]):
                if 2 * amp[i] != r[0] or mean[i] != r[1]:
                    return (f"row {i}: range/mean ({r[0]}, {r[1]}) became range {2 * amp[i]} mean {mean[i]}", "roundtrip")
        else:
            # from/to -> range/mean -> from/to gives the same loops (lower value first)
            back = pd.DataFrame({"range": 2 * amp, "mean": mean}, index=df.index).load_collective
            if list(back.lower.to_numpy(float)) != list(lo) or list(back.upper.to_numpy(float)) != list(up):
                return ("from/to -> range/mean -> from/to changes upper/lower", "roundtrip")
        # scale / shift
        res = self._apply_operand(case, lc)
        pairs = self._expanded_operands(case, list(zip(amp, mean, up, lo, cyc)))
        a2, m2, u2, l2, c2 = (res.amplitude.to_numpy(float), res.meanstress.to_numpy(float), res.upper.to_numpy(float),
                              res.lower.to_numpy(float), res.cycles.to_numpy(float))
        if len(pairs) != len(a2):
            return (f"{case['op']}: {len(a2)} rows, expected {len(pairs)}", "equivariance")
        for i, ((a, mm, u, l, c), f) in enumerate(pairs):
            if case["op"] == "scale":
                want = (abs(f) * a, f * mm, f * u if f >= 0 else f * l, f * l if f >= 0 else f * u)
            else:
                want = (a, mm + f, u + f, l + f)
            got = (a2[i], m2[i], u2[i], l2[i])
            if got != want:
                return (f"{case['op']} by {f}: row {i} (amplitude, mean, upper, lower) = {got}, expected {want}", "equivariance")
            if c2[i] != c:
                return (f"{case['op']}: cycles of row {i} changed from {c} to {c2[i]}", "cycles")
        return None

    def _oracle_hist(self, case):
        b = case["bins"]
        which = case["which"]
        try:
            res = self._hist_result(case)
        except Exception as e:
            if b["t"] != "count" and len(b["e"]) == 2 and which == "rm":
                return (f"histogram with the single class {b['e']} raises {type(e).__name__}: {e}", "histogram-two-edges")
            if b["t"] == "count" and case.get("axis") and which == "rm":
                return (f"histogram(bins={b['n']}, axis=...) raises {type(e).__name__}: {e}", "histogram-count-axis")
            return (f"histogram raises {type(e).__name__}: {e}", "histogram-error")
        groups = group_keys(case) if case.get("axis") else [()]
        parts = split_result(case, res, 1 if which == "range" else 2)
        for key in groups:
            rows = rows_of_group(case, key) if case.get("axis") else case["rows"]
            w = [r[2] if case.get("cycles") else 1.0 for r in rows]
            sub = parts[key]
            counts = sub.to_numpy(dtype=float)
            if which == "range":
                xs = [abs(r[0] - r[1]) for r in rows]
                edges = edges_of_index(sub.index) if b["t"] == "count" else [float(x) for x in b["e"]]
                if len(counts) != len(edges) - 1:
                    return (f"group {key}: {len(counts)} classes for {len(edges)} edges", "histogram-shape")
                want = [0.0] * (len(edges) - 1)
                for x, wi in zip(xs, w):
                    c = np_class(edges, x)
                    if c is not None:
                        want[c] += wi
                inrange = sum(wi for x, wi in zip(xs, w) if edges[0] <= x <= edges[-1])
                if b["t"] == "count" and (edges[0] > min(xs) or edges[-1] < max(xs)):
                    return (f"group {key}: automatic edges {edges} do not cover the ranges", "histogram-auto-edges")
            else:
                if which == "rm":
                    xs = [abs(r[0] - r[1]) for r in rows]
                    ys = [(r[0] + r[1]) / 2 for r in rows]
                else:
                    xs = [r[0] for r in rows]
                    ys = [r[1] for r in rows]
                if b["t"] == "count":
                    n = int(b["n"])
                    if len(counts) != n * n:
                        return (f"group {key}: {len(counts)} classes for bins={n}", "histogram-shape")
                    ex = edges_of_index(sub.index.get_level_values(0)[::n])
                    ey = edges_of_index(sub.index.get_level_values(1)[:n])
                    if ex[0] > min(xs) or ex[-1] < max(xs) or ey[0] > min(ys) or ey[-1] < max(ys):
                        return (f"group {key}: automatic edges do not cover the data", "histogram-auto-edges")
                else:
                    ex = ey = [float(x) for x in b["e"]]
                nx, ny = len(ex) - 1, len(ey) - 1
                if len(counts) != nx * ny:
                    cls = "histogram-two-edges" if len(ex) == 2 else "histogram-shape"
                    return (f"group {key}: {len(counts)} classes instead of {nx}x{ny} for edges {ex}", cls)
                want = [0.0] * (nx * ny)
                for x, y, wi in zip(xs, ys, w):
                    cx, cy = np_class(ex, x), np_class(ey, y)
                    if cx is not None and cy is not None:
                        want[cx * ny + cy] += wi
                inrange = sum(wi for x, y, wi in zip(xs, ys, w) if ex[0] <= x <= ex[-1] and ey[0] <= y <= ey[-1])
            tot = float(np.sum(counts))
            ignores = False
            if case.get("cycles") and any(wi != 1.0 for wi in w):
                # would the result be explained by counting rows instead of cycles?
                one = [0.0] * len(want)
                if which == "range":
                    for x in xs:
                        c = np_class(edges, x)
                        if c is not None:
                            one[c] += 1.0
                else:
                    for x, y in zip(xs, ys):
                        cx, cy = np_class(ex, x), np_class(ey, y)
                        if cx is not None and cy is not None:
                            one[cx * ny + cy] += 1.0
                ignores = [float(g) for g in counts] == one and one != want
            if not core.close(tot, inrange, rtol=1e-9):
                cls = "histogram-ignores-cycles" if ignores else "histogram-total"
                return (f"group {key}: class contents sum to {tot}, cycles inside the covered range: {inrange}", cls)
            for i, (g, wv) in enumerate(zip(counts, want)):
                if not core.close(float(g), wv, rtol=1e-9):
                    cls = "histogram-ignores-cycles" if ignores else "histogram-class"
                    return (f"group {key}: class {i} holds {g}, numpy's rule on the rows gives {wv}", cls)
        # marginal: range histogram = sum over the mean classes when every mean is covered
        if which == "rm" and b["t"] != "count":
            e = [float(x) for x in b["e"]]
            if all(e[0] <= (r[0] + r[1]) / 2 <= e[-1] for r in case["rows"]):
                lc = make_frame(case).load_collective
                bins = bins_arg(b)
                try:
                    rh = (lc.range_histogram(bins, case["axis"]) if case.get("axis") else lc.range_histogram(bins)).to_pandas()
                except Exception as ex_:
                    return (f"range_histogram raises {type(ex_).__name__}: {ex_}", "histogram-error")
                rparts = split_result(case, rh, 1)
                for key in groups:
                    m2 = parts[key].to_numpy(dtype=float).reshape(len(e) - 1, len(e) - 1).sum(axis=1)
                    r1 = rparts[key].to_numpy(dtype=float)
                    if len(r1) != len(m2) or any(not core.close(float(x), float(y), rtol=1e-9) for x, y in zip(r1, m2)):
                        return (f"group {key}: range histogram {list(r1)} is not the marginal {list(m2)} of the range/mean histogram", "marginal")
        return None

    def _oracle_lh(self, case):
        ser = self._lh_series(case)
        lh = ser.load_collective

        def q(x):
            return (x.amplitude.to_numpy(float), np.asarray(x.meanstress, dtype=float), x.upper.to_numpy(float),
                    x.lower.to_numpy(float), x.R.to_numpy(float), x.cycles.to_numpy(float))
        a, mm, u, l, R, c = q(lh)
        for i in range(len(a)):
            if u[i] - l[i] != 2 * a[i] or (u[i] + l[i]) / 2 != mm[i]:
                return (f"class {i}: upper {u[i]} lower {l[i]} amplitude {a[i]} mean {mm[i]} inconsistent", "consistency")
            want = 0.0 if (u[i] == 0 and l[i] == 0) else (l[i] / u[i] if u[i] != 0 else None)
            if want is not None and R[i] != want:
                return (f"class {i}: R = {R[i]} != lower/upper = {want}", "consistency")
            if c[i] != case["vals"][i]:
                return (f"class {i}: cycles {c[i]} != content {case['vals'][i]}", "cycles")
        f, d = case["f"], case["d"]
        a2, m2, u2, l2, _, c2 = q(lh.scale(f))
        a3, m3, u3, l3, _, c3 = q(lh.shift(d))
        for i in range(len(a)):
            if (a2[i], m2[i]) != (f * a[i], f * mm[i]) or c2[i] != c[i]:
                return (f"scale({f}): class {i} amplitude/mean/cycles ({a2[i]}, {m2[i]}, {c2[i]}) expected ({f * a[i]}, {f * mm[i]}, {c[i]})", "equivariance")
            if (a3[i], m3[i]) != (a[i], (mm[i] + d) if case["t"] != "rm1" else mm[i]) or c3[i] != c[i]:
                return (f"shift({d}): class {i} amplitude/mean/cycles ({a3[i]}, {m3[i]}, {c3[i]}) unexpected", "equivariance")
        if case.get("neg") is not None and any(cl[0] != cl[1] or cl[2] != cl[3] for cl in case["classes"]):
            try:
                r = lh.scale(case["neg"])
                # if pandas accepts it the classes must still be consistent
                if any(iv.left > iv.right for lv in r.to_pandas().index.levels for iv in lv):
                    return ("scale by a negative factor produced inverted classes", "equivariance")
            except ValueError:
                self._count("errors", "lh-negative-scale:ValueError")
        return None

    def _oracle_rebin(self, case):
        m = mods()
        src = case["src"]
        h = pd.Series([s[2] for s in src], index=pd.IntervalIndex.from_arrays([s[0] for s in src], [s[1] for s in src]), dtype=float)
        total = float(sum(s[2] for s in src))
        t = case["target"]
        lo, hi = min(s[0] for s in src), max(s[1] for s in src)
        if t["t"] == "count":
            try:
                r = m["rebin"](h, int(t["n"]))
            except Exception as e:
                return (f"rebin_histogram(h, {t['n']}) raises {type(e).__name__}: {e}", "rebin-error")
            if len(r) != t["n"]:
                return (f"rebin_histogram(h, {t['n']}) has {len(r)} classes", "rebin-shape")
            if not core.close(float(r.sum()), total, rtol=1e-9):
                return (f"rebin to {t['n']} classes: total {float(r.sum())} != {total}", "rebin-total")
            return None
        b = t["b"]
        try:
            r = m["rebin"](h, pd.IntervalIndex.from_breaks(b))
        except Exception as e:
            cls = "rebin-single-interval" if len(b) == 2 else "rebin-error"
            return (f"rebin_histogram to breaks {b} raises {type(e).__name__}: {e}", cls)
        covered = b[0] <= lo and b[-1] >= hi
        if covered and not core.close(float(r.sum()), total, rtol=1e-9):
            return (f"rebin to {b}: total {float(r.sum())} != {total}", "rebin-total")
        if not covered and float(r.sum()) > total * (1 + 1e-9) + 1e-12:
            return (f"rebin to a non-covering binning {b} created cycles: {float(r.sum())} > {total}", "rebin-total")
        if case["src_style"] == "breaks" and b == [s[0] for s in src] + [src[-1][1]]:
            if any(not core.close(float(x), float(y), rtol=1e-12) for x, y in zip(r.to_numpy(float), [s[2] for s in src])):
                return (f"rebin to the same binning changed the contents: {list(r)}", "rebin-identity")
        if case.get("target2"):
            c = case["target2"]
            try:
                r2 = m["rebin"](r, pd.IntervalIndex.from_breaks(c))
            except Exception as e:
                cls = "rebin-single-interval" if len(c) == 2 else "rebin-error"
                return (f"rebin_histogram to breaks {c} raises {type(e).__name__}: {e}", cls)
            cov2 = covered and c[0] <= b[0] and c[-1] >= b[-1]
            if cov2 and not core.close(float(r2.sum()), total, rtol=1e-9):
                return (f"rebin {b} then {c}: total {float(r2.sum())} != {total}", "rebin-total")
            refines = case["src_style"] == "breaks" and covered and all(s[0] in b for s in src) and src[-1][1] in b
            if refines:
                self.stats["rebin_refining"] += 1
                try:
                    d = m["rebin"](h, pd.IntervalIndex.from_breaks(c))
                except Exception as e:
                    return (f"rebin_histogram to breaks {c} raises {type(e).__name__}: {e}", "rebin-error")
                sc = max(total, 1.0)
                if any(abs(float(x) - float(y)) > 1e-9 * sc for x, y in zip(r2.to_numpy(float), d.to_numpy(float))):
                    return (f"A->B->C {list(r2)} != A->C {list(d)} although B={b} refines A", "rebin-compose")
        return None

    def _oracle_rebin2d(self, case):
        m = mods()
        h = self._hist2(case)
        total = float(h.sum())
        n1, n2 = case["names"]
        res = {}
        for order in (["same", "swapped"] if case["target"]["t"] == "multi" else ["plain"]):
            target, bx, by = self._target2(case, order)
            try:
                r = m["rebin"](h, target)
            except Exception as e:
                return (f"two-level rebin_histogram ({order} level order) raises {type(e).__name__}: {e}", "rebin2d-error")
            mat = self._matrix2(case, r, bx, by)
            if mat is None:
                return (f"two-level re-bin ({order} level order of the target): the result does not have the requested classes "
                        f"{n1}: {bx}, {n2}: {by} (got levels {list(r.index.names)}, {len(r)} cells)", "rebin2d-classes")
            covered = bx[0] <= case["ax"][0] and bx[-1] >= case["ax"][-1] and by[0] <= case["ay"][0] and by[-1] >= case["ay"][-1]
            if covered and not core.close(sum(mat), total, rtol=1e-9):
                return (f"two-level re-bin ({order} level order of the target) to a covering binning: total {sum(mat)} != {total}", "rebin2d-total")
            if not covered and sum(mat) > total * (1 + 1e-9) + 1e-12:
                return (f"two-level re-bin created cycles: {sum(mat)} > {total}", "rebin2d-total")
            if not case["drop"] and bx == case["ax"] and by == case["ay"]:
                if any(not core.close(x, y, rtol=1e-12) for x, y in zip(mat, case["vals"])):
                    return (f"re-bin to the same two-level binning ({order} level order) changed the contents: {mat} != {case['vals']}", "rebin2d-identity")
            res[order] = mat
        if len(res) == 2:
            sc = max(total, 1.0)
            if any(abs(x - y) > 1e-9 * sc for x, y in zip(res["same"], res["swapped"])):
                return (f"the level order of the target changes the result: {res['same']} vs {res['swapped']}", "rebin2d-level-order")
        return None

    @staticmethod
    def _skipna(method, vals):
        """What an aggregation that skips unoccupied (NaN) classes gives for the values of one class."""
        v = [x for x in vals if x == x]
        if method == "sum":
            return float(sum(v))
        if not v:
            return NAN
        return {"min": min(v), "max": max(v), "mean": sum(v) / len(v)}[method]

    def _check_combined(self, what, hs, keyed_parts, extract):
        """keyed_parts: per histogram a dict class -> content (NaN allowed); extract(result) -> dict class -> content."""
        m = mods()
        keys = []
        for kp in keyed_parts:
            for k in kp:
                if k not in keys:
                    keys.append(k)
        for method in ("sum", "min", "max", "mean"):
            try:
                r = m["combine"](hs, method)
            except Exception as e:
                return (f"combine_histogram({what}, {method!r}) raises {type(e).__name__}: {e}", "combine-error")
            got = extract(r) if len(r) else {}
            want = {k: self._skipna(method, [x for kp in keyed_parts for kk, x in kp.items() if kk == k]) for k in keys}
            if method == "sum":
                total = float(sum(x for kp in keyed_parts for x in kp.values() if x == x))
                gt = float(np.nansum(r.to_numpy(dtype=float))) if len(r) else 0.0
                if not core.close(gt, total, rtol=1e-9):
                    return (f"{what}: combined grand total {gt} != sum of the totals of the parts {total} (NaN = unoccupied)", "combine-total")
            if set(got) != set(want):
                return (f"{what} ({method}): combined classes {sorted(got)} != classes of the parts {sorted(want)}", "combine-class")
            for k in want:
                g, w = got[k], want[k]
                if not ((g != g and w != w) or core.close(g, w, rtol=1e-9)):
                    return (f"{what} ({method}): class {k} holds {g}, the parts that have a value there give {w}", "combine-class")
        return None

    def _oracle_combine(self, case):
        hs = [self._series1(h) for h in case["hists"]]
        parts = []
        for h in case["hists"]:
            d = {}
            for b in h:      # a histogram may list a class twice: its contents add up / aggregate like separate parts
                d.setdefault((b[0], b[1]), []).append(nn(b[2]))
            parts.append(d)
        # flatten duplicates inside one histogram into separate pseudo-parts
        flat = []
        for d in parts:
            depth = max([len(v) for v in d.values()] + [0])
            for i in range(depth):
                flat.append({k: v[i] for k, v in d.items() if len(v) > i})
        return self._check_combined("histograms", hs, flat,
                                    lambda r: {(iv.left, iv.right): float(v) for iv, v in zip(r.index, r.to_numpy(dtype=float))})

    def _oracle_combine2d(self, case):
        ax, ay = case["ax"], case["ay"]
        keys = [(ax[i], ax[i + 1], ay[j], ay[j + 1]) for i in range(len(ax) - 1) for j in range(len(ay) - 1)]
        hs, parts = [], []
        for vals, rev in zip(case["hists"], case["reversed"]):
            kv = list(zip(keys, [nn(v) for v in vals]))
            if rev:
                kv.reverse()
            ix = pd.MultiIndex.from_arrays([pd.IntervalIndex.from_arrays([k[0] for k, _ in kv], [k[1] for k, _ in kv]),
                                            pd.IntervalIndex.from_arrays([k[2] for k, _ in kv], [k[3] for k, _ in kv])],
                                           names=case["names"])
            hs.append(pd.Series([v for _, v in kv], index=ix, dtype=float))
            parts.append(dict(kv))
        n1, n2 = case["names"]

        def extract(r):
            a, b = r.index.get_level_values(n1), r.index.get_level_values(n2)
            return {(float(xl), float(xr), float(yl), float(yr)): float(v)
                    for xl, xr, yl, yr, v in zip(a.left, a.right, b.left, b.right, r.to_numpy(dtype=float))}
        return self._check_combined("two-level histograms", hs, parts, extract)

    def _oracle_pipe(self, case):
        target = case["target"]
        try:
            parts, comb = self._run_pipe(case)
        except Exception as e:
            return (f"rebin to a common binning + combine raises {type(e).__name__}: {e}", "pipe-error")
        keyed = []
        for h, p in zip(case["parts"], parts):
            vals = p.to_numpy(dtype=float)
            pres = [b for b in h if b[2] is not None]
            covered = target[0] <= h[0][0] and target[-1] >= h[-1][1]
            tot = float(sum(b[2] for b in pres))
            if covered and not core.close(float(np.nansum(vals)), tot, rtol=1e-9):
                return (f"re-bin (nan_default={case['nan_default']}) of {h} to {target}: total {float(np.nansum(vals))} != {tot}", "rebin-total")
            for j, v in enumerate(vals):
                occupied = any(b[0] < target[j + 1] and target[j] < b[1] for b in pres)
                unocc_ok = (v != v) if case["nan_default"] else (v == 0.0)
                if (not occupied and not unocc_ok) or (occupied and v != v):
                    return (f"re-bin (nan_default={case['nan_default']}): class ({target[j]}, {target[j + 1]}] holds {v}; "
                            f"occupied by a source class with a value: {occupied}", "rebin-nan-default")
            keyed.append({(target[j], target[j + 1]): float(v) for j, v in enumerate(vals)})
        return self._check_combined("re-binned histograms", parts, keyed,
                                    lambda r: {(iv.left, iv.right): float(v) for iv, v in zip(r.index, r.to_numpy(dtype=float))})

    # -------------------------------------------------------------- shrinking
    def shrink(self, case, still_fails):
        cur = json.loads(json.dumps(case))
        key = {"coll": "rows", "hist": "rows", "rebin": "src", "lh": "classes", "pipe": "parts", "combine": "hists",
               "combine2d": "hists"}.get(cur["kind"])
        if cur["kind"] in ("coll", "hist") and cur.get("idx"):
            pass
        if key is None:
            return cur
        changed = True
        while changed and len(cur[key]) > 1:
            changed = False
            for i in range(len(cur[key])):
                cand = json.loads(json.dumps(cur))
                del cand[key][i]
                for par in ("keys", "vals", "idx", "reversed"):
                    if cand.get(par):
                        del cand[par][i]
                try:
                    if still_fails(cand):
                        cur = cand
                        changed = True
                        break
                except Exception:
                    continue
        return cur
