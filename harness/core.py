"""Core of the verification harness: Lean build + axiom audit, driver I/O, correspondence run,
property oracle, failing-input search, known findings, evidence.

Run by /venv/bin/python (which has /repo/src installed editable, so the implementation that is
executed is always /repo's current working tree)."""
import hashlib
import json
import os
import random
import re
import math
import struct
import subprocess
import sys
import time
import traceback

VERIF = os.path.dirname(os.path.dirname(os.path.abspath(__file__)))
LEAN = os.path.join(VERIF, "lean")
DEFAULT_REPO = "/repo"
REPO = os.environ.get("PYLIFE_REPO", DEFAULT_REPO)
DRIVER = os.path.join(LEAN, ".lake", "build", "bin", "driver")
ALLOWED_AXIOMS = {"propext", "Classical.choice", "Quot.sound"}
FORBIDDEN = re.compile(r"\bsorry\b|\badmit\b|^axiom |native_decide|bv_decide|implemented_by|\bunsafe |maxHeartbeats 0")

TRUSTED_BASE = [
    "Lean 4.33.0 kernel (theorems re-elaborated by `lake build` on every run; thorough tier replays the declarations of the property modules and of every project-local module they import with leanchecker)",
    "axioms: at most propext, Classical.choice, Quot.sound (audited with #print axioms on every property theorem in every run); no sorry/admit/native_decide/bv_decide/implemented_by/unsafe",
    "Mathlib v4.33.0 (single modules, Proofs/ only)",
    "the model is hand-written (lean/Model, no Mathlib) - for C16 and the bridged parts of C08, C09, C11, C17 regenerated from the current source on every run by the ast->Lean translator (translate/, lean/Generated), which is itself trusted only as far as this run's differential comparison of the generated definitions with the real functions goes; the tie of every model to /repo is this run's correspondence check: the compiled model (lean/.lake/build/bin/driver) and the real implementation are run on the same inputs and their canonicalised outputs are compared - differential testing, it bounds what was seen",
    "IEEE-754 rounding, numpy/pandas/scipy/h5py runtimes and iterative-solver convergence are modelled or assumed, not verified",
]


def local_import_closure(modules):
    """Project-local modules (Model/Generated/Driver/Proofs) reachable from `modules` through `import` lines."""
    seen, todo = [], list(modules)
    while todo:
        m = todo.pop()
        if m in seen:
            continue
        path = os.path.join(LEAN, *m.split(".")) + ".lean"
        if not os.path.exists(path):
            continue
        seen.append(m)
        for line in open(path, encoding="utf-8"):
            mm = re.match(r"\s*(?:public\s+)?import\s+([A-Za-z0-9_.]+)", line)
            if mm and mm.group(1).split(".")[0] in ("Model", "Generated", "Driver", "Proofs"):
                todo.append(mm.group(1))
    return sorted(seen)


# ---------------------------------------------------------------- numbers on the wire
def f2h(x):
    return struct.pack(">d", float(x)).hex()


def h2f(s):
    return struct.unpack(">d", bytes.fromhex(s))[0]


def close(a, b, rtol=1e-11, atol=0.0):
    if a != a and b != b:
        return True
    if a == b:
        return True
    if a in (float("inf"), float("-inf")) or b in (float("inf"), float("-inf")):
        return False
    return abs(a - b) <= atol + rtol * max(abs(a), abs(b))


# ---------------------------------------------------------------- subprocess helpers
def run(cmd, cwd=None, timeout=3600, input_=None, env=None):
    p = subprocess.run(cmd, cwd=cwd, timeout=timeout, input=input_, capture_output=True, text=True, env=env)
    return p.returncode, p.stdout, p.stderr


def sha(path):
    try:
        with open(path, "rb") as f:
            return hashlib.sha256(f.read()).hexdigest()[:16]
    except OSError:
        return "missing"


# ---------------------------------------------------------------- Lean side
def lean_sources():
    out = []
    for root, _dirs, files in os.walk(LEAN):
        if ".lake" in root:
            continue
        for f in files:
            if f.endswith(".lean"):
                out.append(os.path.join(root, f))
    return sorted(out)


def strip_comments(text):
    text = re.sub(r"/-.*?-/", "", text, flags=re.S)
    text = re.sub(r"--.*", "", text)
    return text


def forbidden_tokens():
    hits = []
    for p in lean_sources():
        body = strip_comments(open(p).read())
        for n, line in enumerate(body.splitlines(), 1):
            if FORBIDDEN.search(line):
                hits.append(f"{os.path.relpath(p, LEAN)}: {line.strip()[:100]}")
    return hits


def lake_build(targets, log):
    """Build targets; returns (ok, output)."""
    t0 = time.time()
    rc, out, err = run(["lake", "build"] + list(targets), cwd=LEAN, timeout=3000)
    log(f"lake build {' '.join(targets)}: rc={rc} in {time.time()-t0:.1f}s")
    return rc == 0, out + err


def audit_axioms(modules, theorems, log):
    """#print axioms for every property theorem.  Returns dict name -> list of axioms, or None if
    the theorem does not exist / the module does not load."""
    src = "".join(f"import {m}\n" for m in modules)
    src += "".join(f"#print axioms {t}\n" for t in theorems)
    path = os.path.join(LEAN, ".lake", f"audit_{os.getpid()}.lean")
    os.makedirs(os.path.dirname(path), exist_ok=True)
    with open(path, "w") as f:
        f.write(src)
    try:
        rc, out, err = run(["lake", "env", "lean", path], cwd=LEAN, timeout=1800)
    finally:
        try:
            os.remove(path)
        except OSError:
            pass
    text = out + err
    res = {t: None for t in theorems}
    # "'name' depends on axioms: [a, b]"  or  "'name' does not depend on any axioms"
    for m in re.finditer(r"'([^']+)' depends on axioms: \[([^\]]*)\]", text, flags=re.S):
        res[m.group(1)] = [a.strip() for a in m.group(2).replace("\n", " ").split(",") if a.strip()]
    for m in re.finditer(r"'([^']+)' does not depend on any axioms", text):
        res[m.group(1)] = []
    return res, text


_driver_ready = False


def ensure_driver(log):
    global _driver_ready
    if _driver_ready:
        return True
    ok, out = lake_build(["driver"], log)
    if not ok:
        log(out[-3000:])
    _driver_ready = ok
    return ok


def driver(lines, timeout=1800):
    """Pipe protocol lines to the compiled model; one answer line per input line."""
    if not lines:
        return []
    data = "\n".join(lines) + "\n"
    rc, out, err = run([DRIVER], input_=data, timeout=timeout)
    res = out.split("\n")
    if res and res[-1] == "":
        res.pop()
    if rc != 0 or len(res) != len(lines):
        raise RuntimeError(f"driver failed rc={rc} answers={len(res)}/{len(lines)} stderr={err[:500]}")
    return res



# ---------------------------------------------------------------- parallel evaluation (fork)
_PMAP = {}


def _merge_stats(dst, src):
    for k, v in src.items():
        if isinstance(v, dict):
            _merge_stats(dst.setdefault(k, {}), v)
        elif isinstance(v, (int, float)) and not isinstance(v, bool):
            if k.startswith("max_"):
                dst[k] = max(dst.get(k, 0), v)          # a maximum over the workers, not a sum
            else:
                dst[k] = dst.get(k, 0) + v
        else:
            dst.setdefault(k, v)


def _zero_stats(st):
    out = {}
    for k, v in st.items():
        if isinstance(v, dict):
            out[k] = _zero_stats(v)
        elif isinstance(v, (int, float)) and not isinstance(v, bool):
            out[k] = 0
        else:
            out[k] = v
    return out


def _pmap_worker(args):
    name, lo, hi = args
    prop, cases = _PMAP["prop"], _PMAP["cases"]
    if hasattr(prop, "stats"):
        prop.stats = _zero_stats(prop.stats)
    fn = getattr(prop, name)
    res = [fn(c) for c in cases[lo:hi]]
    return lo, res, getattr(prop, "stats", {})


def pmap(prop, name, cases):
    """[getattr(prop, name)(c) for c in cases], sharded over prop.PARALLEL forked processes; the
    workers' `stats` counters are merged into prop.stats."""
    procs = int(getattr(prop, "PARALLEL", 0) or 0)
    if procs <= 1 or len(cases) < 4 * procs:
        fn = getattr(prop, name)
        return [fn(c) for c in cases]
    import multiprocessing
    _PMAP["prop"], _PMAP["cases"] = prop, cases
    step = max(1, len(cases) // (procs * 8))
    jobs = [(name, lo, min(lo + step, len(cases))) for lo in range(0, len(cases), step)]
    out = [None] * len(cases)
    with multiprocessing.get_context("fork").Pool(procs) as pool:
        for lo, res, st in pool.imap_unordered(_pmap_worker, jobs):
            out[lo:lo + len(res)] = res
            if hasattr(prop, "stats"):
                _merge_stats(prop.stats, st)
    return out

# ---------------------------------------------------------------- known findings
def load_known(pid):
    path = os.path.join(VERIF, "KNOWN_FINDINGS.jsonl")
    out = []
    if os.path.exists(path):
        for line in open(path):
            line = line.strip()
            if not line or line.startswith("#"):
                continue
            e = json.loads(line)
            if e.get("property") == pid:
                out.append(e)
    return out


# ---------------------------------------------------------------- the check
CASE_TIMEOUT = int(os.environ.get("VERIF_CASE_TIMEOUT", "300"))     # seconds for ONE case (normal: milliseconds to seconds)


class _CaseTimeout(Exception):
    pass


def _with_alarm(seconds, fn):
    """Run fn() under SIGALRM (worker processes and the main process run cases in their main thread): a changed solver that
    never terminates becomes a failing case instead of hanging the check."""
    import signal
    import threading
    if threading.current_thread() is not threading.main_thread():
        return fn()

    def handler(signum, frame):
        raise _CaseTimeout()
    old = signal.signal(signal.SIGALRM, handler)
    signal.alarm(seconds)
    try:
        return fn()
    finally:
        signal.alarm(0)
        signal.signal(signal.SIGALRM, old)


def _harness_side(exc):
    """Exceptions that are about the machinery itself, never about the implementation's behaviour."""
    msg = str(exc)
    return isinstance(exc, (MemoryError, OSError, ImportError, RecursionError, KeyboardInterrupt)) or msg.startswith("harness:") or "inject()" in msg


def _involves_implementation(exc):
    src = os.path.join(os.path.realpath(REPO), "src")
    tb = exc.__traceback__
    while tb is not None:
        fn = os.path.realpath(tb.tb_frame.f_code.co_filename)
        if fn.startswith(src) or "/pylife/" in fn:
            return True
        tb = tb.tb_next
    return False


class Failure:
    def __init__(self, kind, case, detail, klass=None):
        self.kind = kind          # 'oracle' | 'correspondence' | 'proof'
        self.case = case
        self.detail = detail
        self.klass = klass        # finding class assigned by the property module (oracle failures)

    def to_json(self):
        return {"kind": self.kind, "case": self.case, "detail": self.detail, "class": self.klass}


class Prop:
    """Base class of a property module.  Subclasses set ID, THEOREMS, LEAN_MODULES, SOURCES and
    implement generate / model_lines / impl_lines (correspondence) and oracle (the property's own
    relation on the real implementation)."""
    ID = "C00"
    THEOREMS = []         # fully qualified names of the property theorems
    PARTIAL = {}          # theorem name -> what is missing (…_partial theorems)
    LEAN_MODULES = []     # modules holding them
    SOURCES = []          # anchored files (relative to REPO), hashed into the evidence
    NEEDS_EXT = False
    RULE = ""
    ASSUMPTIONS = []

    def setup(self, log):
        pass

    def corpus(self):
        path = os.path.join(VERIF, "corpus", self.ID)
        out = []
        if os.path.isdir(path):
            for f in sorted(os.listdir(path)):
                if f.endswith(".json"):
                    out.append(json.load(open(os.path.join(path, f)))["case"])
        return out

    def generate(self, rng, tier):
        return []

    # correspondence: both return a list of strings of equal length for one case
    def model_lines(self, case):
        return []

    def impl_lines(self, case):
        return []

    # A slice whose model mirrors the code's floating-point operation order compares hex doubles as strings.  With
    # LAST_DIGITS = r (None = off) two lines of the same shape whose tokens are equal or hex doubles that differ by at most
    # r * max(|a|, |b|, largest magnitude on the line) count as equal; the number of such lines goes to the evidence
    # (`last_digit_deviations`).  Reason: an equivalent respelling of the arithmetic (a * (b / c) for a * b / c) moves last
    # digits and is no change of behaviour for a property about real numbers; every other token (counts, classes, flags,
    # error names) stays exact.
    LAST_DIGITS = None

    def _lines_near(self, a, b):
        ta, tb = a.split(), b.split()
        if len(ta) != len(tb):
            return False
        vals = []
        for x, y in zip(ta, tb):
            if x == y:
                if len(x) == 16:
                    try:
                        vals.append(abs(h2f(x)))
                    except ValueError:
                        pass
                continue
            if len(x) != 16 or len(y) != 16:
                return False
            try:
                vals.append((h2f(x), h2f(y)))
            except ValueError:
                return False
        scale = max([v for v in vals if isinstance(v, float) and v == v and v != math.inf] +
                    [max(abs(v[0]), abs(v[1])) for v in vals if isinstance(v, tuple) and all(w == w and abs(w) != math.inf for w in v)] + [0.0])
        for v in vals:
            if isinstance(v, tuple):
                x, y = v
                if x != x or y != y or abs(x) == math.inf or abs(y) == math.inf or x == y or abs(x - y) > self.LAST_DIGITS * scale:
                    return False                # (x == y with different bits: +0.0 / -0.0 - a sign, not a last digit)
        return True

    def compare(self, case, model_out, impl_out):
        """None if equal, else description."""
        if model_out == impl_out:
            return None
        near = 0
        for i, (a, b) in enumerate(zip(model_out, impl_out)):
            if a != b:
                if self.LAST_DIGITS is not None and self._lines_near(a, b):
                    near += 1
                    continue
                return f"line {i}: model={a[:300]!r} impl={b[:300]!r}"
        if len(model_out) != len(impl_out):
            return f"length {len(model_out)} vs {len(impl_out)}"
        self.stats["last_digit_deviations"] = self.stats.get("last_digit_deviations", 0) + near
        return None

    def oracle(self, case):
        """Evaluate the property itself on the implementation.  Returns None (holds) or
        (description, class) when it fails on this case."""
        return None

    def nontrivial(self, case, model_out):
        """A hashable key when the case is non-trivial (distinct keys are counted), else None."""
        return json.dumps(case, sort_keys=True)

    def search(self, rng, tier, budget_s, log):
        """Extra failing-input search after a broken obligation: default = more generated cases
        through the oracle."""
        t0 = time.time()
        n = 0
        r = random.Random(rng.random())
        while time.time() - t0 < budget_s:
            for case in self.generate(r, "quick"):
                n += 1
                res = self._oracle_safe(case)
                if res is not None:
                    yield Failure("oracle", case, res[0], res[1])
                if time.time() - t0 >= budget_s:
                    break
        log(f"search: {n} further cases through the oracle")

    def shrink(self, case, still_fails):
        return case

    def _oracle_safe(self, case):
        """An exception that comes out of the implementation (a pylife frame is on the traceback) on an input
        of the property's quantifier is a failure of the property on that input, not an infrastructure
        problem; an exception that never touched pylife is a bug of the harness and is re-raised (exit 2)."""
        self._known_seen = []
        try:
            res = _with_alarm(CASE_TIMEOUT, lambda: self.oracle(case))
        except _CaseTimeout:
            return (f"the implementation did not return within {CASE_TIMEOUT} s on this input", "does-not-terminate")
        except Exception as e:
            if _involves_implementation(e):
                return (f"the implementation raises {type(e).__name__}: {str(e)[:300]}", "implementation-raises")
            if _harness_side(e):
                raise
            # raised in the harness while it digests what the implementation returned (a changed shape / type / None / missing
            # column): the implementation's result is not what the property describes - a failure on this input, not an
            # infrastructure problem.  (On the unchanged tree the checks run clean over many seeds, so this is not a harness bug
            # in practice; if it ever is one it shows as a VIOLATION whose replay names the exception.)
            return (f"the implementation's result cannot be interpreted: {type(e).__name__}: {str(e)[:300]}", "unexpected-result")
        if res is None and self._known_seen:
            return self._known_seen[0]          # only known findings on this case: reported as such, counted by run_check
        return res

    def known(self, klass, desc):
        """Oracle helper.  True when `klass` is an OPEN known finding: the hit is noted and the oracle goes on with its later
        clauses (a known finding must not hide another failure on the same case); False otherwise - the oracle then returns
        (desc, klass).  Usage:  if not self.known(k, d): return (d, k)"""
        if klass in getattr(self, "known_classes", ()):
            if not hasattr(self, "_known_seen"):
                self._known_seen = []
            self._known_seen.append((desc, klass))
            return True
        return False

    def _impl_safe(self, case):
        try:
            return _with_alarm(CASE_TIMEOUT, lambda: self.impl_lines(case))
        except _CaseTimeout:
            return [f"EXC does not return within {CASE_TIMEOUT} s"]
        except Exception as e:
            if _involves_implementation(e) or not _harness_side(e):
                return [f"EXC {type(e).__name__}: {str(e)[:200]}"]
            raise


def write_replay(pid, seed, payload):
    base = os.environ.get("VERIF_REPLAY_DIR") or "replays"      # relative to /verif unless absolute
    os.makedirs(os.path.join(VERIF, base), exist_ok=True)
    path = os.path.join(base, f"{pid}-{seed}.json")
    with open(os.path.join(VERIF, path), "w") as f:
        json.dump(payload, f, indent=1, default=str)
    return path


def run_check(prop, tier, seed, replay=None):
    t0 = time.time()
    pid = prop.ID
    logs = []

    def log(msg):
        line = f"[{pid} {time.time()-t0:6.1f}s] {msg}"
        logs.append(line)
        print(line, flush=True)

    rng = random.Random(seed)
    failures = []      # Failure objects that break an obligation / correspondence
    prop.setup(log)

    # ---- 1. proof obligations
    build_ok, build_out = lake_build(list(prop.LEAN_MODULES) + ["driver"], log)
    global _driver_ready
    _driver_ready = build_ok
    axioms = {}
    discharged = 0
    broken_theorems = []
    forb = forbidden_tokens()
    if forb:
        log("forbidden tokens: " + "; ".join(forb[:5]))
    if build_ok:
        axioms, audit_text = audit_axioms(prop.LEAN_MODULES, prop.THEOREMS, log)
        for t in prop.THEOREMS:
            ax = axioms.get(t)
            if ax is None or not set(ax) <= ALLOWED_AXIOMS or forb:
                broken_theorems.append(t)
            else:
                discharged += 1
    else:
        log(build_out[-4000:])
        broken_theorems = list(prop.THEOREMS)
        # which modules fail?  try to get the driver alone so that the search can still use the model
        ensure_driver(log)
    if broken_theorems:
        failures.append(Failure("proof", None, {"theorems_not_checked": broken_theorems,
                                                "build_ok": build_ok, "forbidden": forb,
                                                "build_tail": build_out[-1500:] if not build_ok else ""}))
    leanchecker = None
    if build_ok and tier == "thorough" and not replay:
        # independent re-check of the compiled .olean files of this property's modules
        t1 = time.time()
        mods = local_import_closure(prop.LEAN_MODULES)      # the lemma / model modules that carry the proofs, not only the top files
        rc, out, err = run(["lake", "env", "leanchecker"] + mods, cwd=LEAN, timeout=3000)
        leanchecker = {"rc": rc, "seconds": round(time.time() - t1, 1), "modules": mods, "output": (out + err)[-500:]}
        log(f"leanchecker on {len(mods)} project modules (closure of {' '.join(prop.LEAN_MODULES)}): rc={rc} in {leanchecker['seconds']}s")
        if rc != 0:
            failures.append(Failure("proof", None, {"leanchecker_failed": leanchecker}))
            discharged = 0
    log(f"obligations {len(prop.THEOREMS)} discharged {discharged}")

    # ---- 2./3. corpus + correspondence
    if replay:
        payload = json.load(open(replay))
        cases = [f["case"] for f in payload.get("failures", []) if f.get("case") is not None]
        log(f"replaying {len(cases)} case(s) from {replay}")
    else:
        cases = list(prop.corpus()) + list(prop.generate(rng, tier))
    n_corr = 0
    nontrivial = set()
    samples = []
    corr_fail = []
    model_answers = {}
    if _driver_ready or ensure_driver(log):
        lines = []
        spans = []
        for c in cases:
            ml = prop.model_lines(c)
            spans.append((len(lines), len(lines) + len(ml)))
            lines.extend(ml)
        try:
            answers = driver(lines)
        except Exception as e:
            answers = None
            failures.append(Failure("correspondence", None, f"driver error: {e}"))
        if answers is not None:
            impl_all = prop.impl_all(cases) if hasattr(prop, "impl_all") else pmap(prop, "_impl_safe", cases)
            for c, (a, b), impl_out in zip(cases, spans, impl_all):
                mo = answers[a:b]
                if not mo and not impl_out:
                    continue
                n_corr += 1
                d = prop.compare(c, mo, impl_out)
                if d is not None:
                    corr_fail.append(Failure("correspondence", c, d))
                key = prop.nontrivial(c, mo)
                if key is not None:
                    nontrivial.add(key)
                if len(samples) < 5 and key is not None:
                    samples.append({"case": c, "model": mo[:3], "impl": impl_out[:3]})
    else:
        failures.append(Failure("correspondence", None, "driver does not build"))
    log(f"correspondence: {n_corr} cases, {len(corr_fail)} disagreements, {len(nontrivial)} distinct non-trivial")
    failures.extend(corr_fail[:20])

    # ---- 4. direct property oracle on the implementation
    known = load_known(pid)
    known_classes = {e["class"] for e in known if e.get("status") == "open"}
    prop.known_classes = known_classes          # before the workers fork: Prop.known() consults it
    oracle_fail = []
    known_hits = {}
    known_count = {}
    n_oracle = 0
    for c, res in zip(cases, pmap(prop, "_oracle_safe", cases)):
        n_oracle += 1
        if res is not None:
            desc, klass = res
            if klass in known_classes:
                known_hits.setdefault(klass, (c, desc))
                known_count[klass] = known_count.get(klass, 0) + 1
            else:
                oracle_fail.append(Failure("oracle", c, desc, klass))
    log(f"oracle: {n_oracle} cases, {len(oracle_fail)} failing outside known findings, known classes hit: {sorted(known_hits)}")

    # ---- 5. search for a failing input if an obligation or the correspondence broke
    searched = 0
    if failures and not oracle_fail and not replay:
        budget = 120 if tier == "quick" else 600
        log(f"an obligation / the correspondence broke: searching the implementation for a failing input ({budget}s)")
        # disagreeing cases first
        for f in prop.search(rng, tier, budget, log):
            searched += 1
            if f.klass in known_classes:
                continue
            oracle_fail.append(f)
            break

    # ---- 6. known findings: replay every witness
    known_lines = []
    for e in known:
        if e.get("status") != "open":
            continue
        res = prop._oracle_safe(e["witness"])
        if res is not None and res[1] == e["class"]:
            known_lines.append(f"KNOWN-FINDING: property={pid} {e['what']}")
        elif res is not None:
            # the recorded witness now fails in ANOTHER way: that is not the recorded finding
            if res[1] not in known_classes:
                oracle_fail.append(Failure("oracle", e["witness"], f"witness of known finding {e['class']} now fails differently: {res[0]}", res[1]))
            else:
                known_lines.append(f"KNOWN-FINDING: property={pid} {e['what']}")
        else:
            log(f"note: witness of known finding {e['class']} no longer fails on this tree")

    # ---- 7. verdict
    violation = None
    if oracle_fail:
        f0 = oracle_fail[0]
        try:
            small = prop.shrink(f0.case, lambda c: (lambda r: r is not None and r[1] == f0.klass)(prop._oracle_safe(c)))
            if small != f0.case:
                r = prop._oracle_safe(small)
                f0 = Failure("oracle", small, r[0], r[1])
        except Exception:
            pass
        path = write_replay(pid, seed, {"property": pid, "seed": seed, "tier": tier,
                                        "failures": [f0.to_json()] + [f.to_json() for f in failures[:5]],
                                        "how": f"./check {pid} --replay <this file>"})
        violation = f"VIOLATION property={pid} replay={path}"
    elif failures:
        path = write_replay(pid, seed, {"property": pid, "seed": seed, "tier": tier,
                                        "broken": [f.to_json() for f in failures[:10]],
                                        "failures": [f.to_json() for f in failures[:10] if f.case is not None],
                                        "note": "no input violating the property was found on the implementation; the listed theorem(s) / correspondence stream no longer check, so the property is no longer shown to hold"})
        violation = f"VIOLATION property={pid} replay={path} no-failing-input-found"

    # ---- 8. evidence
    ev = {
        "property_id": pid, "tier": tier, "seed": seed, "level": "proof",
        "coverage": {
            "obligations": max(len(prop.THEOREMS), 1), "discharged": discharged,
            "checker_cmd": f"cd lean && lake build {' '.join(prop.LEAN_MODULES)} && lake env lean <#print axioms of each theorem>  (run by ./check {pid})",
            "trusted_base": TRUSTED_BASE + list(prop.ASSUMPTIONS),
            "theorems": {t: axioms.get(t) for t in prop.THEOREMS},
            "partial_theorems": prop.PARTIAL,
            "leanchecker": leanchecker,
            "evaluations": len(cases) + searched,          # generated cases (each goes through correspondence AND oracle) + searched ones
            "correspondence_cases": n_corr,
            "traces_validated_against_impl": n_corr - len(corr_fail),
            "oracle_evaluations": n_oracle,
            "known_class_hits": {k: known_count.get(k, 0) for k in sorted(known_classes)},
            "distinct_nontrivial": len(nontrivial),
            "rule": prop.RULE,
            "samples": samples or [{"note": "no correspondence case ran"}],
            # `exhaustive` in the schema's sense (the run enumerated a finite space completely) is never claimed: every
            # check also draws seeded random cases; the completely enumerated sub-scopes are listed instead
            "exhaustive": False,
            "exhaustive_subscopes": [v for k, v in sorted(getattr(prop, "stats", {}).items()) if k.startswith("exhaustive_scope")],
            "distribution": getattr(prop, "stats", {}),
            "sources": {s: sha(os.path.join(REPO, s)) for s in prop.SOURCES},
            "known_findings_reported": known_lines,
        },
        "assumptions": list(prop.ASSUMPTIONS),
        "wall_s": round(time.time() - t0, 2),
        "violations": 0 if violation is None else 1,
    }
    evdir = os.environ.get("VERIF_EVIDENCE_DIR")
    if not evdir:
        # evidence/ holds runs against /repo itself only; a run against another tree (PYLIFE_REPO: seeded changes, scratch
        # repairs) writes to a git-ignored directory
        evdir = os.path.join(VERIF, "evidence") if os.path.realpath(REPO) == os.path.realpath(DEFAULT_REPO) else os.path.join(VERIF, ".cache", "evidence-other-tree")
    if not replay:   # a replay of stored cases is not a run of the check: it leaves the evidence alone
        os.makedirs(evdir, exist_ok=True)
        with open(os.path.join(evdir, f"{pid}.json"), "w") as f:
            json.dump(ev, f, indent=1, default=str)
    for l in known_lines:
        print(l)
    if violation:
        print(violation, flush=True)
        return 1
    log("OK")
    return 0
