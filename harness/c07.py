"""C07: the binned notch approximation law (`Binned`) = the wrapped law sampled at the upper class edge.

Implementation side + generators + direct property oracle.  The Lean model is lean/Model/Notch.lean (section
`binned`), its protocol handler lean/Driver/Notch.lean (ops `c07.*`).

The wrapped law's values at the class edges travel as a table (the look-up table of the REAL `Binned` object), so
the compiled model performs the class selection / sign handling / range check itself on the same numbers; the class
edges are recomputed by the model with the code's IEEE expression `(i / n) * max` and compared bit for bit."""
import json
import math
import warnings

import numpy as np
import pandas as pd

from .core import Prop, f2h, h2f

SOURCES = ["src/pylife/materiallaws/notch_approximation_law.py"]
INF = math.inf
FNS = ["stress", "strain", "stress2", "strain2"]          # 2 = secondary branch
BIN_COUNTS = [1, 2, 3, 7, 100, 128]


# ------------------------------------------------------------------ wrapped laws
class StubLaw:
    """A cheap odd, (weakly, in floating point) increasing law with the interface `Binned` uses; no solver.
    stress(L) = a·L + b·L³, strain(σ) = c·σ, secondary branch = Masing doubling."""

    def __init__(self, a, b, c):
        self.a, self.b, self.c = a, b, c

    def stress(self, load, *, rtol=None, tol=None):
        return self.a * load + self.b * (load * load * load)

    def strain(self, stress, load):
        return self.c * stress

    def stress_secondary_branch(self, delta_load, *, rtol=None, tol=None):
        return 2 * self.stress(delta_load / 2)

    def strain_secondary_branch(self, delta_stress, delta_load):
        return 2 * self.strain(delta_stress / 2, None)


def make_law(spec):
    if spec["type"] == "stub":
        return StubLaw(spec["a"], spec["b"], spec["c"])
    import pylife.materiallaws.notch_approximation_law as nal
    if spec["type"] == "neuber":
        return nal.ExtendedNeuber(spec["E"], spec["K"], spec["n"], spec["Kp"])
    import pylife.materiallaws.notch_approximation_law_seegerbeste as sb
    return sb.SeegerBeste(spec["E"], spec["K"], spec["n"], spec["Kp"])


def make_binned(case):
    """The real Binned object of a case (may raise)."""
    import pylife.materiallaws.notch_approximation_law as nal
    law = make_law(case["law"])
    with warnings.catch_warnings():
        warnings.simplefilter("ignore")
        with np.errstate(all="ignore"):
            if case["kind"] == "multi":
                mx = pd.Series([float(v) for v in case["maxLs"]],
                               index=pd.Index(case.get("node_ids") or list(range(1, len(case["maxLs"]) + 1)), name="node_id"))
                return nal.Binned(law, mx, case["n"]), law
            return nal.Binned(law, float(case["maxL"]), case["n"]), law


def call(b, fn, x):
    """One look-up on the real object; returns a list of floats or the exception class name."""
    try:
        with warnings.catch_warnings():
            warnings.simplefilter("ignore")
            if fn == "stress":
                r = b.stress(x)
            elif fn == "strain":
                r = b.strain(None, x)
            elif fn == "stress2":
                r = b.stress_secondary_branch(x)
            else:
                r = b.strain_secondary_branch(None, x)
    except Exception as e:     # noqa: BLE001  (the kind of exception is the observable)
        return type(e).__name__
    return [float(v) for v in np.atleast_1d(np.asarray(r, dtype=float))]


def lut_of(b, fn, npoints=None):
    """(loads, values) of the table a function reads; class-major for per-point tables."""
    lut = b._lut_primary_branch if fn in ("stress", "strain") else b._lut_secondary_branch
    col = {"stress": "stress", "strain": "strain", "stress2": "delta_stress", "strain2": "delta_strain"}[fn]
    lcol = "load" if fn in ("stress", "strain") else "delta_load"
    return [float(v) for v in lut[lcol].to_numpy()], [float(v) for v in lut[col].to_numpy()]


def hz(x):
    """hex with the sign of zero dropped"""
    x = float(x)
    return f2h(0.0 if x == 0 else x)


def edges_py(n, maxL, m):
    """The property's class edges, computed with the same IEEE expression as the code: (i / n) * max."""
    return [(float(i) / float(n)) * float(maxL) for i in range(1, m + 1)]


def sign(x):
    return 1.0 if x > 0 else -1.0 if x < 0 else 0.0


def up(x):
    return math.nextafter(x, INF)


def down(x):
    return math.nextafter(x, -INF)


# ------------------------------------------------------------------ generators
def gen_law(rng):
    if rng.random() < 0.45:
        return {"type": "stub", "a": rng.choice([1.0, 0.5, rng.uniform(0.1, 2)]), "b": rng.choice([0.0, 1e-6, rng.uniform(0, 1e-5)]),
                "c": rng.choice([1e-5, 2.0 ** -17])}
    E = rng.choice([206e3, 70e3, rng.uniform(6e4, 2.2e5)])
    return {"type": "neuber", "E": E, "K": rng.uniform(400, 3000), "n": rng.uniform(0.1, 0.3),
            "Kp": rng.choice([1.0, 1.5, 3.5, rng.uniform(1, 8)])}


def gen_max(rng):
    return rng.choice([700.3, 1000.0, 512.0, 0.1, 1e-3 / 3, 333.3333333333333, rng.uniform(50, 3000), rng.uniform(1, 50),
                       1266.25, 1e5 / 7])


def class_subset(rng, m, k=6):
    if m <= 8:
        return list(range(1, m + 1))
    s = {1, 2, m - 1, m}
    while len(s) < k + 2:
        s.add(rng.randint(1, m))
    return sorted(s)


def single_queries(rng, n, maxL, few=False):
    qs = []
    for fn in FNS:
        m = n if fn in ("stress", "strain") else 2 * n
        es = edges_py(n, maxL, m)
        top = es[-1]
        inr = [0.0, -0.0, top, -top]
        for i in class_subset(rng, m, 3 if few else 6):
            e = es[i - 1]
            for v in (e, up(e), down(e)):
                if v <= top:
                    inr += [v, -v]
        inr += [rng.uniform(-top, top) for _ in range(4 if few else 10)]
        inr += [es[0] * rng.uniform(0, 1) * rng.choice([1, -1]), es[0] * 1e-300]
        out = [up(top), -up(top), top * 1.5, -top * (1 + 1e-9), top * rng.uniform(1, 4), "inf"]
        if fn in ("stress", "strain"):
            out += [2 * top, top + es[0] * 0.5]
        rng.shuffle(inr)
        qs.append({"fn": fn, "form": "series", "xs": inr})
        for x in rng.sample(inr, min(len(inr), 4 if few else 8)) + [top, -top, 0.0]:
            qs.append({"fn": fn, "form": "scalar", "xs": [x]})
        for x in out[: (3 if few else len(out))]:
            qs.append({"fn": fn, "form": "scalar", "xs": [x]})
        bad = rng.sample(inr, min(3, len(inr))) + [rng.choice(out)]
        rng.shuffle(bad)
        qs.append({"fn": fn, "form": "series", "xs": bad})
    if rng.random() < 0.3:
        qs.append({"fn": rng.choice(FNS), "form": "scalar", "xs": ["nan"]})
    return qs


def gen_single(rng, n=None, few=False):
    n = n if n is not None else rng.choice(BIN_COUNTS)
    maxL = gen_max(rng)
    return {"kind": "single", "law": gen_law(rng), "maxL": maxL, "n": n, "queries": single_queries(rng, n, maxL, few)}


def gen_multi(rng, n=None):
    n = n if n is not None else rng.choice([1, 2, 3, 7, 100])
    p = rng.choice([1, 2, 3, 5])
    M0 = gen_max(rng)
    ratios = [1.0] + [rng.choice([0.5, 2.0, 1.3, 0.8, rng.uniform(0.05, 20)]) for _ in range(p - 1)]
    maxLs = [r * M0 for r in ratios]
    ids = rng.sample(range(1, 50), p)
    qs = []
    for fn in FNS:
        m = n if fn in ("stress", "strain") else 2 * n
        scale = m / n
        # proportional loads x_j = t * M_j: on the edges (t = i/n exactly), inside classes, zero, the limits, outside
        ts = [0.0, scale, -scale, scale * 1.001, -scale * 1.5]
        for i in class_subset(rng, m, 3):
            ts += [float(i) / float(n), -(float(i) / float(n)), (i - rng.uniform(0.05, 0.95)) / n, -(i - rng.uniform(0.05, 0.95)) / n]
        for t in ts:
            qs.append({"fn": fn, "prop": True, "xs": [t * M for M in maxLs]})
        # free loads: the class comes from the first point only (as coded); +-1 ulp around the first point's edges
        es = edges_py(n, maxLs[0], m)
        for i in class_subset(rng, m, 2):
            for v in (es[i - 1], up(es[i - 1]), down(es[i - 1])):
                x0 = v * rng.choice([1, -1])
                qs.append({"fn": fn, "prop": False,
                           "xs": [x0] + [rng.uniform(-3, 3) * M for M in maxLs[1:]]})
    return {"kind": "multi", "law": gen_law(rng), "maxLs": maxLs, "node_ids": ids, "n": n, "queries": qs}


# ------------------------------------------------------------------ the property
class C07(Prop):
    ID = "C07"
    SOURCES = SOURCES
    LEAN_MODULES = ["Proofs.C07"]
    THEOREMS = [f"PylifeVerif.C07.{t}" for t in [
        "binned_upper_edge", "binned_range", "binned_on_edge", "binned_zero", "binned_out_of_range",
        "binned_never_underestimates", "binned_monotone", "binned_deviation_lt_one_class",
        "binned_multi_table_eq_single", "binned_multi_eq_single"]]
    PARTIAL = {}
    RULE = ("case = wrapped law (real ExtendedNeuber with random material / monotone stub) x maximum load(s) x bin count in "
            "{1,2,3,7,100,128} x look-ups (stress, strain, both branches; scalar, Series on one table, per-point Series on a "
            "per-point table) at 0, -0, every (sampled) class edge computed with the code's expression and its two float "
            "neighbours, both signs, +-max, random interior loads, loads above the range, inf, NaN.  Correspondence: class "
            "edges of the real table vs the model's `(i/n)*max` bit for bit; every look-up of the real object vs the model's "
            "look-up on the real table's numbers, bit for bit (sign of zero dropped), `ValueError` vs `none`.  Oracle (no "
            "Lean): table = wrapped law called on the edges (bit-exact), look-up = sign x value of the first class whose edge "
            "is >= |x| by a linear scan over independently computed edges, errors outside the range, never below the law, "
            "monotone, less than one class off, per-point table = single tables, proportional per-point look-up = single "
            "look-ups.  Non-trivial = every case with at least one successful and one rejected look-up")
    ASSUMPTIONS = [
        "C07: theorems are over an arbitrary linearly ordered field (exact arithmetic); the IEEE evaluation of (i/n)*max is "
        "not modelled in the theorems - the correspondence checks that the real table's edges equal the same expression at "
        "Float and that the class selection on those doubles agrees bit for bit",
        "C07: np.searchsorted(side='left') on the increasing edge column is modelled as 'first index with edge >= |x|' "
        "(numpy contract); pandas iloc / boolean row selection as list indexing",
        "C07: the wrapped law is an arbitrary function in the theorems; its values at the edges are taken from the real table "
        "in the correspondence; that the table holds the wrapped law's values at the edges is checked by the oracle against "
        "a direct call of the law on the Series of edges",
        "C07: admissible configuration: number_of_bins >= 1, maximum load > 0 (all points); NaN in a Series (replaced by 0 by "
        "the code) and a scalar look-up on a per-point table are outside the property and not generated",
        "C07: per-point look-up selects the class with the FIRST point's load (as coded); equality with the single look-ups "
        "is proved and checked for proportional loads (x_j = t * max_j), which is what the FKM-nonlinear assessment feeds",
    ]

    def __init__(self):
        self.stats = {}
        self.exhaustive = False
        self._cache = {}

    def _count(self, key, n=1):
        self.stats[key] = self.stats.get(key, 0) + n

    def _binned(self, case):
        key = json.dumps({k: case[k] for k in case if k != "queries"}, sort_keys=True)
        if key not in self._cache:
            if len(self._cache) > 64:
                self._cache.clear()
            try:
                self._cache[key] = make_binned(case)
            except Exception as e:     # noqa: BLE001
                self._cache[key] = e
        return self._cache[key]

    # -------------------------------------------------------------- generation
    def generate(self, rng, tier):
        big = tier != "quick"
        # every bin count with a real law and with the stub, single and per-point
        for n in BIN_COUNTS:
            for _ in range(5 if not big else 12):
                yield gen_single(rng, n, few=(n >= 100 and not big))
        for n in [1, 2, 3, 7, 100]:
            for _ in range(3 if not big else 8):
                yield gen_multi(rng, n)
        for _ in range(40 if not big else 300):
            yield gen_single(rng, few=not big)
        for _ in range(25 if not big else 200):
            yield gen_multi(rng)

    # -------------------------------------------------------------- correspondence
    def _xs(self, q):
        return [float(x) for x in q["xs"]]

    def model_lines(self, case):
        bl = self._binned(case)
        if isinstance(bl, Exception):
            return []
        b, _law = bl
        n = case["n"]
        lines = []
        if case["kind"] == "single":
            lines.append(f"c07.edges {n} {f2h(case['maxL'])} {n}")
            lines.append(f"c07.edges {n} {f2h(case['maxL'])} {2 * n}")
            for q in case["queries"]:
                loads, vals = lut_of(b, q["fn"])
                xs = " ".join(f2h(x) for x in self._xs(q))
                lines.append(f"c07.lookup {len(loads)} {' '.join(map(f2h, loads))} {' '.join(map(f2h, vals))} {xs}")
                if q["form"] == "series":
                    lines.append(f"c07.pos {len(loads)} {' '.join(map(f2h, loads))} {xs}")
        else:
            p = len(case["maxLs"])
            for M in case["maxLs"]:
                lines.append(f"c07.edges {n} {f2h(M)} {n}")
                lines.append(f"c07.edges {n} {f2h(M)} {2 * n}")
            for q in case["queries"]:
                loads, vals = lut_of(b, q["fn"])
                m = len(loads) // p
                xs = " ".join(f2h(x) for x in self._xs(q))
                lines.append(f"c07.multi {m} {p} {' '.join(map(f2h, loads))} {' '.join(map(f2h, vals))} {xs}")
        return lines

    def impl_lines(self, case):
        bl = self._binned(case)
        if isinstance(bl, Exception):
            self._count("construction_raises_" + type(bl).__name__)
            return []
        b, _law = bl
        n = case["n"]
        self._count(f"cases_{case['kind']}_{case['law']['type']}_n{n}")
        out = []
        if case["kind"] == "single":
            out.append(" ".join(f2h(v) for v in b._lut_primary_branch.load.to_numpy()))
            out.append(" ".join(f2h(v) for v in b._lut_secondary_branch.delta_load.to_numpy()))
            for q in case["queries"]:
                xs = self._xs(q)
                if q["form"] == "scalar":
                    r = call(b, q["fn"], xs[0])
                    self._count("scalar_" + ("value" if isinstance(r, list) else r))
                    out.append(r if isinstance(r, str) else " ".join(hz(v) for v in r))
                else:
                    r = call(b, q["fn"], pd.Series(xs))
                    self._count("series_" + ("value" if isinstance(r, list) else r))
                    self._count("series_lookups", len(xs))
                    out.append(r if isinstance(r, str) else " ".join(hz(v) for v in r))
                    loads, _vals = lut_of(b, q["fn"])
                    out.append(" ".join(str(int(i)) for i in np.searchsorted(np.asarray(loads), np.abs(np.asarray(xs)))))
        else:
            p = len(case["maxLs"])
            ids = b._lut_primary_branch.index.get_level_values("node_id")
            for j in range(p):
                nid = ids[j]
                out.append(" ".join(f2h(v) for v in b._lut_primary_branch.load[ids == nid].to_numpy()))
                ids2 = b._lut_secondary_branch.index.get_level_values("node_id")
                out.append(" ".join(f2h(v) for v in b._lut_secondary_branch.delta_load[ids2 == nid].to_numpy()))
            idx = pd.Index(case["node_ids"], name="node_id")
            for q in case["queries"]:
                r = call(b, q["fn"], pd.Series(self._xs(q), index=idx))
                self._count("multi_" + ("value" if isinstance(r, list) else r))
                out.append(r if isinstance(r, str) else " ".join(hz(v) for v in r))
        return out

    def compare(self, case, model_out, impl_out):
        if len(model_out) != len(impl_out):
            return f"length {len(model_out)} vs {len(impl_out)}"
        for i, (a, b) in enumerate(zip(model_out, impl_out)):
            toks = [t if t == "ValueError" or len(t) != 16 else hz(h2f(t)) for t in a.split()]
            if b == "ValueError" and len(toks) > 1:
                # a Series holding one load above the range raises as a whole; the model answers per load
                if "ValueError" not in toks:
                    return f"line {i}: the Series look-up raised ValueError but the model rejects none of its loads"
                continue
            if " ".join(toks) != b:
                return f"line {i}: model={' '.join(toks)[:300]!r} impl={b[:300]!r}"
        return None

    def nontrivial(self, case, model_out):
        txt = " ".join(model_out)
        if "ValueError" in txt and any(len(t) == 16 for t in txt.split()):
            return json.dumps(case, sort_keys=True)
        return None

    # -------------------------------------------------------------- direct property oracle (real code only)
    def oracle(self, case):
        with warnings.catch_warnings():
            warnings.simplefilter("ignore")
            with np.errstate(all="ignore"):
                return self._oracle(case)

    def _oracle(self, case):
        n = case["n"]
        npts = 1 if case["kind"] == "single" else len(case["maxLs"])
        if n < 1 or any(not (M > 0) for M in (case["maxLs"] if case["kind"] == "multi" else [case["maxL"]])):
            return None
        bl = self._binned(case)
        if isinstance(bl, Exception):
            klass = "binned-single-class" if n * npts == 1 else "binned-construction"
            return (f"Binned(<{case['law']['type']}>, maximum load {case.get('maxL', case.get('maxLs'))!r}, number_of_bins={n}) "
                    f"raises {type(bl).__name__} at construction: {str(bl)[:100]}", klass)
        b, law = bl
        stub = case["law"]["type"] == "stub"
        maxima = [case["maxL"]] if case["kind"] == "single" else case["maxLs"]
        # ---- the tables: edges by the property's expression, values = the wrapped law on the Series of edges
        ref = {}      # (fn, j) -> (edges, values)
        for fn in FNS:
            m = n if fn in ("stress", "strain") else 2 * n
            loads, vals = lut_of(b, fn)
            if len(loads) != m * npts:
                return (f"{fn}: table has {len(loads)} rows, expected {m} classes x {npts} points", "binned-table")
            for j, M in enumerate(maxima):
                es = edges_py(n, M, m)
                lj, vj = loads[j::npts], vals[j::npts]
                if lj != es:
                    k = next(i for i in range(m) if lj[i] != es[i])
                    return (f"{fn}: class {k + 1} of point {j} has load {lj[k]!r}, upper class edge (i/n)*max = {es[k]!r} "
                            f"(n={n}, max={M!r})", "binned-edges")
                ref[(fn, j)] = (es, vj)
            ser = pd.Series(loads)        # the wrapped law on the whole column of edges, as one call
            if fn == "stress":
                want = law.stress(ser)
            elif fn == "strain":
                want = law.strain(law.stress(ser), ser)
            elif fn == "stress2":
                want = law.stress_secondary_branch(ser)
            else:
                want = law.strain_secondary_branch(law.stress_secondary_branch(ser), ser)
            want = [float(v) for v in np.atleast_1d(np.asarray(want, dtype=float))]
            if want != vals:
                k = next(i for i in range(len(vals)) if want[i] != vals[i])
                return (f"{fn}: class {k // npts + 1} of point {k % npts} holds {vals[k]!r}, the wrapped law at the upper edge "
                        f"{loads[k]!r} gives {want[k]!r}", "binned-table-values")
        # ---- per-point tables = the tables each point gets alone
        singles = {}
        if case["kind"] == "multi":
            for j, M in enumerate(maxima):
                sc = {"kind": "single", "law": case["law"], "maxL": M, "n": n}
                sb = self._binned(sc)
                if isinstance(sb, Exception):
                    if n == 1:
                        continue            # reported through the single-table cases (class binned-single-class)
                    return (f"single table for point {j} raises {type(sb).__name__}", "binned-construction")
                singles[j] = sb[0]
                for fn in FNS:
                    ls, vs = lut_of(sb[0], fn)
                    es, vj = ref[(fn, j)]
                    if ls != es or any(not close_tab(a, c, stub, fn) for a, c in zip(vs, vj)):
                        return (f"{fn}: per-point table of point {j} differs from the table the point gets alone "
                                f"(max={M!r}, n={n})", "binned-multi-table")
        # ---- look-ups
        for q in case["queries"]:
            fn = q["fn"]
            xs = self._xs(q)
            if any(x != x for x in xs):
                r = call(b, fn, xs[0])
                if q.get("form") == "scalar" and isinstance(r, list):
                    return (f"{fn}(nan) returned {r!r}", "binned-out-of-range")
                continue
            if case["kind"] == "single":
                es, vs = ref[(fn, 0)]
                exp = []
                for x in xs:
                    k = next((i for i, e in enumerate(es) if abs(x) <= e), None)
                    exp.append(None if k is None else (k, sign(x) * vs[k]))
                r = call(b, fn, xs[0] if q["form"] == "scalar" else pd.Series(xs))
                d = self._judge(case, fn, xs, exp, r, es, vs, law, stub)
                if d:
                    return d
            else:
                es0, _ = ref[(fn, 0)]
                k = next((i for i, e in enumerate(es0) if abs(xs[0]) <= e), None)
                r = call(b, fn, pd.Series(xs, index=pd.Index(case["node_ids"], name="node_id")))
                if k is None:
                    if r != "ValueError":
                        return (f"{fn}: per-point look-up with first load {xs[0]!r} above the range {es0[-1]!r} "
                                f"{'raised ' + r if isinstance(r, str) else 'returned ' + repr(r)} instead of ValueError",
                                "binned-out-of-range")
                    continue
                if isinstance(r, str):
                    return (f"{fn}: per-point look-up {xs!r} inside the range raised {r}", "binned-in-range-error")
                want = [sign(x) * ref[(fn, j)][1][k] for j, x in enumerate(xs)]
                if len(r) != len(want) or any(not same(a, c) for a, c in zip(r, want)):
                    return (f"{fn}: per-point look-up {xs!r} returned {r!r}, class {k + 1} of the first point gives {want!r}",
                            "binned-upper-edge")
                if q.get("prop"):
                    for j, x in enumerate(xs):
                        if j not in singles:
                            continue
                        rs = call(singles[j], fn, x)
                        if isinstance(rs, str) or not close_tab(rs[0], r[j], stub, fn):
                            return (f"{fn}: proportional per-point look-up gives {r[j]!r} for point {j} (load {x!r}), the point's "
                                    f"own table gives {rs!r}", "binned-multi-lookup")
        return None

    def _judge(self, case, fn, xs, exp, r, es, vs, law, stub):
        n = case["n"]
        if any(e is None for e in exp):
            if r != "ValueError":
                bad = next(x for x, e in zip(xs, exp) if e is None)
                return (f"{fn}: load {bad!r} above the initialised range {es[-1]!r} (n={n}) "
                        f"{'raised ' + r if isinstance(r, str) else 'returned ' + repr(r)} instead of ValueError", "binned-out-of-range")
            return None
        if isinstance(r, str):
            return (f"{fn}: look-up of {xs[:4]!r} inside the range raised {r} (max class edge {es[-1]!r})", "binned-in-range-error")
        if len(r) != len(xs):
            return (f"{fn}: {len(xs)} loads, {len(r)} results", "binned-upper-edge")
        for x, (k, want), got in zip(xs, exp, r):
            if not same(got, want):
                return (f"{fn}({x!r}) = {got!r}; upper-edge rule: class {k + 1} (edges {es[k - 1] if k else 0.0!r} < |x| <= {es[k]!r}) "
                        f"gives {want!r} (n={n}, max={case['maxL']!r})", "binned-upper-edge")
        # consequences (primary stress only needs the law itself; strains follow the same table)
        if fn in ("stress", "stress2"):
            f = law.stress if fn == "stress" else law.stress_secondary_branch
            tol = 0.0 if stub else 3e-4
            for x, (k, want), got in zip(xs, exp, r):
                if x == 0:
                    continue
                try:
                    exact = float(f(abs(x)))
                except RuntimeError:        # the wrapped law's own solver gave up on this load: nothing to compare with
                    self._count("law_solver_raises")
                    continue
                if exact != exact:
                    continue
                if abs(got) < exact - tol * exact - tol:
                    return (f"{fn}({x!r}) = {got!r} under-estimates the wrapped law's {exact!r}", "binned-underestimates")
                lower = vs[k - 1] if k else 0.0
                if abs(abs(got) - exact) > (vs[k] - lower) + tol * exact + tol:
                    return (f"{fn}({x!r}) = {got!r} deviates from the wrapped law's {exact!r} by more than one class "
                            f"({vs[k] - lower!r})", "binned-deviation")
            pairs = sorted(zip(xs, r))
            for (x1, y1), (x2, y2) in zip(pairs, pairs[1:]):
                if y2 < y1 - tol * abs(y1) - tol:
                    return (f"{fn} not monotone: {fn}({x1!r}) = {y1!r} > {fn}({x2!r}) = {y2!r}", "binned-monotone")
        return None

    # -------------------------------------------------------------- shrinking
    def shrink(self, case, still_fails):
        cur = dict(case)
        qs = list(cur.get("queries", []))
        changed = True
        while changed and len(qs) > 0:
            changed = False
            for i in range(len(qs)):
                cand = dict(cur, queries=qs[:i] + qs[i + 1:])
                try:
                    if still_fails(cand):
                        qs = cand["queries"]
                        cur = cand
                        changed = True
                        break
                except Exception:     # noqa: BLE001
                    continue
        if len(qs) == 1 and cur["kind"] == "single" and len(qs[0]["xs"]) > 1:
            q = qs[0]
            for x in q["xs"]:
                cand = dict(cur, queries=[dict(q, xs=[x])])
                try:
                    if still_fails(cand):
                        return cand
                except Exception:     # noqa: BLE001
                    continue
        return cur


def same(a, b):
    return a == b or (a != a and b != b)


def close_tab(a, b, stub, fn):
    """Equality of table values computed by separate vectorised solver calls (the array Newton iteration stops when ALL
    elements have converged, so a value depends on its companions within the solver tolerance rtol = tol = 1e-4; strains
    amplify a stress error by at most 1/n' <= 10).  Exact for the stub law."""
    if stub:
        return same(a, b)
    if "stress" in fn:
        return abs(a - b) <= 2e-4 * abs(b) + 2e-4
    return abs(a - b) <= 3e-3 * abs(b) + 1e-8
