"""C07: the binned notch approximation law (`Binned`) = the wrapped law sampled at the upper class edge.

Implementation side + generators + direct property oracle.  The Lean model is lean/Model/Notch.lean (section
`binned`), its protocol handler lean/Driver/Notch.lean (ops `c07.*`).

The wrapped law's values at the class edges travel as a table (the look-up table of the REAL `Binned` object), so
the compiled model performs the class selection / sign handling / range check itself on the same numbers.  The class
edges of the real table are compared with the model's `(i / n) * max` and with the exact `i * max / n` WITHIN ROUNDING
(the property fixes the class width, not the float expression); the look-ups are judged on the edges the table holds.

Per-point tables: the model is the REPAIRED per-point look-up (every point selects the class in its own column and is
checked against its own range, /repo commit 3047e0d).  The behaviour before the repair (class
and range check of the FIRST point for all points) is the finding class `binned-multi-first-point-class` (fixed by 3047e0d); it is
recognised by its mechanism only: the code's answer must be bit for bit the first-point reproduction."""
import json
import math
import warnings
from fractions import Fraction

import numpy as np
import pandas as pd

from .core import Prop, f2h, h2f

SOURCES = ["src/pylife/materiallaws/notch_approximation_law.py"]
INF = math.inf
FNS = ["stress", "strain", "stress2", "strain2"]          # 2 = secondary branch
BIN_COUNTS = [1, 2, 3, 7, 100, 128]
FIRST_POINT = "binned-multi-first-point-class"


# ------------------------------------------------------------------ wrapped laws
class StubLaw:
    """A cheap odd, (weakly, in floating point) increasing law with the interface `Binned` uses; no solver.
    stress(L) = a·L + b·L³, strain(σ) = c·σ, secondary branch = Masing doubling."""

    def __init__(self, a, b, c):
        self.a, self.b, self.c = a, b, c
        # the attribute names of the real laws (all that determines the stub is in them)
        self.E, self.K, self.n, self.K_p = a, b, c, None

    def stress(self, load, *, rtol=None, tol=None):
        return self.a * load + self.b * (load * load * load)

    def strain(self, stress, load):
        return self.c * stress

    def stress_secondary_branch(self, delta_load, *, rtol=None, tol=None):
        return 2 * self.stress(delta_load / 2)

    def strain_secondary_branch(self, delta_stress, delta_load):
        return 2 * self.strain(delta_stress / 2, None)


def make_law(spec):
    if spec["type"] == "stub":
        return StubLaw(spec["a"], spec["b"], spec["c"])
    import pylife.materiallaws.notch_approximation_law as nal
    if spec["type"] == "neuber":
        return nal.ExtendedNeuber(spec["E"], spec["K"], spec["n"], spec["Kp"])
    import pylife.materiallaws.notch_approximation_law_seegerbeste as sb
    return sb.SeegerBeste(spec["E"], spec["K"], spec["n"], spec["Kp"])


def make_binned(case):
    """The real Binned object of a case (may raise)."""
    import pylife.materiallaws.notch_approximation_law as nal
    law = make_law(case["law"])
    with warnings.catch_warnings():
        warnings.simplefilter("ignore")
        with np.errstate(all="ignore"):
            if case["kind"] == "multi":
                mx = pd.Series([float(v) for v in case["maxLs"]],
                               index=pd.Index(case.get("node_ids") or list(range(1, len(case["maxLs"]) + 1)), name="node_id"))
                return nal.Binned(law, mx, case["n"]), law
            return nal.Binned(law, float(case["maxL"]), case["n"]), law


def make_index(spec):
    """The index of a load Series: None = default RangeIndex; {"names": [...], "labels": [...]} flat (one name) or a
    MultiIndex (labels = list of tuples)."""
    if not spec:
        return None
    names, labels = spec["names"], spec["labels"]
    if len(names) > 1:
        return pd.MultiIndex.from_tuples([tuple(l) for l in labels], names=names)
    return pd.Index(labels, name=names[0])


def make_series(xs, spec):
    idx = make_index(spec)
    return pd.Series(xs, dtype=float) if idx is None else pd.Series(xs, index=idx, dtype=float)


def call(b, fn, x):
    """One look-up on the real object; returns a list of floats or the exception class name."""
    try:
        with warnings.catch_warnings():
            warnings.simplefilter("ignore")
            if fn == "stress":
                r = b.stress(x)
            elif fn == "strain":
                r = b.strain(None, x)
            elif fn == "stress2":
                r = b.stress_secondary_branch(x)
            else:
                r = b.strain_secondary_branch(None, x)
    except Exception as e:     # noqa: BLE001  (the kind of exception is the observable)
        return type(e).__name__
    return [float(v) for v in np.atleast_1d(np.asarray(r, dtype=float))]


def law_on(law, fn, loads):
    """The wrapped law's own value of `fn` for loads (a Series or a float) - what the table must hold at the edges."""
    if fn == "stress":
        return law.stress(loads)
    if fn == "strain":
        return law.strain(law.stress(loads), loads)
    if fn == "stress2":
        return law.stress_secondary_branch(loads)
    return law.strain_secondary_branch(law.stress_secondary_branch(loads), loads)


def lut_of(b, fn, npoints=None):
    """(loads, values) of the table a function reads; class-major for per-point tables."""
    lut = b._lut_primary_branch if fn in ("stress", "strain") else b._lut_secondary_branch
    col = {"stress": "stress", "strain": "strain", "stress2": "delta_stress", "strain2": "delta_strain"}[fn]
    lcol = "load" if fn in ("stress", "strain") else "delta_load"
    return [float(v) for v in lut[lcol].to_numpy()], [float(v) for v in lut[col].to_numpy()]


def hz(x):
    """hex with the sign of zero dropped"""
    x = float(x)
    return f2h(0.0 if x == 0 else x)


def edges_py(n, maxL, m):
    """Class edges by the expression the code uses today, `(i / n) * max`; only used to PLACE probes (on the edges and
    their float neighbours) - the judgement uses the edges the real table holds."""
    return [(float(i) / float(n)) * float(maxL) for i in range(1, m + 1)]


def edge_error_ulps(e, i, n, maxL):
    """|e - i·max/n| in units of ulp(e), the exact product/quotient by rational arithmetic."""
    exact = Fraction(i) * Fraction(float(maxL)) / n
    return float(abs(Fraction(e) - exact) / Fraction(math.ulp(e))) if math.isfinite(e) and e != 0 else INF


def check_edges(lj, n, M, m):
    """The property's class grid on the edges a table holds: strictly increasing, every edge i·max/n within rounding of a
    two-operation float expression (2 ulp), the last edge exactly the range max resp. 2·max (every load <= max must get a
    value, every load above it an error).  Returns None or a description."""
    for i, e in enumerate(lj, 1):
        if not (e > (lj[i - 2] if i > 1 else 0.0)):
            return f"class {i} has load {e!r}, not above the previous edge {(lj[i - 2] if i > 1 else 0.0)!r}"
        err = edge_error_ulps(e, i, n, M)
        if err > 2.0:
            return f"class {i} has load {e!r}, upper class edge i*max/n = {float(Fraction(i) * Fraction(float(M)) / n)!r} ({err:.3g} ulp off)"
    top = float(M) * (m // n)
    if lj[-1] != top:
        return f"last class {m} has load {lj[-1]!r}, the initialised range ends at {top!r}"
    return None


def sign(x):
    return 1.0 if x > 0 else -1.0 if x < 0 else 0.0


def up(x):
    return math.nextafter(x, INF)


def down(x):
    return math.nextafter(x, -INF)


def klass(es, x):
    """index of the first class whose edge is >= |x| (linear scan), None above the range"""
    return next((i for i, e in enumerate(es) if abs(x) <= e), None)


# ------------------------------------------------------------------ generators
def gen_law(rng, n=1):
    """SeegerBeste solves element by element (about 10 ms per class edge): small tables only."""
    u = rng.random()
    if u < 0.4:
        return {"type": "stub", "a": rng.choice([1.0, 0.5, rng.uniform(0.1, 2)]), "b": rng.choice([0.0, 1e-6, rng.uniform(0, 1e-5)]),
                "c": rng.choice([1e-5, 2.0 ** -17])}
    E = rng.choice([206e3, 70e3, rng.uniform(6e4, 2.2e5)])
    if u < 0.85 or n > 7:
        return {"type": "neuber", "E": E, "K": rng.uniform(400, 3000), "n": rng.uniform(0.1, 0.3),
                "Kp": rng.choice([1.0, 1.5, 3.5, rng.uniform(1, 8)])}
    return {"type": "sb", "E": E, "K": rng.uniform(400, 3000), "n": rng.uniform(0.1, 0.3),
            "Kp": rng.choice([1.5, 2.5, 3.5, rng.uniform(1.3, 6)])}


def gen_max(rng):
    return rng.choice([700.3, 1000.0, 512.0, 0.1, 1e-3 / 3, 333.3333333333333, rng.uniform(50, 3000), rng.uniform(1, 50),
                       1266.25, 1e5 / 7])


def gen_index(rng, k, kinds):
    """An index for a Series of k loads.  The look-ups are positional: the labels must not matter."""
    kind = rng.choice(kinds)
    if kind == "range":
        return None
    if kind == "ints":                 # shuffled non-contiguous node ids
        return {"kind": kind, "names": ["node_id"], "labels": rng.sample(range(1, 10 * k + 60), k)}
    if kind == "perm":                 # the positions themselves, permuted: label alignment would silently re-order
        lab = list(range(k))
        while k > 1 and lab == list(range(k)):
            rng.shuffle(lab)
        return {"kind": kind, "names": [None], "labels": lab}
    if kind == "dup":                  # what the FKM-nonlinear detector feeds for load ranges: one load_step for all
        return {"kind": kind, "names": ["load_step"], "labels": [rng.randint(0, 9)] * k}
    if kind == "str":
        lab = [f"n{v}" for v in rng.sample(range(1000), k)]
        return {"kind": kind, "names": ["node"], "labels": lab}
    if kind == "float":
        return {"kind": kind, "names": [None], "labels": [round(rng.uniform(-5, 5), 3) for _ in range(k)]}
    # 2-level MultiIndex (load_step, node_id), as the detector's load Series
    ids = rng.sample(range(1, 10 * k + 60), k)
    step = rng.randint(0, 5)
    return {"kind": "multi", "names": ["load_step", "node_id"], "labels": [[step, v] for v in ids]}


SINGLE_INDEX_KINDS = ["range", "ints", "perm", "perm", "dup", "str", "float", "multi"]


def class_subset(rng, m, k=6):
    if m <= 8:
        return list(range(1, m + 1))
    s = {1, 2, m - 1, m}
    while len(s) < k + 2:
        s.add(rng.randint(1, m))
    return sorted(s)


def single_queries(rng, n, maxL, few=False):
    qs = []
    for fn in FNS:
        m = n if fn in ("stress", "strain") else 2 * n
        es = edges_py(n, maxL, m)
        top = es[-1]
        inr = [0.0, -0.0, top, -top]
        for i in class_subset(rng, m, 3 if few else 6):
            e = es[i - 1]
            for v in (e, up(e), down(e), up(up(e)), down(down(e))):
                if v <= top:
                    inr += [v, -v]
        inr += [rng.uniform(-top, top) for _ in range(4 if few else 10)]
        inr += [es[0] * rng.uniform(0, 1) * rng.choice([1, -1]), es[0] * 1e-300]
        out = [up(top), -up(top), top * 1.5, -top * (1 + 1e-9), top * rng.uniform(1, 4), "inf"]
        if fn in ("stress", "strain"):
            out += [2 * top, top + es[0] * 0.5]
        rng.shuffle(inr)
        qs.append({"fn": fn, "form": "series", "xs": inr, "index": gen_index(rng, len(inr), SINGLE_INDEX_KINDS)})
        sub = rng.sample(inr, min(len(inr), 5))
        qs.append({"fn": fn, "form": "series", "xs": sub, "index": gen_index(rng, len(sub), SINGLE_INDEX_KINDS[1:])})
        for x in rng.sample(inr, min(len(inr), 4 if few else 8)) + [top, -top, 0.0]:
            qs.append({"fn": fn, "form": "scalar", "xs": [x]})
        for x in out[: (3 if few else len(out))]:
            qs.append({"fn": fn, "form": "scalar", "xs": [x]})
        bad = rng.sample(inr, min(3, len(inr))) + [rng.choice(out)]
        rng.shuffle(bad)
        qs.append({"fn": fn, "form": "series", "xs": bad, "index": gen_index(rng, len(bad), SINGLE_INDEX_KINDS)})
    if rng.random() < 0.3:
        qs.append({"fn": rng.choice(FNS), "form": "scalar", "xs": ["nan"]})
    if rng.random() < 0.4:          # NaN inside a Series on a single table: `fillna(0)` (code and model), not judged by the oracle
        fn = rng.choice(FNS)
        xs = [rng.uniform(-maxL, maxL) for _ in range(3)] + ["nan"]
        rng.shuffle(xs)
        qs.append({"fn": fn, "form": "series", "xs": xs, "index": gen_index(rng, len(xs), SINGLE_INDEX_KINDS)})
    return qs


def gen_single(rng, n=None, few=False):
    n = n if n is not None else rng.choice(BIN_COUNTS)
    maxL = gen_max(rng)
    return {"kind": "single", "law": gen_law(rng, n), "maxL": maxL, "n": n, "queries": single_queries(rng, n, maxL, few)}


def multi_index(rng, ids):
    """Index of a per-point load Series: the node ids in table order (default), the same ids in ANOTHER order, unrelated
    ids, one load_step for all points (detector, load ranges), (load_step, node_id), a RangeIndex, strings.  Loads and
    points are paired by position in every case."""
    p = len(ids)
    kind = rng.choice(["ids", "ids", "permuted_ids", "permuted_ids", "other_ids", "dup", "multi", "range", "str"])
    if kind == "ids":
        return {"kind": kind, "names": ["node_id"], "labels": list(ids)}
    if kind == "permuted_ids":
        lab = list(ids)
        while p > 1 and lab == list(ids):
            rng.shuffle(lab)
        return {"kind": kind, "names": ["node_id"], "labels": lab}
    if kind == "other_ids":
        return {"kind": kind, "names": ["node_id"], "labels": rng.sample(range(100, 200), p)}
    if kind == "multi":
        step = rng.randint(0, 5)
        return {"kind": kind, "names": ["load_step", "node_id"], "labels": [[step, v] for v in ids]}
    return gen_index(rng, p, [kind])


def gen_multi(rng, n=None):
    n = n if n is not None else rng.choice([1, 2, 3, 7, 100])
    p = rng.choice([1, 2, 3, 5])
    M0 = gen_max(rng)
    ratios = [1.0] + [rng.choice([0.5, 2.0, 1.3, 0.8, rng.uniform(0.05, 20)]) for _ in range(p - 1)]
    maxLs = [r * M0 for r in ratios]
    ids = rng.sample(range(1, 50), p)
    qs = []

    def add(fn, xs, how):
        qs.append({"fn": fn, "how": how, "xs": xs, "index": multi_index(rng, ids)})

    for fn in FNS:
        m = n if fn in ("stress", "strain") else 2 * n
        scale = m / n
        # proportional loads x_j = t * M_j (what the FKM-nonlinear assessment feeds): on the edges (t = i/n exactly),
        # inside classes, zero, the limits, outside
        ts = [0.0, scale, -scale, scale * 1.001, -scale * 1.5]
        for i in class_subset(rng, m, 3):
            ts += [float(i) / float(n), -(float(i) / float(n)), (i - rng.uniform(0.05, 0.95)) / n, -(i - rng.uniform(0.05, 0.95)) / n]
        for t in ts:
            add(fn, [t * M for M in maxLs], "prop")
        ess = [edges_py(n, M, m) for M in maxLs]
        # every point anywhere in its OWN range (classes differ from point to point), own signs
        for _ in range(4):
            add(fn, [rng.uniform(-1, 1) * scale * M for M in maxLs], "free")
        # every point on / next to one of its own edges
        for _ in range(3):
            xs = []
            for es in ess:
                e = es[rng.choice(class_subset(rng, m, 2)) - 1]
                v = rng.choice([e, up(e), down(e)])
                xs.append(min(v, es[-1]) * rng.choice([1, -1]))
            add(fn, xs, "edges")
        # exactly one point above its own range (by one ulp / a little / a lot), the others inside theirs
        for _ in range(3):
            xs = [rng.uniform(-1, 1) * scale * M for M in maxLs]
            j = rng.randrange(p)
            top = ess[j][-1]
            xs[j] = rng.choice([up(top), top * (1 + 1e-9), top * rng.uniform(1.0001, 5), INF]) * rng.choice([1, -1])
            add(fn, [("inf" if x == INF else "-inf" if x == -INF else x) for x in xs], "one_out")
        # the first point at its limits, the others free in their ranges
        for v in (ess[0][-1], -ess[0][-1], up(ess[0][-1])):
            add(fn, [v] + [rng.uniform(-1, 1) * scale * M for M in maxLs[1:]], "first_limit")
        # a point WITHOUT a load (NaN) at the first / a middle / the last position, the others free in their own ranges
        # (/repo commit 4c5d9b2: NaN for that point, values for the others, no exception); oracle only
        for j in sorted({0, p // 2, p - 1}):
            xs = [rng.uniform(-1, 1) * scale * M for M in maxLs]
            xs[j] = "nan"
            add(fn, xs, "nan_point")
        if p >= 2:      # ... and with one of the OTHER points above its own range: the range rule still holds (ValueError)
            xs = [rng.uniform(-1, 1) * scale * M for M in maxLs]
            j, jo = rng.sample(range(p), 2)
            xs[j] = "nan"
            xs[jo] = ess[jo][-1] * rng.choice([1 + 1e-9, rng.uniform(1.0001, 5)]) * rng.choice([1, -1])
            add(fn, xs, "nan_point")
    # a Series that does not hold one load per point (p >= 2: with one point the code before the repair broadcast a longer
    # Series against the one-row class instead of rejecting it)
    if p >= 2:
        fn = rng.choice(FNS)
        xs = [rng.uniform(-0.5, 0.5) * M for M in maxLs]
        wrong = xs + [xs[0]] if rng.random() < 0.5 else xs[:-1]
        qs.append({"fn": fn, "how": "length", "xs": wrong, "index": None})
    return {"kind": "multi", "law": gen_law(rng, n), "maxLs": maxLs, "node_ids": ids, "n": n, "queries": qs}



# ------------------------------------------------------------------ sequences on one object / argument integrity
SEQ_MODIFIED = "binned-argument-modified"


def gen_seq(rng, table):
    """A SEQUENCE of look-ups on ONE Binned object (oracle only): every argument object is used for one or more calls in a
    row (a refused look-up, then the same object again with the offending entry corrected in place, then another
    function), primary / secondary look-ups interleaved, mixed signs, zeros; afterwards a second object that differs in
    K_p only (a second law object, or the K_p setter on the same law object)."""
    n = rng.choice([2, 3, 7, 20])
    law = gen_law(rng, n)
    M0 = gen_max(rng)
    case = {"kind": "seq", "table": table, "law": law, "n": n}
    if table == "multi":
        p = rng.choice([2, 3, 5])
        maxLs = [M0] + [rng.choice([0.5, 2.0, 1.3, 0.8, rng.uniform(0.05, 20)]) * M0 for _ in range(p - 1)]
        case.update(maxLs=maxLs, node_ids=rng.sample(range(1, 50), p), maxima_name=rng.choice([None, "my_maxima"]))
    else:
        p, maxLs = rng.choice([1, 3, 4]), None
        case.update(maxL=M0)
    if "Kp" in law:
        case.update(kp2=rng.choice([1.5, 2.2, 3.5, rng.uniform(1.3, 6)]), kp_mode=rng.choice(["two_laws", "setter"]))
        if case["kp2"] == law["Kp"]:
            case["kp2"] = law["Kp"] + 0.7
    tops = maxLs if table == "multi" else [M0] * p          # range of entry j on the primary tables

    def inside(j, fn, lo=0.0):
        f = 1.0 if fn in ("stress", "strain") else 2.0
        return rng.uniform(lo, 1.0) * f * tops[j] * rng.choice([1, -1])

    def arg_for(fn, out=None, out_kind="primary"):
        xs = [inside(j, fn) for j in range(p)]
        if p >= 2:
            xs[rng.randrange(p)] = rng.choice([0.0, -0.0])
            js = [j for j in range(p) if xs[j] != 0]
            xs[rng.choice(js)] = -abs(inside(rng.choice(js), fn, 0.05))         # at least one negative load
            xs = [x if x != 0 or j != out else 1.0 for j, x in enumerate(xs)]
        if out is not None:
            f = 1.0 if out_kind == "primary" else 2.0
            xs[out] = f * tops[out] * rng.choice([1 + 1e-9, rng.uniform(1.0001, 1.9)]) * rng.choice([1, -1])
        return xs

    def container():
        if table == "multi":
            return "series", multi_index(rng, case["node_ids"])
        if p == 1:
            return rng.choice(["float", "np_float", "array0d", "series", "array", "list"]), None
        c = rng.choice(["series", "series", "array", "list"])
        return c, (gen_index(rng, p, SINGLE_INDEX_KINDS) if c == "series" else None)

    steps = []
    for _ in range(rng.choice([3, 4, 5])):
        kind = rng.choice(["plain", "refused_fix", "refused_fix", "refused_other_fn", "refused_fresh"])
        c, idx = container()
        if kind == "plain":
            fns = rng.sample(FNS, rng.choice([2, 3, 4]))
            xs = arg_for("stress")
            calls = [{"fn": f} for f in fns]
        elif kind == "refused_fix":
            fn = rng.choice(FNS)
            j = rng.randrange(p)
            xs = arg_for(fn, j, "primary" if fn in ("stress", "strain") else "secondary")
            fixv = inside(j, fn, 0.3)
            calls = [{"fn": fn}, {"fn": fn, "fix": [[j, fixv]]},
                     {"fn": rng.choice(["stress2", "strain2"])}, {"fn": FNS[(FNS.index(fn) + 1) % 4] if fn in ("stress2", "strain2") and False else fn}]
        elif kind == "refused_other_fn":         # above max but inside 2 max: the primary look-up refuses, the secondary answers
            j = rng.randrange(p)
            xs = arg_for("stress", j, "primary")
            calls = [{"fn": rng.choice(["stress", "strain"])}, {"fn": "stress2"}, {"fn": "strain2"},
                     {"fn": "strain", "fix": [[j, -abs(inside(j, "stress", 0.2))]]}, {"fn": "stress"}]
        else:
            fn = rng.choice(FNS)
            xs = arg_for(fn, rng.randrange(p), "primary" if fn in ("stress", "strain") else "secondary")
            calls = [{"fn": fn}]
        if c in ("float", "np_float", "array0d"):
            calls = [dict(cl, fix=None) if cl.get("fix") else cl for cl in calls]     # immutable argument: a new one per fix
            calls = [cl for cl in calls if not ("fix" in cl and cl["fix"] is None)] or calls[:1]
        steps.append({"xs": xs, "container": c, "index": idx, "calls": calls})
        if kind == "refused_fresh":             # ... followed by fresh data on the same object
            c2, idx2 = container()
            steps.append({"xs": arg_for("stress"), "container": c2, "index": idx2, "calls": [{"fn": f} for f in rng.sample(FNS, 2)]})
    case["steps"] = steps
    return case


def seq_arg(xs, container, index):
    """a FRESH argument object holding the numbers xs"""
    xs = [float(x) for x in xs]
    if container == "series":
        return make_series(xs, index)
    if container == "array":
        return np.array(xs, dtype=float)
    if container == "list":
        return list(xs)
    if container == "np_float":
        return np.float64(xs[0])
    if container == "array0d":
        return np.array(xs[0])
    return xs[0]


def arg_diff(a, fresh):
    """None when the argument object `a` still holds what a fresh argument with the intended numbers holds - everything a
    later look-up / a later Binned built from the same object computes with: the VALUES (bit for bit as float64, so a dtype
    change that alters a value counts), their number and the INDEX (labels, order, level names); else a description.  A
    changed `.name` of a Series is outside the property (it changes no result) and only counted by the caller."""
    if isinstance(fresh, pd.Series):
        if not isinstance(a, pd.Series):
            return f"type {type(a).__name__} instead of Series"
        if type(a.index) is not type(fresh.index) or not a.index.equals(fresh.index) or list(a.index.names) != list(fresh.index.names):
            return f"index {list(a.index)[:6]!r} names {list(a.index.names)} instead of {list(fresh.index)[:6]!r} names {list(fresh.index.names)}"
        if len(a) != len(fresh) or a.to_numpy(dtype=float).tobytes() != fresh.to_numpy(dtype=float).tobytes():
            return f"values {a.tolist()!r} instead of {fresh.tolist()!r}"
        return None
    if isinstance(fresh, np.ndarray):
        if not isinstance(a, np.ndarray) or a.shape != fresh.shape or a.astype(float).tobytes() != fresh.astype(float).tobytes():
            return f"array {np.asarray(a).tolist()!r} instead of {fresh.tolist()!r}"
        return None
    if isinstance(fresh, list):
        if not isinstance(a, list) or len(a) != len(fresh) or any(f2h(x) != f2h(y) for x, y in zip(a, fresh)):
            return f"list {a!r} instead of {fresh!r}"
        return None
    return None if f2h(a) == f2h(fresh) else f"{a!r} instead of {fresh!r}"


def seq_objects(case, kp=None, law=None):
    """(Binned, law, maxima argument) built from FRESH objects; `law` given: reuse that law object (K_p setter mode)"""
    import pylife.materiallaws.notch_approximation_law as nal
    if law is None:
        spec = dict(case["law"], Kp=kp) if kp is not None else case["law"]
        law = make_law(spec)
    if case["table"] == "multi":
        mx = pd.Series([float(v) for v in case["maxLs"]], index=pd.Index(case["node_ids"], name="node_id"), name=case.get("maxima_name"))
    else:
        mx = float(case["maxL"])
    return nal.Binned(law, mx, case["n"]), law, mx


def tables_snapshot(b):
    return {fn: lut_of(b, fn) for fn in FNS}


# ------------------------------------------------------------------ the property
class C07(Prop):
    ID = "C07"
    SOURCES = SOURCES
    LEAN_MODULES = ["Proofs.C07", "Proofs.C07Neuber"]
    THEOREMS = [f"PylifeVerif.C07.{t}" for t in [
        "binned_upper_edge", "binned_range", "binned_on_edge", "binned_zero", "binned_out_of_range",
        "binned_never_underestimates", "binned_monotone", "binned_deviation_lt_one_class",
        "binned_multi_table_eq_single", "binned_multi_eq_single", "binned_multi_out_of_range",
        "binned_multi_first_point_eq_single_partial", "first_point_selection_ignores_range_of_other_points",
        "first_point_selection_wrong_class",
        # Proofs/C07Neuber.lean: the hypotheses "odd, monotone" discharged for the extended Neuber law (uses C06)
        "binned_neuber_consequences", "exists_isNeuberStress"]]
    PARTIAL = {
        "PylifeVerif.C07.binned_multi_first_point_eq_single_partial":
            "about the per-point look-up as coded BEFORE /repo commit 3047e0d (class and range check of "
            "the first point for all points): equal to the single look-ups only under `hprop` (loads proportional to the "
            "maxima); without it the statement is false (first_point_selection_ignores_range_of_other_points, "
            "first_point_selection_wrong_class).  The full statement is binned_multi_eq_single / binned_multi_out_of_range "
            "about the repaired look-up",
    }
    RULE = ("case = wrapped law (real ExtendedNeuber / SeegerBeste with random material, monotone stub) x maximum load(s) x bin "
            "count in {1,2,3,7,100,128} x look-ups (stress, strain, both branches; scalar, Series on one table, per-point Series "
            "on a per-point table) at 0, -0, every (sampled) class edge and its float neighbours (1 and 2 ulp), both signs, "
            "+-max, random interior loads, loads above the range, inf, NaN; Series with a RangeIndex, shuffled node ids, "
            "permuted positions, duplicate labels (one load_step), strings, floats, a (load_step, node_id) MultiIndex; "
            "per-point Series with the node ids in table order, in another order, unrelated labels ..., loads proportional "
            "to the maxima, free in every point's own range, on every point's own edges, exactly one point above its own "
            "range, one point without a load (NaN) at the first / a middle / the last position (oracle only), wrong length.  Correspondence: class edges of the real table vs the model's `(i/n)*max` within 2 ulp; every "
            "look-up of the real object vs the model's look-up on the real table's numbers, bit for bit (sign of zero "
            "dropped), `ValueError` vs `none`.  Oracle (no Lean): edges strictly increasing, within 2 ulp of the exact "
            "i*max/n, last edge = max resp. 2 max; table = wrapped law called on the edges (bit-exact); look-up = sign x value "
            "of the first class whose edge is >= |x| by a linear scan over the table's edges, per point in the point's own "
            "column; ValueError iff some load is above its own range; for all four functions never below the law, monotone, "
            "less than one class off; per-point table = single tables, per-point look-up = single look-ups; a point without a load "
            "(NaN) gets NaN, the other points get the values they get with a load at that point, no exception (4c5d9b2).  Non-trivial = "
            "every case with at least one successful and one rejected look-up.  Sequence cases (oracle only): several look-ups on one "
            "object with re-used argument objects (refused look-up, entry corrected in place, other functions, fresh data), "
            "argument integrity, fresh-object comparison, second object differing in K_p only")
    ASSUMPTIONS = [
        "C07: theorems are over an arbitrary linearly ordered field (exact arithmetic); the IEEE evaluation of the class edges "
        "is not modelled in the theorems - the checks require the real table's edges to be strictly increasing, within 2 ulp "
        "of the exact i*max/n (and of the model's (i/n)*max at Float) and to end exactly at max resp. 2 max, and the class "
        "selection on those doubles to agree bit for bit",
        "C07: np.searchsorted(side='left') on the increasing edge column is modelled as 'first index with edge >= |x|' "
        "(numpy contract); pandas iloc / boolean row selection / reshape of the class-major table as list indexing",
        "C07: the wrapped law is an arbitrary function in the theorems (monotone and odd for the consequence clauses; that the "
        "real laws are is C06/C16 material and checked here numerically only); its values at the edges are taken from the "
        "real table in the correspondence; that the table holds the wrapped law's values at the edges is checked by the "
        "oracle against a direct call of the law on the Series of edges",
        "C07: admissible configuration: number_of_bins >= 1, maximum load > 0 (all points).  Outside the property and not "
        "judged: NaN inside a Series on a single table (the code replaces it by 0; modelled by `fillna0` and compared in the "
        "correspondence), a scalar look-up on a per-point table (returns a "
        "meaningless number; not generated), a per-point Series whose length is not the number of points (code and model "
        "reject it; correspondence only)",
        "C07: a per-point Series in which a point has NO load (NaN; first / a middle / the last point, all four functions) is "
        "generated and judged by the ORACLE ONLY, as the behaviour /repo commit 4c5d9b2 defines (it restores, for every position, "
        "what the tree before 3047e0d did for a NaN behind the first point): NaN for exactly those points, for every other point "
        "the value of its own class - bit for bit what the same look-up gives with a load (zero, the point's maximum) in place of "
        "the NaN -, no exception unless another point is above its own range (ValueError).  Not in the Lean model (`lookupMulti` "
        "has no notion of a missing load) and left out of the correspondence on both sides; the property text does not mention NaN, "
        "so this is a reading recorded here (failure class binned-per-point-nan-load)",
        "C07: loads of a Series are paired with table rows / points BY POSITION, index labels are ignored: the anchored caller "
        "(FKMNonlinearDetector._proceed_on_secondary_branch) passes load ranges whose index has no node_id level at all, the "
        "doc string asks for a RangeIndex.  A per-point Series whose node_id labels are in another order than the table's is "
        "therefore read in Series order (decision recorded here; the property text does not mention labels)",
        "C07: sequences / argument integrity (oracle only, case kind `seq`): on one Binned object every argument object (python "
        "float, numpy scalar, 0-d array, array, list, Series; per-point Series on per-point tables) is used for several calls in "
        "a row - a refused look-up, the same object with the offending entry corrected in place, other functions - and must "
        "afterwards hold the intended VALUES (bit for bit as float64) and INDEX (labels, order, level names), whether the call "
        "returned or raised (class binned-argument-modified); likewise the maxima Series handed to the constructor; results "
        "must equal the upper-edge rule on the tables as built, a fresh object on fresh data, and the tables must not change "
        "(binned-sequence-value, binned-object-state-changed); a second object that differs in K_p only (second law object / "
        "K_p setter on the same law object) must hold the tables of ITS law.  Binned renames the caller's maxima Series to "
        "'max_abs_load' in place; a changed `.name` changes no result, is outside the property and only counted "
        "(stats argument_renamed)",
        "C07: the per-point look-up is modelled as REPAIRED by /repo commit 3047e0d (every point in its "
        "own column, own range check).  Before the repair the code took class and range check of the first point for all "
        "points: finding class binned-multi-first-point-class (fixed by 3047e0d), recognised only when the code's answer equals the "
        "first-point reproduction bit for bit (harness: oracle `first_point_repro`, correspondence: model "
        "`lookupMultiFirst`); the harness code that classifies this belongs to the trusted base",
    ]

    def __init__(self):
        self.stats = {}
        self.exhaustive = False
        self._cache = {}

    def _count(self, key, n=1):
        self.stats[key] = self.stats.get(key, 0) + n

    def _binned(self, case):
        key = json.dumps({k: case[k] for k in case if k != "queries"}, sort_keys=True)
        if key not in self._cache:
            if len(self._cache) > 64:
                self._cache.clear()
            try:
                self._cache[key] = make_binned(case)
            except Exception as e:     # noqa: BLE001
                self._cache[key] = e
        return self._cache[key]

    # -------------------------------------------------------------- generation
    def generate(self, rng, tier):
        big = tier != "quick"
        # every bin count with a real law and with the stub, single and per-point
        for n in BIN_COUNTS:
            for _ in range(5 if not big else 12):
                yield gen_single(rng, n, few=(n >= 100 and not big))
        for n in [1, 2, 3, 7, 100]:
            for _ in range(3 if not big else 8):
                yield gen_multi(rng, n)
        for _ in range(40 if not big else 300):
            yield gen_single(rng, few=not big)
        for _ in range(25 if not big else 200):
            yield gen_multi(rng)
        for _ in range(7 if not big else 50):       # sequences on one object, argument integrity, two objects differing in K_p
            yield gen_seq(rng, "multi")
            yield gen_seq(rng, "single")

    # -------------------------------------------------------------- correspondence
    def _xs(self, q):
        return [float(x) for x in q["xs"]]

    def _series(self, case, q):
        """the load Series of a query (index as recorded in the case; old corpus cases: node ids in table order)"""
        if case["kind"] == "multi" and "index" not in q:
            return pd.Series(self._xs(q), index=pd.Index(case["node_ids"], name="node_id"))
        return make_series(self._xs(q), q.get("index"))

    def model_lines(self, case):
        if case["kind"] == "seq":
            return []               # oracle only
        bl = self._binned(case)
        if isinstance(bl, Exception):
            return []
        b, _law = bl
        n = case["n"]
        lines = []
        if case["kind"] == "single":
            lines.append(f"c07.edges {n} {f2h(case['maxL'])} {n}")
            lines.append(f"c07.edges {n} {f2h(case['maxL'])} {2 * n}")
            for q in case["queries"]:
                loads, vals = lut_of(b, q["fn"])
                xs = " ".join(f2h(x) for x in self._xs(q))
                op = "c07.series" if q["form"] == "series" else "c07.lookup"
                lines.append(f"{op} {len(loads)} {' '.join(map(f2h, loads))} {' '.join(map(f2h, vals))} {xs}")
                if q["form"] == "series":
                    lines.append(f"c07.pos {len(loads)} {' '.join(map(f2h, loads))} {xs}")
        else:
            p = len(case["maxLs"])
            for M in case["maxLs"]:
                lines.append(f"c07.edges {n} {f2h(M)} {n}")
                lines.append(f"c07.edges {n} {f2h(M)} {2 * n}")
            for q in case["queries"]:
                if has_nan(q):
                    continue            # a point without a load: not in the Lean model, judged by the oracle only
                loads, vals = lut_of(b, q["fn"])
                m = len(loads) // p
                xs = " ".join(f2h(x) for x in self._xs(q))
                tab = f"{m} {p} {' '.join(map(f2h, loads))} {' '.join(map(f2h, vals))} {xs}"
                lines.append("c07.multi " + tab)
                lines.append("c07.multifirst " + tab)
        return lines

    def impl_lines(self, case):
        if case["kind"] == "seq":
            return []
        bl = self._binned(case)
        if isinstance(bl, Exception):
            self._count("construction_raises_" + type(bl).__name__)
            return []
        b, _law = bl
        n = case["n"]
        self._count(f"cases_{case['kind']}_{case['law']['type']}_n{n}")
        out = []
        if case["kind"] == "single":
            out.append(" ".join(f2h(v) for v in b._lut_primary_branch.load.to_numpy()))
            out.append(" ".join(f2h(v) for v in b._lut_secondary_branch.delta_load.to_numpy()))
            for q in case["queries"]:
                xs = self._xs(q)
                if q["form"] == "scalar":
                    r = call(b, q["fn"], xs[0])
                    self._count("scalar_" + ("value" if isinstance(r, list) else r))
                    out.append(r if isinstance(r, str) else " ".join(hz(v) for v in r))
                else:
                    r = call(b, q["fn"], self._series(case, q))
                    self._count("series_" + ("value" if isinstance(r, list) else r))
                    self._count("series_index_" + ((q.get("index") or {}).get("kind", "range")))
                    self._count("series_lookups", len(xs))
                    out.append(r if isinstance(r, str) else " ".join(hz(v) for v in r))
                    loads, _vals = lut_of(b, q["fn"])
                    out.append(" ".join(str(int(i)) for i in np.searchsorted(np.asarray(loads), np.abs(np.asarray(xs)))))
        else:
            p = len(case["maxLs"])
            ids = b._lut_primary_branch.index.get_level_values("node_id")
            for j in range(p):
                nid = ids[j]
                out.append(" ".join(f2h(v) for v in b._lut_primary_branch.load[ids == nid].to_numpy()))
                ids2 = b._lut_secondary_branch.index.get_level_values("node_id")
                out.append(" ".join(f2h(v) for v in b._lut_secondary_branch.delta_load[ids2 == nid].to_numpy()))
            for q in case["queries"]:
                if has_nan(q):
                    continue            # see model_lines
                r = call(b, q["fn"], self._series(case, q))
                self._count("multi_" + ("value" if isinstance(r, list) else r))
                self._count("multi_index_" + ((q.get("index") or {}).get("kind", "range" if "index" in q else "ids")))
                self._count("multi_how_" + q.get("how", "corpus"))
                a = r if isinstance(r, str) else " ".join(hz(v) for v in r)
                out += [a, a]
        return out

    def compare(self, case, model_out, impl_out):
        if len(model_out) != len(impl_out):
            return f"length {len(model_out)} vs {len(impl_out)}"
        nedge = 2 if case["kind"] == "single" else 2 * len(case["maxLs"])
        multi = case["kind"] == "multi"
        for i, (a, b) in enumerate(zip(model_out, impl_out)):
            if i < nedge:
                # class edges: the model evaluates `(i/n)*max` at Float; the property does not pin the expression
                ea, eb = [h2f(t) for t in a.split()], [h2f(t) for t in b.split()]
                if len(ea) != len(eb):
                    return f"line {i}: {len(ea)} model edges, {len(eb)} table rows"
                for k, (x, y) in enumerate(zip(ea, eb)):
                    if not (abs(x - y) <= 2 * math.ulp(x)):
                        return f"line {i}: class {k + 1}: model edge {x!r}, table load {y!r}"
                continue
            toks = [t if t == "ValueError" or len(t) != 16 else hz(h2f(t)) for t in a.split()]
            if multi:
                if (i - nedge) % 2 == 1:
                    continue                    # the `c07.multifirst` line is consulted from its `c07.multi` line only
                if " ".join(toks) == b:
                    continue
                first = [t if t == "ValueError" or len(t) != 16 else hz(h2f(t)) for t in model_out[i + 1].split()]
                if " ".join(first) == b:
                    # exactly the recorded pre-repair mechanism (class / range check of the first point for all points);
                    # the oracle reports the same look-up under the class binned-multi-first-point-class
                    self._count("corr_multi_first_point_mechanism")
                    continue
                return f"line {i}: model={' '.join(toks)[:300]!r} impl={b[:300]!r}"
            if b == "ValueError" and len(toks) > 1:
                # a Series holding one load above the range raises as a whole; the model answers per load
                if "ValueError" not in toks:
                    return f"line {i}: the Series look-up raised ValueError but the model rejects none of its loads"
                continue
            if " ".join(toks) != b:
                return f"line {i}: model={' '.join(toks)[:300]!r} impl={b[:300]!r}"
        return None

    def nontrivial(self, case, model_out):
        txt = " ".join(model_out)
        if "ValueError" in txt and any(len(t) == 16 for t in txt.split()):
            return json.dumps(case, sort_keys=True)
        return None

    # -------------------------------------------------------------- direct property oracle (real code only)
    def oracle(self, case):
        with warnings.catch_warnings():
            warnings.simplefilter("ignore")
            with np.errstate(all="ignore"):
                return self._oracle(case)

    def _oracle(self, case):
        if case["kind"] == "seq":
            return self._oracle_seq(case)
        n = case["n"]
        npts = 1 if case["kind"] == "single" else len(case["maxLs"])
        maxima = [case["maxL"]] if case["kind"] == "single" else case["maxLs"]
        if n < 1 or any(not (M > 0) for M in maxima):
            return None
        bl = self._binned(case)
        if isinstance(bl, Exception):
            # is it the wrapped law itself that fails on the column of edges (C06 material), or the binning?
            try:
                law = make_law(case["law"])
                for fn, m in (("strain", n), ("strain2", 2 * n)):
                    law_on(law, fn, pd.Series([e for i in range(1, m + 1) for e in [(float(i) / n) * float(M) for M in maxima]]))
            except Exception:      # noqa: BLE001
                self._count("wrapped_law_raises_on_edges")
                return None
            klass_ = "binned-single-class" if n * npts == 1 else "binned-construction"
            return (f"Binned(<{case['law']['type']}>, maximum load {case.get('maxL', case.get('maxLs'))!r}, number_of_bins={n}) "
                    f"raises {type(bl).__name__} at construction: {str(bl)[:100]}", klass_)
        b, law = bl
        exact_law = case["law"]["type"]          # "stub": exact; "neuber" / "sb": solver tolerances, see close_tab
        # ---- the tables: edges on the property's grid (within rounding), values = the wrapped law on the Series of edges
        ref = {}      # (fn, j) -> (edges of the real table, values)
        for fn in FNS:
            m = n if fn in ("stress", "strain") else 2 * n
            loads, vals = lut_of(b, fn)
            if len(loads) != m * npts:
                return (f"{fn}: table has {len(loads)} rows, expected {m} classes x {npts} points", "binned-table")
            for j, M in enumerate(maxima):
                lj, vj = loads[j::npts], vals[j::npts]
                d = check_edges(lj, n, M, m)
                if d:
                    return (f"{fn}: point {j}: {d} (n={n}, max={M!r})", "binned-edges")
                ref[(fn, j)] = (lj, vj)
            want = law_on(law, fn, pd.Series(loads))        # the wrapped law on the whole column of edges, as one call
            want = [float(v) for v in np.atleast_1d(np.asarray(want, dtype=float))]
            if want != vals and not all(same(a, c) for a, c in zip(want, vals)):
                k = next(i for i in range(len(vals)) if not same(want[i], vals[i]))
                return (f"{fn}: class {k // npts + 1} of point {k % npts} holds {vals[k]!r}, the wrapped law at the upper edge "
                        f"{loads[k]!r} gives {want[k]!r}", "binned-table-values")
        # ---- per-point tables = the tables each point gets alone
        singles = {}
        if case["kind"] == "multi":
            for j, M in enumerate(maxima):
                sc = {"kind": "single", "law": case["law"], "maxL": M, "n": n}
                sb = self._binned(sc)
                if isinstance(sb, Exception):
                    if n == 1:
                        continue            # reported through the single-table cases (class binned-single-class)
                    return (f"single table for point {j} raises {type(sb).__name__}", "binned-construction")
                singles[j] = sb[0]
                for fn in FNS:
                    ls, vs = lut_of(sb[0], fn)
                    es, vj = ref[(fn, j)]
                    m = len(es)
                    d = check_edges(ls, n, M, m) if len(ls) == m else f"{len(ls)} classes instead of {m}"
                    if d:
                        return (f"{fn}: single table of point {j}: {d}", "binned-edges")
                    same_edges = ls == es
                    if any(not close_tab(a, c, exact_law, fn, same_edges) for a, c in zip(vs, vj)):
                        return (f"{fn}: per-point table of point {j} differs from the table the point gets alone "
                                f"(max={M!r}, n={n})", "binned-multi-table")
        # ---- look-ups
        for q in case["queries"]:
            d = self._lookup_query(case, q, b, law, ref, singles, exact_law)
            if d and d[1] == FIRST_POINT:
                # hit rate of the recorded mechanism (unchanged tree before the repair, seed 1 quick: 1074 of 5450 per-point
                # look-ups; 0 after the repair) - lands in the evidence so that a jump is noticed
                self._count("oracle_first_point_mechanism_lookups")
            if d and not self.known(d[1], d[0]):
                return d
        return None

    # -------------------------------------------------------------- sequences on one object, argument integrity, K_p
    def _oracle_seq(self, case):
        multi = case["table"] == "multi"
        maxima = case["maxLs"] if multi else [case["maxL"]]
        npts = len(maxima)
        n = case["n"]
        try:
            b, law, mx = seq_objects(case)
        except Exception as e:      # noqa: BLE001   (construction failures are judged in the single / multi cases)
            self._count("seq_construction_raises_" + type(e).__name__)
            return None
        self._count(f"seq_cases_{case['table']}_{case['law']['type']}")
        tag = f"Binned(<{case['law']['type']}>, maxima {maxima!r}, n={n})"
        # ---- the maxima handed to the constructor are the caller's: unchanged
        if multi:
            fresh_mx = pd.Series([float(v) for v in maxima], index=pd.Index(case["node_ids"], name="node_id"), name=case.get("maxima_name"))
            d = arg_diff(mx, fresh_mx)
            if d:
                return (f"{tag}: the constructor changed the caller's maximum-load Series: {d}", SEQ_MODIFIED)
            if mx.name != fresh_mx.name:
                self._count("argument_renamed")      # outside the property, see ASSUMPTIONS
        tabs = tables_snapshot(b)
        ref = {(fn, j): (tabs[fn][0][j::npts] if multi else tabs[fn][0], tabs[fn][1][j::npts] if multi else tabs[fn][1])
               for fn in FNS for j in range(npts)}
        for fn in FNS:
            for j, M in enumerate(maxima):
                if check_edges(ref[(fn, j)][0], n, M, n if fn in ("stress", "strain") else 2 * n):
                    return None         # judged in the single / multi cases
        done = []       # successful look-ups, replayed on a fresh object with fresh data afterwards
        for si, st in enumerate(case["steps"]):
            xs = [float(x) for x in st["xs"]]
            arg = seq_arg(xs, st["container"], st.get("index"))
            for ci, cl in enumerate(st["calls"]):
                for j, v in (cl.get("fix") or []):
                    xs[j] = float(v)
                    if isinstance(arg, pd.Series):
                        arg.iloc[j] = float(v)
                    elif isinstance(arg, (list, np.ndarray)) and np.ndim(arg) == 1:
                        arg[j] = float(v)
                    else:
                        arg = seq_arg(xs, st["container"], st.get("index"))
                fn = cl["fn"]
                r = call(b, fn, arg)
                where = (f"{tag}, step {si + 1} call {ci + 1}: {fn}({st['container']} {xs!r}"
                         f"{', index ' + (st.get('index') or {}).get('kind', 'range') if st['container'] == 'series' else ''})"
                         f"{' [same argument object as the call before' + (', entries corrected in place' if cl.get('fix') else '') + ']' if ci else ''}")
                self._count("seq_calls")
                # (1) the argument is the caller's: unchanged, whether the call returned or raised
                fresh_arg = seq_arg(xs, st["container"], st.get("index"))
                if isinstance(arg, pd.Series) and arg.name != fresh_arg.name:
                    self._count("argument_renamed")
                d = arg_diff(arg, fresh_arg)
                if d:
                    return (f"{where} {'raised ' + r if isinstance(r, str) else 'returned'} and left the caller's argument changed: {d}",
                            SEQ_MODIFIED)
                # (2) the result does not depend on what the object / the argument went through before
                ks = [klass(ref[(fn, j if multi else 0)][0], x) for j, x in enumerate(xs)]
                if any(k is None for k in ks):
                    self._count("seq_refused")
                    if r != "ValueError":
                        return (f"{where}: a load is above its range, the look-up "
                                f"{'raised ' + r if isinstance(r, str) else 'returned ' + repr(r)} instead of ValueError", "binned-out-of-range")
                    continue
                want = [sign(x) * ref[(fn, j if multi else 0)][1][k] for j, (x, k) in enumerate(zip(xs, ks))]
                if isinstance(r, str):
                    return (f"{where}: every load inside its range, the look-up raised {r}", "binned-in-range-error")
                if len(r) != len(want) or any(not same(a, c) for a, c in zip(r, want)):
                    return (f"{where} returned {r!r}; upper edge of every load's class with the sign of the load gives {want!r}",
                            "binned-sequence-value")
                done.append((where, fn, list(xs), st["container"], st.get("index"), r))
        # ---- the object itself: tables untouched by the look-ups
        if tables_snapshot(b) != tabs and not all(all(same(a, c) for a, c in zip(x1, x2)) for fn in FNS for x1, x2 in zip(tables_snapshot(b)[fn], tabs[fn])):
            return (f"{tag}: the look-up tables changed during the sequence of look-ups", "binned-object-state-changed")
        # ---- a fresh object on fresh data gives the same
        try:
            bf, _lawf, _mxf = seq_objects(case)
        except Exception:           # noqa: BLE001
            bf = None
        if bf is not None:
            for where, fn, xs, cont, idx, r in done:
                rf = call(bf, fn, seq_arg(xs, cont, idx))
                if isinstance(rf, str) or len(rf) != len(r) or any(not same(a, c) for a, c in zip(r, rf)):
                    return (f"{where} returned {r!r}; a fresh Binned object on fresh data gives {rf!r}", "binned-sequence-value")
        # ---- a second object that differs in K_p only, built after the first (second law object / K_p setter)
        if "kp2" in case:
            kp1, kp2 = case["law"]["Kp"], case["kp2"]
            try:
                if case["kp_mode"] == "setter":
                    law.K_p = kp2
                    b2, law2, _ = seq_objects(case, law=law)
                else:
                    b2, law2, _ = seq_objects(case, kp=kp2)
            except Exception as e:  # noqa: BLE001
                self._count("seq_construction_raises_" + type(e).__name__)
                return None
            self._count("seq_second_object_" + case["kp_mode"])
            lawref = make_law(dict(case["law"], Kp=kp2))
            for fn in FNS:
                loads, vals = lut_of(b2, fn)
                want = [float(v) for v in np.atleast_1d(np.asarray(law_on(lawref, fn, pd.Series(loads)), dtype=float))]
                if len(want) != len(vals) or any(not same(a, c) for a, c in zip(want, vals)):
                    k = next((i for i in range(min(len(vals), len(want))) if not same(want[i], vals[i])), 0)
                    return (f"{tag}: second object with K_p = {kp2!r} ({case['kp_mode']}) built after one with K_p = {kp1!r}: {fn} table "
                            f"holds {vals[k]!r} at the edge {loads[k]!r}, the wrapped law with K_p = {kp2!r} gives {want[k]!r}"
                            f"{' (= the FIRST object\'s table)' if vals == tabs[fn][1] else ''}", "binned-table-values")
            now = tables_snapshot(b)
            if not all(all(same(a, c) for a, c in zip(x1, x2)) for fn in FNS for x1, x2 in zip(now[fn], tabs[fn])):
                return (f"{tag}: the tables of the first object (K_p = {kp1!r}) changed when the second object (K_p = {kp2!r}, "
                        f"{case['kp_mode']}) was built", "binned-object-state-changed")
            for where, fn, xs, cont, idx, r in done[:3]:
                r1 = call(b, fn, seq_arg(xs, cont, idx))
                if isinstance(r1, str) or any(not same(a, c) for a, c in zip(r, r1)):
                    return (f"{where} returned {r!r} before and {r1!r} after a second object with K_p = {kp2!r} was built",
                            "binned-object-state-changed")
        return None

    def _lookup_query(self, case, q, b, law, ref, singles, exact_law):
        fn = q["fn"]
        xs = self._xs(q)
        if case["kind"] == "single":
            if q["form"] == "scalar" and xs[0] != xs[0]:
                r = call(b, fn, xs[0])
                if isinstance(r, list):
                    return (f"{fn}(nan) returned {r!r}", "binned-out-of-range")
                return None
            es, vs = ref[(fn, 0)]
            r = call(b, fn, xs[0] if q["form"] == "scalar" else self._series(case, q))
            keep = [i for i, x in enumerate(xs) if x == x]          # NaN inside a Series: outside the property
            if len(keep) != len(xs):
                if isinstance(r, list) and len(r) == len(xs):
                    r = [r[i] for i in keep]
                xs = [xs[i] for i in keep]
            exp = []
            for x in xs:
                k = klass(es, x)
                exp.append(None if k is None else (k, sign(x) * vs[k]))
            return self._judge(case, q, fn, xs, exp, r, es, vs, law, exact_law)
        # ---- per-point Series on a per-point table
        npts = len(case["maxLs"])
        if len(xs) != npts:
            return None             # not one load per point: outside the property (correspondence: both reject)
        if any(x != x for x in xs):
            return self._nan_point_query(case, q, b, ref)
        r = call(b, fn, self._series(case, q))
        ks = [klass(ref[(fn, j)][0], x) for j, x in enumerate(xs)]
        repro = first_point_repro(ref, fn, xs)
        idx = (q.get("index") or {}).get("kind", "ids")
        what = f"{fn}: per-point look-up {xs!r} (maxima {case['maxLs']!r}, n={case['n']}, index {idx})"
        if any(k is None for k in ks):
            j = next(j for j, k in enumerate(ks) if k is None)
            if r == "ValueError":
                return None
            d = (f"{what}: point {j} has load {xs[j]!r} above its own range {ref[(fn, j)][0][-1]!r}, the look-up "
                 f"{'raised ' + r if isinstance(r, str) else 'returned ' + repr(r)} instead of ValueError")
            if isinstance(r, list) and isinstance(repro, list) and len(r) == len(repro) and all(same(a, c) for a, c in zip(r, repro)):
                return (d + " (= the values of the first point's class: the range check looks at the first point only)", FIRST_POINT)
            return (d, "binned-out-of-range")
        want = [sign(x) * ref[(fn, j)][1][k] for j, (x, k) in enumerate(zip(xs, ks))]
        if isinstance(r, str):
            return (f"{what}: every point inside its own range, the look-up raised {r}", "binned-in-range-error")
        if len(r) != len(want) or any(not same(a, c) for a, c in zip(r, want)):
            d = (f"{what} returned {r!r}; upper edge of every point's own class (classes {[k + 1 for k in ks]}) gives {want!r}")
            if isinstance(repro, list) and len(r) == len(repro) and all(same(a, c) for a, c in zip(r, repro)):
                return (d + f" (= class {klass(ref[(fn, 0)][0], xs[0]) + 1} of the FIRST point for all points)", FIRST_POINT)
            return (d, "binned-upper-edge")
        for j, x in enumerate(xs):
            if j not in singles:
                continue
            rs = call(singles[j], fn, x)
            same_edges = lut_of(singles[j], fn)[0] == ref[(fn, j)][0]
            if not same_edges and any(abs(abs(x) - e) <= 4 * math.ulp(e) for e in ref[(fn, j)][0]):
                continue        # the two constructors round an edge differently: a load next to it may fall on either side
            if isinstance(rs, str) or not close_tab(rs[0], r[j], exact_law, fn, same_edges):
                return (f"{what} gives {r[j]!r} for point {j} (load {x!r}), the point's own table gives {rs!r}",
                        "binned-multi-lookup")
        return None

    def _nan_point_query(self, case, q, b, ref):
        """A per-point Series in which some points have NO load (NaN), /repo commit 4c5d9b2: those points get NaN, every other
        point gets the value of its own class as if the NaN points were not there, nothing is raised - unless one of the
        other points is above its own range (ValueError as for every look-up).  Oracle only (not in the Lean model)."""
        fn, xs = q["fn"], self._xs(q)
        nanpos = [j for j, x in enumerate(xs) if x != x]
        self._count("oracle_nan_point_lookups")
        r = call(b, fn, self._series(case, q))
        ks = [None if x != x else klass(ref[(fn, j)][0], x) for j, x in enumerate(xs)]
        idx = (q.get("index") or {}).get("kind", "ids")
        what = (f"{fn}: per-point look-up {xs!r} with no load (NaN) at point(s) {nanpos} (maxima {case['maxLs']!r}, n={case['n']}, "
                f"index {idx})")
        out = [j for j, x in enumerate(xs) if x == x and ks[j] is None]
        if out:
            if r == "ValueError":
                return None
            return (f"{what}: point {out[0]} has load {xs[out[0]]!r} above its own range {ref[(fn, out[0])][0][-1]!r}, the look-up "
                    f"{'raised ' + r if isinstance(r, str) else 'returned ' + repr(r)} instead of ValueError", "binned-out-of-range")
        if isinstance(r, str):
            return (f"{what}: every point that has a load is inside its own range, the look-up raised {r} instead of giving NaN "
                    f"for the point(s) without a load and values for the others", "binned-per-point-nan-load")
        want = [math.nan if x != x else sign(x) * ref[(fn, j)][1][ks[j]] for j, x in enumerate(xs)]
        if len(r) != len(want) or any(not same(a, c) for a, c in zip(r, want)):
            return (f"{what} returned {r!r}; NaN at exactly the point(s) without a load and the upper edge of every other point's "
                    f"own class gives {want!r}", "binned-per-point-nan-load")
        # the other points do not feel the point without a load: the same look-up with a load at that point (zero / its maximum)
        for fill in (0.0, None):
            xs2 = [(ref[(fn, j)][0][-1] if fill is None else fill) if x != x else x for j, x in enumerate(xs)]
            r2 = call(b, fn, make_series(xs2, q.get("index")) if "index" in q
                      else pd.Series(xs2, index=pd.Index(case["node_ids"], name="node_id")))
            if isinstance(r2, str) or len(r2) != len(r) or any(not same(r2[j], r[j]) for j in range(len(xs)) if j not in nanpos):
                return (f"{what} returned {r!r}, with the load {xs2[nanpos[0]]!r} at point {nanpos[0]} instead "
                        f"{'it raised ' + r2 if isinstance(r2, str) else 'it returned ' + repr(r2)}: the other points' values changed",
                        "binned-per-point-nan-load")
        self._count("oracle_nan_point_values", len(xs) - len(nanpos))
        return None

    def _judge(self, case, q, fn, xs, exp, r, es, vs, law, exact_law):
        n = case["n"]
        idx = (q.get("index") or {}).get("kind", "range")
        form = q["form"] + (f" (index {idx})" if q["form"] == "series" else "")
        if any(e is None for e in exp):
            if r != "ValueError":
                bad = next(x for x, e in zip(xs, exp) if e is None)
                return (f"{fn} {form}: load {bad!r} above the initialised range {es[-1]!r} (n={n}) "
                        f"{'raised ' + r if isinstance(r, str) else 'returned ' + repr(r)} instead of ValueError", "binned-out-of-range")
            return None
        if isinstance(r, str):
            return (f"{fn} {form}: look-up of {xs[:4]!r} inside the range raised {r} (max class edge {es[-1]!r})", "binned-in-range-error")
        if len(r) != len(xs):
            return (f"{fn} {form}: {len(xs)} loads, {len(r)} results", "binned-upper-edge")
        for x, (k, want), got in zip(xs, exp, r):
            if not same(got, want):
                return (f"{fn}({x!r}) {form} = {got!r}; upper-edge rule: class {k + 1} (edges {es[k - 1] if k else 0.0!r} < |x| <= {es[k]!r}) "
                        f"gives {want!r} (n={n}, max={case['maxL']!r})", "binned-upper-edge")
        # consequences, all four functions, against the wrapped law itself at |x| (one vectorised call)
        nz = [(x, k, got) for x, (k, _w), got in zip(xs, exp, r) if x != 0 and math.isfinite(x)]
        if nz:
            # the real laws are solved to rtol = tol = 1e-4 (array Newton stops when all elements converged); a strain
            # amplifies a stress error by at most 1/n' <= 10
            tol, atol = solver_tol(exact_law, fn)
            if any(not (c >= a) for a, c in zip([0.0] + vs, vs)):
                # the consequence clauses are about a monotone odd wrapped law (theorem hypotheses); a law whose solver
                # returns non-monotone values on the column of edges is C06 material
                self._count("law_not_monotone_on_edges")
                return None
            try:
                exact = law_on(law, fn, pd.Series([abs(x) for x, _k, _g in nz]))
                exact = [float(v) for v in np.atleast_1d(np.asarray(exact, dtype=float))]
            except RuntimeError:        # the wrapped law's own solver gave up: nothing to compare with
                self._count("law_solver_raises")
                exact = None
            if exact is not None:
                self._count("consequence_values_" + fn, len(nz))
                for (x, k, got), ex in zip(nz, exact):
                    if ex != ex:
                        continue
                    if abs(got) < ex - tol * ex - atol:
                        return (f"{fn}({x!r}) = {got!r} under-estimates the wrapped law's {ex!r}", "binned-underestimates")
                    lower = vs[k - 1] if k else 0.0
                    if abs(abs(got) - ex) > (vs[k] - lower) + tol * ex + atol:
                        return (f"{fn}({x!r}) = {got!r} deviates from the wrapped law's {ex!r} by more than one class "
                                f"({vs[k] - lower!r})", "binned-deviation")
            pairs = sorted(zip(xs, r))
            for (x1, y1), (x2, y2) in zip(pairs, pairs[1:]):
                if y2 < y1 - tol * abs(y1) - atol:
                    return (f"{fn} not monotone: {fn}({x1!r}) = {y1!r} > {fn}({x2!r}) = {y2!r}", "binned-monotone")
        return None

    # -------------------------------------------------------------- shrinking
    def shrink(self, case, still_fails):
        if case.get("kind") == "seq":
            cur = dict(case)
            changed = True
            while changed and len(cur["steps"]) > 1:
                changed = False
                for i in range(len(cur["steps"])):
                    cand = dict(cur, steps=cur["steps"][:i] + cur["steps"][i + 1:])
                    try:
                        if still_fails(cand):
                            cur, changed = cand, True
                            break
                    except Exception:     # noqa: BLE001
                        continue
            return cur
        cur = dict(case)
        qs = list(cur.get("queries", []))
        changed = True
        while changed and len(qs) > 0:
            changed = False
            for i in range(len(qs)):
                cand = dict(cur, queries=qs[:i] + qs[i + 1:])
                try:
                    if still_fails(cand):
                        qs = cand["queries"]
                        cur = cand
                        changed = True
                        break
                except Exception:     # noqa: BLE001
                    continue
        if len(qs) == 1 and cur["kind"] == "single" and len(qs[0]["xs"]) > 1 and not qs[0].get("index"):
            q = qs[0]
            for x in q["xs"]:
                cand = dict(cur, queries=[dict(q, xs=[x])])
                try:
                    if still_fails(cand):
                        return cand
                except Exception:     # noqa: BLE001
                    continue
        return cur


def first_point_repro(ref, fn, xs):
    """The per-point look-up as coded before /repo commit 3047e0d, reproduced on the real table's
    numbers: class of the FIRST point's load in the first point's column for all points, range check for the first point
    only.  Used only to recognise the recorded finding by its mechanism."""
    k0 = klass(ref[(fn, 0)][0], xs[0])
    if k0 is None:
        return "ValueError"
    return [sign(x) * ref[(fn, j)][1][k0] for j, x in enumerate(xs)]


def same(a, b):
    return a == b or (a != a and b != b)


def has_nan(q):
    """a query holding a NaN load (`"nan"` in the recorded case)"""
    return any(float(x) != float(x) for x in q["xs"])


def solver_tol(law_type, fn):
    """(relative, absolute) tolerance of a wrapped law's value against another call of the same law.  stub: exact.
    ExtendedNeuber: the array Newton iteration stops when ALL elements have converged, so a value depends on its
    companions within the solver tolerance rtol = tol = 1e-4; a strain amplifies a stress error by at most 1/n' <= 10.
    SeegerBeste (per-element bisection, /repo commits b50f603 + 8e3c607): a value does
    not depend on its companions - two calls at the same load agree bit for bit (close_tab) - and is within 5 % of
    tol + rtol |x| of the root: values at DIFFERENT loads (consequence clauses) carry twice that, 1e-5 (1 + |stress|), a strain
    ten times the relative part.  Measured over the quick tier, seeds 1-3: deviation between two calls 0.0, largest
    under-estimate 3e-16 relative (the former tolerance 3e-3 / 3e-2 dated from the vectorised secant iteration)."""
    if law_type == "stub":
        return 0.0, 0.0
    if law_type == "sb":
        return (1e-5, 1e-5) if "stress" in fn else (1e-4, 1e-8)
    if "stress" in fn:
        return 3e-4, 3e-4
    return 3e-3, 1e-8


def close_tab(a, b, law_type, fn, same_edges=True):
    """Equality of table values computed by separate vectorised solver calls (see solver_tol).  Exact for the stub law and
    the Seeger-Beste law on bit-identical edges (within rounding when the two constructors produce edges that differ in the last place)."""
    if law_type in ("stub", "sb"):      # Seeger-Beste: every element is solved on its own, see solver_tol
        return same(a, b) if same_edges else abs(a - b) <= 1e-12 * abs(b)
    rtol, atol = solver_tol(law_type, fn)
    return abs(a - b) <= rtol * abs(b) + atol
