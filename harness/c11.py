"""C11: Miner damage is linear; Gassner cycles give damage one; effective damage sum in [0.3, 1].

Implementation side (real pylife, in-process), generators, correspondence with the Lean model
(lean/Model/Miner.lean through the `mn_*` ops of the compiled driver) and the direct property oracle."""
import itertools
import json
import math
import os
import traceback
import warnings

import numpy as np
import pandas as pd

from . import core
from .core import Prop, f2h, h2f

SOURCES = [
    "src/pylife/strength/miner.py",
    "src/pylife/strength/solidity.py",
    "src/pylife/strength/fatigue.py",
    "src/pylife/materiallaws/woehlercurve.py",
    "src/pylife/stress/collective/load_histogram.py",
    "src/pylife/stress/collective/load_collective.py",
]

_PL = None


def pl():
    """Import the real implementation lazily (PYLIFE_REPO is honoured by harness.main)."""
    global _PL
    if _PL is None:
        import pylife.strength.miner as miner
        import pylife.strength.solidity as sol
        import pylife.strength.fatigue  # noqa: F401  registers the accessors
        import pylife.stress            # noqa: F401
        _PL = (miner, sol)
    return _PL


# ------------------------------------------------------------------ the case -> pandas objects
def k2_of(curve):
    return math.inf if curve["k_2"] == "inf" else float(curve["k_2"])


def curve_series(curve):
    d = {"k_1": float(curve["k_1"]), "ND": float(curve["ND"]), "SD": float(curve["SD"])}
    if curve["k_2"] != "absent":
        d["k_2"] = k2_of(curve)
    for k in ("TN", "TS", "failure_probability"):
        if k in curve:
            d[k] = float(curve[k])
    return pd.Series(d)


def scatter_of(curve):
    """(TN, TS, pf) as `_validate` fills them in."""
    k1 = float(curve["k_1"])
    tn, ts = curve.get("TN"), curve.get("TS")
    if tn is None and ts is None:
        tn, ts = 1.0, 1.0
    elif ts is None:
        ts = float(tn) ** (1.0 / k1)
    elif tn is None:
        tn = float(ts) ** k1
    return float(tn), float(ts), float(curve.get("failure_probability", 0.5))


def shifted(curve):
    """True when the 50 % curve differs from the native one."""
    tn, ts, pf = scatter_of(curve)
    return pf != 0.5 and (tn != 1.0 or ts != 1.0)


def sd50(curve):
    """Knee of the 50 % curve by the textbook formula SD_50 = SD * TS**(z_50 - z_pf)/(z_90 - z_10)
    (independent of woehlercurve.py; used for statistics and for classifying failures only)."""
    from scipy.stats import norm
    tn, ts, pf = scatter_of(curve)
    if pf == 0.5 or ts == 1.0:
        return float(curve["SD"])
    return float(curve["SD"]) * ts ** ((norm.ppf(0.5) - norm.ppf(pf)) / (norm.ppf(0.9) - norm.ppf(0.1)))


def curve_tokens(curve):
    """The 7 tokens `k_1 k_2 SD ND TN TS failure_probability` of the driver protocol (`-` = key missing)."""
    k2 = math.inf if curve["k_2"] in ("absent", "inf") else float(curve["k_2"])
    toks = [f2h(curve["k_1"]), f2h(k2), f2h(curve["SD"]), f2h(curve["ND"])]
    for k in ("TN", "TS", "failure_probability"):
        toks.append(f2h(curve[k]) if k in curve else "-")
    return " ".join(toks)


def ref_amplitudes(case, members=None):
    """Amplitude of every member as the documentation of the collective classes defines it (class mid /
    left / right of the range, halved; |from - to| / 2), after scaling by case['scale'].  All generated
    numbers are dyadic, so this is exact whatever the order of the operations."""
    f = float(case.get("scale", 1.0))
    loc = case.get("loc", "mid")
    out = []
    for m in (case["members"] if members is None else members):
        kind = case["kind"]
        if kind in ("range", "range_mean"):
            lo, hi = m[0] * f, m[1] * f
            r = {"mid": 0.5 * (lo + hi), "left": lo, "right": hi}[loc]
            out.append(r / 2.0)
        elif kind == "from_to":
            fl, fr, tl, tr = (x * f for x in m[:4])
            a, b = {"mid": (0.5 * (fl + fr), 0.5 * (tl + tr)), "left": (fl, tl), "right": (fr, tr)}[loc]
            out.append(abs(a - b) / 2.0)
        elif kind == "collective":
            out.append(abs(m[0] * f - m[1] * f) / 2.0)
        elif kind == "collective_rm":
            rng, mean = m[0], m[1]
            fr, to = (mean - rng / 2.0) * f, (mean + rng / 2.0) * f
            out.append(abs(fr - to) / 2.0)
        else:
            raise ValueError(kind)
    return out


def build(case, members=None, counts=None):
    """The accessor object (LoadHistogram / LoadCollective) of the real implementation."""
    pl()
    members = case["members"] if members is None else members
    counts = case["counts"] if counts is None else counts
    kind = case["kind"]
    f = float(case.get("scale", 1.0))
    loc = case.get("loc", "mid")
    if kind in ("range", "range_mean", "from_to"):
        cnt = np.asarray(counts, dtype=np.float64)
        if kind == "range":
            idx = pd.IntervalIndex.from_arrays([m[0] for m in members], [m[1] for m in members], name="range")
        elif kind == "range_mean":
            idx = pd.MultiIndex.from_arrays([
                pd.IntervalIndex.from_arrays([m[0] for m in members], [m[1] for m in members]),
                pd.IntervalIndex.from_arrays([m[2] for m in members], [m[3] for m in members])], names=["range", "mean"])
        else:
            idx = pd.MultiIndex.from_arrays([
                pd.IntervalIndex.from_arrays([m[0] for m in members], [m[1] for m in members]),
                pd.IntervalIndex.from_arrays([m[2] for m in members], [m[3] for m in members])], names=["from", "to"])
        acc = pd.Series(cnt, index=idx, name="cycles").load_collective
        if f != 1.0:
            if kind == "range":   # scale() needs a MultiIndex; a one-level histogram is scaled by its class limits
                idx = pd.IntervalIndex.from_arrays([m[0] * f for m in members], [m[1] * f for m in members], name="range")
                acc = pd.Series(cnt, index=idx, name="cycles").load_collective
            else:
                acc = acc.scale(f)
        if loc == "left":
            acc = acc.use_class_left()
        elif loc == "right":
            acc = acc.use_class_right()
        return acc
    if kind == "collective":
        df = pd.DataFrame({"from": [float(m[0]) for m in members], "to": [float(m[1]) for m in members]})
    else:
        df = pd.DataFrame({"range": [float(m[0]) for m in members], "mean": [float(m[1]) for m in members]})
    if counts is not None and not case.get("unit_cycles"):
        df["cycles"] = np.asarray(counts, dtype=np.float64)
    acc = df.load_collective
    if f != 1.0:
        acc = acc.scale(f)
    return acc


def eff_counts(case, counts=None):
    counts = case["counts"] if counts is None else counts
    if case["kind"] in ("collective", "collective_rm") and case.get("unit_cycles"):
        return [1.0] * len(case["members"])
    return [float(c) for c in counts]


def degenerate(amps, counts):
    occ = [a for a, n in zip(amps, counts) if n > 0]
    return (not occ) or not (max(occ) > 0)


def with_counts(case, counts):
    c = dict(case)
    c["counts"] = list(counts)
    c.pop("unit_cycles", None)
    return c


def fnum(x):
    return float(np.asarray(x, dtype=np.float64).reshape(-1)[0]) if np.ndim(x) else float(x)


# ------------------------------------------------------------------ generators
K1S = [1.0, 1.5, 3.0, 4.0, 5.0, 6.0, 7.0, 10.5, 15.0]
NDS = [1e4, 1e5, 1e6, 2e6, 1e7, 1e8, 123456.0]


def sd_positions(amps, counts):
    """Candidate endurance limits relative to the class amplitudes: (label, SD)."""
    pos = sorted(set(a for a in amps if a > 0))
    out = []
    if not pos:
        return [("free", 100.0)]
    out.append(("below-all", pos[0] / 2.0))
    out.append(("above-all", pos[-1] * 2.0))
    for a in pos:
        out.append(("at-class", a))
    for a, b in zip(pos, pos[1:]):
        out.append(("between", 0.5 * (a + b)))
    occ = sorted(a for a, n in zip(amps, counts) if n > 0 and a > 0)
    if occ and occ[-1] < pos[-1]:
        out.append(("in-empty-top", 0.5 * (occ[-1] + pos[-1])))
    return out


def dy(rng, lo, hi, q=4):
    """A dyadic number (multiple of 1/q) in [lo, hi]."""
    return rng.randint(int(lo * q), int(hi * q)) / q


def gen_members(rng, kind, m):
    shape = rng.choice(["regular", "irregular", "gaps"])
    if shape == "regular":
        w = dy(rng, 1, 200)
        start = dy(rng, 0, 100)
        brk = [start + i * w for i in range(m + 1)]
    else:
        brk = [dy(rng, 0, 100)]
        for _ in range(m):
            brk.append(brk[-1] + dy(rng, 0.25, 300))
    ivs = [[brk[i], brk[i + 1]] for i in range(m)]
    if shape == "gaps":
        ivs = [[a, a + (b - a) * rng.choice([0.25, 0.5, 1.0])] for a, b in ivs]
    if kind == "range":
        mem = ivs
    elif kind == "range_mean":
        mem = []
        for iv in ivs:
            ml = dy(rng, -200, 200)
            mem.append(iv + [ml, ml + dy(rng, 0.25, 100)])
    elif kind == "from_to":
        mem = []
        for _ in range(m):
            fl, tl = dy(rng, -500, 500), dy(rng, -500, 500)
            w1, w2 = dy(rng, 0.25, 100), dy(rng, 0.25, 100)
            mem.append([fl, fl + w1, tl, tl + w2])
        if rng.random() < 0.3:   # a class on the diagonal: amplitude 0
            mem[rng.randrange(m)] = [10.0, 20.0, 10.0, 20.0]
    elif kind == "collective":
        mem = [[dy(rng, -800, 800), dy(rng, -800, 800)] for _ in range(m)]
    else:
        mem = [[dy(rng, 0, 1500), dy(rng, -300, 300)] for _ in range(m)]
    if rng.random() < 0.35:
        rng.shuffle(mem)     # member order is free
    return mem, shape


def gen_counts(rng, amps, m):
    big = rng.choice([10, 1000, 10 ** 6, 10 ** 7])
    counts = [float(rng.randint(1, big)) if rng.random() < 0.8 else rng.randint(1, 4 * big) / 4.0 for _ in range(m)]
    pattern = rng.choice(["none", "top", "bottom", "middle", "top+bottom", "sparse", "single", "top2"])
    order = sorted(range(m), key=lambda i: amps[i])
    if pattern == "top":
        counts[order[-1]] = 0.0
    elif pattern == "top2":
        for i in order[-2:]:
            counts[i] = 0.0
    elif pattern == "bottom":
        counts[order[0]] = 0.0
    elif pattern == "middle" and m >= 3:
        counts[order[rng.randrange(1, m - 1)]] = 0.0
    elif pattern == "top+bottom":
        counts[order[0]] = 0.0
        counts[order[-1]] = 0.0
    elif pattern == "sparse":
        counts = [c if rng.random() < 0.4 else 0.0 for c in counts]
    elif pattern == "single":
        keep = rng.randrange(m)
        counts = [c if i == keep else 0.0 for i, c in enumerate(counts)]
    return counts, pattern


def gen_curve(rng, amps, counts):
    k1 = rng.choice(K1S) if rng.random() < 0.7 else round(rng.uniform(1.0, 15.0), 3)
    mode = rng.choice(["inf", "inf", "absent", "k1", "haibach", "other"])
    k2 = {"inf": "inf", "absent": "absent", "k1": k1, "haibach": 2.0 * k1 - 1.0,
          "other": round(k1 + rng.uniform(0.0, 20.0), 3)}[mode]
    label, sd = rng.choice(sd_positions(amps, counts))
    if rng.random() < 0.25:
        label, sd = "free", dy(rng, 20, 1500)
    c = {"k_1": k1, "k_2": k2, "SD": sd, "ND": rng.choice(NDS)}
    r = rng.random()
    if r < 0.5:          # scatter and a native failure probability: the code then works on the curve shifted to 50 %
        which = rng.choice(["TN", "TN", "TS", "both", "both", "both"])
        if which in ("TN", "both"):
            c["TN"] = rng.choice([1.0, 3.0, 4.0, 12.5, 2.5])
        if which in ("TS", "both"):
            c["TS"] = rng.choice([1.0, 1.0, 1.25, 1.5, 2.0, 1.1])
        if rng.random() < 0.85:
            c["failure_probability"] = rng.choice([0.1, 0.1, 0.9, 0.9, 0.025, 0.5, 0.975, 0.3])
    elif r < 0.6:
        c["failure_probability"] = rng.choice([0.1, 0.9, 0.5])     # no scatter: the shift is the identity
    return c, label, mode


def random_case(rng, tier):
    kind = rng.choice(["range", "range", "range", "range_mean", "from_to", "collective", "collective_rm"])
    sizes = [1, 2, 3, 4, 5, 8, 12] if tier == "quick" else [1, 2, 3, 4, 5, 8, 12, 32, 64]
    m = rng.choice(sizes)
    members, shape = gen_members(rng, kind, m)
    case = {"kind": kind, "members": members, "scale": rng.choice([1.0, 1.0, 0.125, 0.25, 0.5, 0.75, 1.5, 2.0, 4.0, 3.0625])}
    if kind in ("range", "range_mean", "from_to"):
        case["loc"] = rng.choice(["mid", "mid", "mid", "left", "right"])
    amps = ref_amplitudes(case)
    counts, pattern = gen_counts(rng, amps, m)
    case["counts"] = counts
    if kind in ("collective", "collective_rm") and rng.random() < 0.3:
        case["unit_cycles"] = True
        case["counts"] = [1.0] * m
        pattern = "unit"
    curve, label, mode = gen_curve(rng, amps, eff_counts(case))
    case["curve"] = curve
    case["cut"] = rng.randint(1, m - 1) if m >= 2 else 0
    case["t"] = rng.choice([0.0, 0.5, 2.0, 3.0, 1000.0, 0.015625, 7.25])
    perm = list(range(m))
    rng.shuffle(perm)
    case["perm"] = perm
    case["tags"] = {"shape": shape, "pattern": pattern, "sd": label, "k2": mode}
    return case


def exhaustive_cases(tier):
    """All occupancy patterns of a small regular histogram x every position of SD relative to the classes x
    the k_2 variants."""
    mmax = 4 if tier == "quick" else 6
    for m in range(1, mmax + 1):
        members = [[40.0 * i, 40.0 * (i + 1)] for i in range(1, m + 1)]     # amplitudes 30, 50, 70, ...
        base = {"kind": "range", "members": members, "scale": 1.0, "loc": "mid"}
        amps = ref_amplitudes(base)
        for occ in itertools.product([0, 1], repeat=m):
            counts = [float((i + 2) * 5 * o) for i, o in enumerate(occ)]
            for label, sd in sd_positions(amps, [1] * m) + [("in-empty-top", None)]:
                if sd is None:
                    continue
                for k1, k2, extra in ((5.0, "inf", {}), (5.0, 9.0, {}), (3.0, 3.0, {}),
                                      (5.0, "inf", {"TN": 4.0, "failure_probability": 0.1}),
                                      (4.0, 7.0, {"TN": 3.0, "TS": 1.25, "failure_probability": 0.9})):
                    yield dict(base, counts=counts, curve=dict({"k_1": k1, "k_2": k2, "SD": sd, "ND": 1e6}, **extra),
                               cut=m // 2, t=2.0, perm=list(reversed(range(m))),
                               tags={"shape": "exh", "pattern": "".join(map(str, occ)), "sd": label, "k2": str(k2)})


# ------------------------------------------------------------------ the property module
GASSNER_TOL = 1e-9
_WORKER = None


def _impl_raised(e):
    """True when the exception was raised below the harness (pylife / pandas / numpy), i.e. by the implementation
    on a generated, valid input; an exception raised by a harness line itself is an infrastructure error."""
    tb = traceback.extract_tb(e.__traceback__)
    return bool(tb) and not tb[-1].filename.endswith(os.path.join("harness", "c11.py"))


def _work(case):
    """Runs in a forked worker: the implementation's answer lines and the oracle's verdict for one case."""
    return _WORKER._impl_lines(case), _WORKER._oracle(case)


class C11(Prop):
    ID = "C11"
    SOURCES = SOURCES
    LEAN_MODULES = ["Proofs.C11", "Proofs.BridgeC11"]
    THEOREMS = [
        "PylifeVerif.C11.damage_additive",
        "PylifeVerif.C11.damage_classwise_append",
        "PylifeVerif.C11.damage_scales_with_counts",
        "PylifeVerif.C11.damage_perm_invariant",
        "PylifeVerif.C11.damage_order_termwise",
        "PylifeVerif.C11.damage_order_original_le_haibach_le_elementary",
        "PylifeVerif.C11.gassner_elementary_damage_one",
        "PylifeVerif.C11.gassner_haibach_damage_one",
        "PylifeVerif.C11.gassner_curve_cycles",
        "PylifeVerif.C11.gassner_damage_one_at_any_level",
        "PylifeVerif.C11.damage_linear_native",
        "PylifeVerif.C11.damage_order_native",
        "PylifeVerif.C11.gassner_damage_one_native",
        "PylifeVerif.C11.gassner_curve_cycles_native",
        "PylifeVerif.C11.effective_damage_sum_bounds",
        "PylifeVerif.C11.gassner_unrepaired_fails_empty_top_class",
        "PylifeVerif.C11.gassner_unrepaired_infinite_below_SD",
    ] + ["PylifeVerif.Bridge." + t for t in [      # generated (translated) definitions = hand model
        "effective_damage_sum_eq", "finite_life_factor_eq"]]
    PARTIAL = {}
    RULE = ("case = (Woehler curve k_1/k_2/SD/ND with optional TN/TS/failure_probability, collective given as range / range-mean / from-to histogram with "
            "IntervalIndex class limits or as LoadCollective data frame, cycle counts with empty classes, load scale, "
            "class location, split point, count factor, permutation); all numbers dyadic so that class amplitudes are "
            "exact; SD placed below / at / between / above the class amplitudes and inside an empty top class; "
            "correspondence: per-class damage, damage sums of the three Miner variants, solidity, both lifetime "
            "multiples, both Gassner cycle numbers, damage after applying them, Gassner-shifted curve, effective "
            "damage sums, finite life factor - relative tolerance 1e-11 (np.power vs libm pow); non-trivial = not "
            "degenerate, at least two occupied classes and (an empty class or classes on both sides of SD)")
    ASSUMPTIONS = [
        "C11: the collective is observed through its accessors `amplitude` and `cycles` (LoadHistogram, LoadCollective); the model works on the list of (amplitude, cycles) pairs, the harness derives the amplitudes from the class limits independently and the oracle compares them with the accessor",
        "C11: curves with native failure_probability in {0.025, 0.1, 0.3, 0.5, 0.9, 0.975} and scatter TN/TS (both, one, none given): damage, cycles and gassner_cycles evaluate the curve shifted to 50 % - the model imports Model/Woehler.lean `transform` (C08) for it, scipy.stats.norm.ppf is a parameter `ppf` in the theorems and a series implementation in the driver (tolerance 1e-10 on shifted curves); scalar curve (one parameter set), one collective",
        "C11: theorems over the reals with x/0 = 0 and 0^(-k) = 0; the guards ValidCurve (SD, ND > 0), ValidColl (amplitudes, counts >= 0) and Loaded (some occupied class with positive amplitude) are exactly the inputs on which the real code does not return NaN/inf; pandas/numpy summation order and np.power rounding are not modelled (tolerance)",
        "C11: the model is the REPAIRED Miner code (tools/fixes/C11-gassner-max-occupied.diff, tools/fixes/C11-haibach-knee-at-50pct.diff); on a tree without the repair the oracle reports the finding classes gassner-*-empty-top-class / gassner-*-below-SD / gassner-haibach-native-knee",
    ]

    # tie T (DESIGN 1.1): lean/Generated/<name>.lean are regenerated from the current python source before the build;
    # Proofs.BridgeC11 proves them equal to the hand model the property theorems are about
    TRANSLATED = ["Miner"]

    def setup(self, log):
        import os
        import sys
        tdir = os.path.join(core.VERIF, "translate")
        sys.path.insert(0, tdir)
        try:
            import translate as T
            ok, msg = T.run_modules(self.TRANSLATED, core.REPO, core.LEAN)
        except Exception as e:      # the translator itself is broken: every bridge obligation counts as broken
            ok, msg = False, f"translator crashed: {type(e).__name__}: {e}"
            for n in self.TRANSLATED:
                with open(os.path.join(core.LEAN, "Generated", n + "Status.lean"), "w") as f:
                    f.write('#eval (throw (IO.userError "translator crashed") : IO Unit)\n')
        finally:
            sys.path.remove(tdir)
        self.stats["translator"] = msg
        log(("translator: " + msg) if ok else ("TRANSLATOR FAILED (broken proof obligation): " + msg))

    def __init__(self):
        self.stats = {"by_kind": {}, "by_pattern": {}, "by_sd_position": {}, "by_k2": {}, "by_shape": {},
                      "degenerate": 0, "sizes": {}, "empty_top": 0, "all_below_SD": 0, "all_above_SD": 0,
                      "straddle_SD": 0, "amplitude_exactly_SD": 0, "scaled": 0, "by_failure_probability": {},
                      "curve_shifted_to_50pct": 0, "knee_shifted_to_50pct": 0, "only_TN_given": 0}
        self.exhaustive = False
        self._verdicts = {}

    # ---------------------------------------------------------------- generation
    def generate(self, rng, tier):
        self.exhaustive = True
        self.stats["exhaustive_scope"] = ("regular range histogram with 1..%d classes: every occupancy pattern x SD below all / at "
                                          "each class / between classes / above all x (k_1,k_2) in {(5,inf),(5,9),(3,3)} and the curves (5,inf,TN=4,pf=0.1), (4,7,TN=3,TS=1.25,pf=0.9)" % (4 if tier == "quick" else 6))
        for c in exhaustive_cases(tier):
            yield c
        n = 1000 if tier == "quick" else 10000
        for _ in range(n):
            yield random_case(rng, tier)

    def _count(self, case, amps, counts):
        s = self.stats
        tags = case.get("tags", {})
        for key, tag in (("by_kind", case["kind"]), ("by_pattern", tags.get("pattern", "?") if tags.get("shape") != "exh" else "exh"),
                         ("by_sd_position", tags.get("sd", "?")), ("by_k2", tags.get("k2", "?") if tags.get("shape") != "exh" else "exh"),
                         ("by_shape", tags.get("shape", "?")), ("sizes", str(len(amps)))):
            s[key][tag] = s[key].get(tag, 0) + 1
        occ = [a for a, n in zip(amps, counts) if n > 0]
        sd = sd50(case["curve"])
        tn, ts, pf = scatter_of(case["curve"])
        s["by_failure_probability"][str(pf)] = s["by_failure_probability"].get(str(pf), 0) + 1
        if shifted(case["curve"]):
            s["curve_shifted_to_50pct"] += 1
            if ts != 1.0:
                s["knee_shifted_to_50pct"] += 1
            if "TS" not in case["curve"]:
                s["only_TN_given"] += 1
        if degenerate(amps, counts):
            s["degenerate"] += 1
            return
        if max(occ) < max(amps):
            s["empty_top"] += 1
        if max(occ) < sd:
            s["all_below_SD"] += 1
        elif min(occ) >= sd:
            s["all_above_SD"] += 1
        else:
            s["straddle_SD"] += 1
        if any(a == sd for a in occ):
            s["amplitude_exactly_SD"] += 1
        if case.get("scale", 1.0) != 1.0:
            s["scaled"] += 1

    # ---------------------------------------------------------------- correspondence
    def model_lines(self, case):
        c = case["curve"]
        amps = ref_amplitudes(case)
        counts = eff_counts(case)
        head = curve_tokens(c)
        body = " ".join(f"{f2h(a)} {f2h(n)}" for a, n in zip(amps, counts))
        return [f"mn_damage {head} {body}", f"mn_miner {head} {body}",
                f"mn_flf {f2h(c['k_1'])} {f2h(c['ND'])} {f2h(sum(counts) + 1.0)}"]

    def impl_all(self, cases):
        """All cases through the real code, sharded over processes; the oracle verdicts are computed in the same
        pass and handed out by `oracle` (run_check calls it per case afterwards)."""
        global _WORKER
        import multiprocessing as mp
        pl()
        for c in cases:
            self._count(c, ref_amplitudes(c), eff_counts(c))
        nproc = min(16, os.cpu_count() or 1, max(1, len(cases) // 40))
        if nproc <= 1:
            res = [(self._impl_lines(c), self._oracle(c)) for c in cases]
        else:
            _WORKER = self
            with mp.get_context("fork").Pool(nproc) as pool:
                res = pool.map(_work, cases, chunksize=max(1, len(cases) // (nproc * 8)))
        self.stats["processes"] = nproc
        for c, (_lines, verdict) in zip(cases, res):
            self._verdicts[json.dumps(c, sort_keys=True)] = verdict
        return [r[0] for r in res]

    def impl_lines(self, case):
        self._count(case, ref_amplitudes(case), eff_counts(case))
        return self._impl_lines(case)

    def oracle(self, case):
        key = json.dumps(case, sort_keys=True)
        if key in self._verdicts:
            return self._verdicts[key]
        return self._oracle(case)

    def _impl_lines(self, case):
        try:
            return self._impl_lines_body(case)
        except Exception as e:
            if _impl_raised(e):
                return [f"error:{type(e).__name__}"] * 3
            raise

    def _oracle(self, case):
        try:
            return self._oracle_body(case)
        except Exception as e:
            if _impl_raised(e):
                return (f"the implementation raised {type(e).__name__}: {str(e)[:200]}", "implementation-raises")
            raise

    def _impl_lines_body(self, case):
        miner, sol = pl()
        amps = ref_amplitudes(case)
        counts = eff_counts(case)
        wc = curve_series(case["curve"])
        with warnings.catch_warnings():
            warnings.simplefilter("ignore")
            lc = build(case)
            dmg = wc.fatigue.damage(lc)
            line1 = " ".join(f2h(x) for x in list(np.asarray(dmg, dtype=float)) + [float(dmg.sum())])
            me = wc.gassner_miner_elementary
            mh = wc.gassner_miner_haibach
            line3 = f2h(fnum(me.finite_life_factor(sum(counts) + 1.0)))
            if degenerate(amps, counts):
                return [line1, "degenerate", line3]
            k1 = float(case["curve"]["k_1"])
            if case["kind"] in ("range", "range_mean", "from_to") and case.get("loc", "mid") == "mid":
                V = lc.cycles.solidity.haibach(k1)      # the registered accessor
            else:
                V = sol.haibach(lc, k1)
            Ae = fnum(me.lifetime_multiple(lc))
            Ah = fnum(mh.lifetime_multiple(lc))
            NGe = fnum(me.gassner_cycles(lc))
            NGh = fnum(mh.gassner_cycles(lc))
            g = me.gassner(lc)
            tot = sum(counts)
            De = float(wc.fatigue.miner_elementary().damage(build(with_counts(case, [n * NGe / tot for n in counts]))).sum()) if math.isfinite(NGe) else math.inf
            Dh = float(wc.fatigue.miner_haibach().damage(build(with_counts(case, [n * NGh / tot for n in counts]))).sum()) if math.isfinite(NGh) else math.inf
            mocc = max(a for a, n in zip(amps, counts) if n > 0)
            vals = [fnum(V), Ae, Ah, NGe, NGh, fnum(me.effective_damage_sum(lc)), fnum(mh.effective_damage_sum(lc)),
                    fnum(me.finite_life_factor(tot)), fnum(g.ND), De, Dh, fnum(g.cycles(mocc)),
                    float(wc.fatigue.miner_original().damage(lc).sum()), float(wc.fatigue.miner_haibach().damage(lc).sum()),
                    float(wc.fatigue.miner_elementary().damage(lc).sum())]
        return [line1, " ".join(f2h(x) for x in vals), line3]

    def compare(self, case, model_out, impl_out):
        if len(model_out) != len(impl_out):
            return f"length {len(model_out)} vs {len(impl_out)}"
        names = ["damage", "miner", "finite_life_factor"]
        for i, (a, b) in enumerate(zip(model_out, impl_out)):
            ta, tb = a.split(), b.split()
            if len(ta) != len(tb):
                return f"{names[i]}: model={a[:200]!r} impl={b[:200]!r}"
            for j, (x, y) in enumerate(zip(ta, tb)):
                if x == y:
                    continue
                try:
                    fx, fy = h2f(x), h2f(y)
                except Exception:
                    return f"{names[i]}[{j}]: model={x!r} impl={y!r}"
                if not core.close(fx, fy, rtol=1e-10 if shifted(case["curve"]) else 1e-11, atol=1e-300):
                    return f"{names[i]}[{j}]: model={fx!r} impl={fy!r}"
        return None

    def nontrivial(self, case, model_out):
        if not model_out or model_out[1] == "degenerate":
            return None
        amps = ref_amplitudes(case)
        counts = eff_counts(case)
        occ = [a for a, n in zip(amps, counts) if n > 0]
        sd = sd50(case["curve"])
        if len(occ) < 2:
            return None
        if len(occ) == len(amps) and not (min(occ) < sd <= max(occ)):
            return None
        return json.dumps({k: case[k] for k in ("kind", "members", "counts", "curve", "scale") if k in case}, sort_keys=True)

    # ---------------------------------------------------------------- the property on the real code
    def _oracle_body(self, case):
        miner, sol = pl()
        wc = curve_series(case["curve"])
        members = case["members"]
        counts = eff_counts(case)
        m = len(members)
        amps = ref_amplitudes(case)
        k1 = float(case["curve"]["k_1"])
        sd = sd50(case["curve"])
        tn, ts, pf = scatter_of(case["curve"])
        with warnings.catch_warnings():
            warnings.simplefilter("ignore")
            lc = build(case)
            got_amp = [float(x) for x in np.asarray(lc.amplitude, dtype=float)]
            if got_amp != amps:
                return (f"amplitude accessor {got_amp} != class amplitudes {amps}", "amplitude-accessor")
            got_cyc = [float(x) for x in np.asarray(lc.cycles, dtype=float)]
            if got_cyc != counts:
                return (f"cycles accessor {got_cyc} != counts {counts}", "cycles-accessor")
            fat = wc.fatigue
            dmg = np.asarray(fat.damage(lc), dtype=float)
            D = float(dmg.sum())
            if not np.all(np.isfinite(dmg)) or np.any(dmg < 0):
                return (f"damage values {list(dmg)} not finite and non-negative", "damage-value")
            # --- additive over the members
            cut = case.get("cut", 0)
            if 0 < cut < m:
                da = np.asarray(fat.damage(build(case, members[:cut], counts[:cut] if not case.get("unit_cycles") else None)), dtype=float)
                db = np.asarray(fat.damage(build(case, members[cut:], counts[cut:] if not case.get("unit_cycles") else None)), dtype=float)
                if list(da) + list(db) != list(dmg):
                    return (f"per-class damage of the parts {list(da)}+{list(db)} != of the whole {list(dmg)}", "additivity")
                if not core.close(float(da.sum()) + float(db.sum()), D, rtol=1e-12):
                    return (f"damage of parts {float(da.sum())} + {float(db.sum())} != damage of the whole {D}", "additivity")
            # --- proportional to the counts
            t = float(case.get("t", 2.0))
            dt = np.asarray(fat.damage(build(with_counts(case, [t * n for n in counts]))), dtype=float)
            for x, y in zip(dt, dmg):
                if not core.close(float(x), t * float(y), rtol=1e-13, atol=1e-300):
                    return (f"counts x {t}: damage {list(dt)} != {t} x {list(dmg)}", "proportionality")
            # --- independent of the member order
            perm = case.get("perm") or list(range(m))
            dp = np.asarray(fat.damage(build(case, [members[i] for i in perm], [counts[i] for i in perm] if not case.get("unit_cycles") else None)), dtype=float)
            if list(dp) != [dmg[i] for i in perm]:
                return (f"permuted members {perm}: damage {list(dp)} != permuted damage {[dmg[i] for i in perm]}", "order")
            if not core.close(float(dp.sum()), D, rtol=1e-12):
                return (f"permuted members: damage sum {float(dp.sum())} != {D}", "order")
            # --- original <= Haibach <= elementary, class by class
            d_o = np.asarray(fat.miner_original().damage(lc), dtype=float)
            d_h = np.asarray(fat.miner_haibach().damage(lc), dtype=float)
            d_e = np.asarray(fat.miner_elementary().damage(lc), dtype=float)
            if k1 >= 1.0:
                for i in range(m):
                    if not (d_o[i] <= d_h[i] * (1 + 1e-12) and d_h[i] <= d_e[i] * (1 + 1e-12)):
                        return (f"class {i} (amplitude {amps[i]}): original {d_o[i]} <= Haibach {d_h[i]} <= elementary {d_e[i]} violated", "variant-order")
            if degenerate(amps, counts):
                return None
            # --- Gassner cycles give damage one
            occ = [a for a, n in zip(amps, counts) if n > 0]
            mocc = max(occ)
            tot = sum(counts)

            def klass(rule):
                if shifted(case["curve"]):      # the 50 % curve differs from the native one
                    if rule == "haibach" and ts != 1.0:
                        return "gassner-haibach-native-knee"
                    return f"gassner-{rule}-native-probability"
                if mocc < max(amps):
                    return f"gassner-{rule}-empty-top-class"
                if mocc < sd:
                    return f"gassner-{rule}-below-SD"
                return f"gassner-{rule}-damage-not-one"
            me = wc.gassner_miner_elementary
            mh = wc.gassner_miner_haibach
            bad = []
            for rule, mn, variant in (("elementary", me, fat.miner_elementary()), ("haibach", mh, fat.miner_haibach())):
                NG = fnum(mn.gassner_cycles(lc))
                if not (math.isfinite(NG) and NG > 0):
                    bad.append((f"Miner-{rule} Gassner cycles = {NG} for a collective with occupied classes up to amplitude {mocc} (SD {sd})", klass(rule)))
                    continue
                applied = build(with_counts(case, [n * NG / tot for n in counts]))
                Dg = float(variant.damage(applied).sum())
                if not abs(Dg - 1.0) <= GASSNER_TOL:
                    bad.append((f"Miner-{rule}: applying the collective for its Gassner cycles {NG} gives damage {Dg}, not 1 "
                                f"(amplitudes {amps}, counts {counts}, curve {case['curve']}, knee of the 50 % curve {sd})", klass(rule)))
            if bad:
                return ("; ".join(b[0] for b in bad), bad[0][1])
            for rule, mn in (("elementary", me), ("haibach", mh)):
                A = fnum(mn.lifetime_multiple(lc))
                dm = fnum(mn.effective_damage_sum(lc))
                if not (0.3 <= dm <= 1.0):
                    return (f"Miner-{rule}: effective damage sum {dm} outside [0.3, 1] (lifetime multiple {A})", "effective-damage-sum")
            # the Gassner-shifted curve (Miner elementary) predicts the same cycles and damage one
            g = me.gassner(lc)
            NGe = fnum(me.gassner_cycles(lc))
            Ng = fnum(g.cycles(mocc))
            if not core.close(Ng, NGe, rtol=1e-10):
                return (f"Gassner-shifted curve gives {Ng} cycles at the largest occupied amplitude {mocc}, gassner_cycles gives {NGe}",
                        "gassner-elementary-native-probability" if shifted(case["curve"]) else
                        "gassner-elementary-below-SD" if mocc < sd else "gassner-curve")
            dg = float(g.damage(pd.Series({"amplitude": mocc, "cycles": Ng})).sum())
            if not abs(dg - 1.0) <= GASSNER_TOL:
                return (f"Gassner-shifted curve: damage of its own cycle number is {dg}", "gassner-curve")
        # --- effective damage sum for arbitrary multiples
        for A in (1e-9, 0.5, 1.0, 16.0, 17.0, 1975.308641975309, 1e12, float(case.get("t", 2.0)) + 0.001):
            dm = miner.effective_damage_sum(A)
            if not (0.3 <= dm <= 1.0):
                return (f"effective_damage_sum({A}) = {dm} outside [0.3, 1]", "effective-damage-sum")
        return None

    # ---------------------------------------------------------------- shrinking
    def shrink(self, case, still_fails):
        cur = dict(case)
        cur.pop("tags", None)

        def drop(c, i):
            d = dict(c)
            d["members"] = c["members"][:i] + c["members"][i + 1:]
            d["counts"] = c["counts"][:i] + c["counts"][i + 1:]
            mm = len(d["members"])
            d["perm"] = list(reversed(range(mm)))
            d["cut"] = mm // 2
            return d
        changed = True
        while changed and len(cur["members"]) > 1:
            changed = False
            for i in range(len(cur["members"])):
                cand = drop(cur, i)
                try:
                    if still_fails(cand):
                        cur, changed = cand, True
                        break
                except Exception:
                    continue
        for simpler in ({"scale": 1.0}, {"counts": [1.0 if n > 0 else 0.0 for n in cur["counts"]]}, {"t": 2.0}):
            cand = dict(cur, **simpler)
            try:
                if still_fails(cand):
                    cur = cand
            except Exception:
                pass
        return cur
