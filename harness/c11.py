"""C11: Miner damage is linear; Gassner cycles give damage one; effective damage sum in [0.3, 1].

Implementation side (real pylife, in-process), generators, correspondence with the Lean model
(lean/Model/Miner.lean through the `mn_*` ops of the compiled driver) and the direct property oracle."""
import itertools
import json
import math
import os
import traceback
import warnings

import numpy as np
import pandas as pd

from . import core
from .core import Prop, f2h, h2f

SOURCES = [
    "src/pylife/strength/miner.py",
    "src/pylife/strength/solidity.py",
    "src/pylife/strength/fatigue.py",
    "src/pylife/materiallaws/woehlercurve.py",
    "src/pylife/stress/collective/load_histogram.py",
    "src/pylife/stress/collective/load_collective.py",
]

_PL = None


def pl():
    """Import the real implementation lazily (PYLIFE_REPO is honoured by harness.main)."""
    global _PL
    if _PL is None:
        import pylife.strength.miner as miner
        import pylife.strength.solidity as sol
        import pylife.strength.fatigue  # noqa: F401  registers the accessors
        import pylife.stress            # noqa: F401
        _PL = (miner, sol)
    return _PL


# ------------------------------------------------------------------ the case -> pandas objects
def k2_of(curve):
    return math.inf if curve["k_2"] == "inf" else float(curve["k_2"])


def curve_series(curve):
    d = {"k_1": float(curve["k_1"]), "ND": float(curve["ND"]), "SD": float(curve["SD"])}
    if curve["k_2"] != "absent":
        d["k_2"] = k2_of(curve)
    for k in ("TN", "TS", "failure_probability"):
        if k in curve:
            d[k] = float(curve[k])
    return pd.Series(d)


def scatter_of(curve):
    """(TN, TS, pf) as `_validate` fills them in."""
    k1 = float(curve["k_1"])
    tn, ts = curve.get("TN"), curve.get("TS")
    if tn is None and ts is None:
        tn, ts = 1.0, 1.0
    elif ts is None:
        ts = float(tn) ** (1.0 / k1)
    elif tn is None:
        tn = float(ts) ** k1
    return float(tn), float(ts), float(curve.get("failure_probability", 0.5))


def shifted(curve):
    """True when the 50 % curve differs from the native one."""
    tn, ts, pf = scatter_of(curve)
    return pf != 0.5 and (tn != 1.0 or ts != 1.0)


def sd50(curve):
    """Knee of the 50 % curve by the textbook formula SD_50 = SD * TS**(z_50 - z_pf)/(z_90 - z_10)
    (independent of woehlercurve.py; used for statistics and for classifying failures only)."""
    from scipy.stats import norm
    tn, ts, pf = scatter_of(curve)
    if pf == 0.5 or ts == 1.0:
        return float(curve["SD"])
    return float(curve["SD"]) * ts ** ((norm.ppf(0.5) - norm.ppf(pf)) / (norm.ppf(0.9) - norm.ppf(0.1)))


def curve_tokens(curve):
    """The 7 tokens `k_1 k_2 SD ND TN TS failure_probability` of the driver protocol (`-` = key missing)."""
    k2 = math.inf if curve["k_2"] in ("absent", "inf") else float(curve["k_2"])
    toks = [f2h(curve["k_1"]), f2h(k2), f2h(curve["SD"]), f2h(curve["ND"])]
    for k in ("TN", "TS", "failure_probability"):
        toks.append(f2h(curve[k]) if k in curve else "-")
    return " ".join(toks)


def ref_amplitudes(case, members=None):
    """Amplitude of every member as the documentation of the collective classes defines it (class mid /
    left / right of the range, halved; |from - to| / 2), after scaling by case['scale'].  All generated
    numbers are dyadic, so this is exact whatever the order of the operations."""
    f = float(case.get("scale", 1.0))
    loc = case.get("loc", "mid")
    out = []
    for m in (case["members"] if members is None else members):
        kind = case["kind"]
        if kind in ("range", "range_mean"):
            lo, hi = m[0] * f, m[1] * f
            r = {"mid": 0.5 * (lo + hi), "left": lo, "right": hi}[loc]
            out.append(r / 2.0)
        elif kind == "from_to":
            fl, fr, tl, tr = (x * f for x in m[:4])
            a, b = {"mid": (0.5 * (fl + fr), 0.5 * (tl + tr)), "left": (fl, tl), "right": (fr, tr)}[loc]
            out.append(abs(a - b) / 2.0)
        elif kind == "collective":
            out.append(abs(m[0] * f - m[1] * f) / 2.0)
        elif kind == "collective_rm":
            rng, mean = m[0], m[1]
            fr, to = (mean - rng / 2.0) * f, (mean + rng / 2.0) * f
            out.append(abs(fr - to) / 2.0)
        else:
            raise ValueError(kind)
    return out


def layout(case):
    """Optional index / dtype layout of the pandas object (D11-3): {"elem": [id per member], "elem_pos": "first"|"last",
    "concat_at": k, "count_dtype": "int64", "index": [label per member]}."""
    return case.get("layout") or {}


def _count_array(case, counts):
    if layout(case).get("count_dtype") == "int64" and all(float(c).is_integer() and abs(c) < 2.0 ** 53 for c in counts):
        return np.asarray([int(c) for c in counts], dtype=np.int64)    # what range_histogram without a cycles column returns
    return np.asarray(counts, dtype=np.float64)


def build(case, sel=None, counts=None, raw=False):
    """The accessor object (LoadHistogram / LoadCollective) of the real implementation for the members `sel` (indices,
    None = all) with `counts` (None = the case's).  The load scale ALWAYS goes through the code's own `scale()`."""
    pl()
    m_all = len(case["members"])
    whole = sel is None
    sel = list(range(m_all)) if sel is None else list(sel)
    members = [case["members"][i] for i in sel]
    unit = bool(case.get("unit_cycles")) and counts is None
    if counts is None:
        counts = [case["counts"][i] for i in sel]
    kind = case["kind"]
    f = float(case.get("scale", 1.0))
    loc = case.get("loc", "mid")
    lay = layout(case)
    k = lay.get("concat_at")
    pieces = [list(range(len(members)))]
    if whole and k and 0 < k < len(members):       # two pandas objects put together with pd.concat (duplicated labels allowed)
        pieces = [list(range(k)), list(range(k, len(members)))]
    if kind in ("range", "range_mean", "from_to"):
        def one(pos):
            mem = [members[i] for i in pos]
            iv = lambda a, b: pd.IntervalIndex.from_arrays([x[a] for x in mem], [x[b] for x in mem])
            if kind == "range":
                levels, names = [iv(0, 1)], ["range"]
            elif kind == "range_mean":
                levels, names = [iv(0, 1), iv(2, 3)], ["range", "mean"]
            else:
                levels, names = [iv(0, 1), iv(2, 3)], ["from", "to"]
            if "elem" in lay:
                el = pd.Index([lay["elem"][sel[i]] for i in pos], dtype=np.int64)
                if lay.get("elem_pos", "first") == "first":
                    levels, names = [el] + levels, ["element_id"] + names
                else:
                    levels, names = levels + [el], names + ["element_id"]
            if len(levels) == 1:
                idx = levels[0].rename(names[0])
            else:
                idx = pd.MultiIndex.from_arrays(levels, names=names)
            return pd.Series(_count_array(case, [counts[i] for i in pos]), index=idx, name="cycles")
        ser = one(pieces[0]) if len(pieces) == 1 else pd.concat([one(pc) for pc in pieces])
        acc = ser.load_collective
        if f != 1.0:
            acc = acc.scale(f)
        if loc == "left":
            acc = acc.use_class_left()
        elif loc == "right":
            acc = acc.use_class_right()
        return (acc, ser) if raw else acc

    def one(pos):
        mem = [members[i] for i in pos]
        if kind == "collective":
            df = pd.DataFrame({"from": [float(x[0]) for x in mem], "to": [float(x[1]) for x in mem]})
        else:
            df = pd.DataFrame({"range": [float(x[0]) for x in mem], "mean": [float(x[1]) for x in mem]})
        if not unit:
            df["cycles"] = _count_array(case, [counts[i] for i in pos])
        if "index" in lay:
            df.index = pd.Index([lay["index"][sel[i]] for i in pos], name="blk")
        return df
    df = one(pieces[0]) if len(pieces) == 1 else pd.concat([one(pc) for pc in pieces])
    acc = df.load_collective
    if f != 1.0:
        acc = acc.scale(f)
    return (acc, df) if raw else acc


def eff_counts(case, counts=None):
    counts = case["counts"] if counts is None else counts
    if case["kind"] in ("collective", "collective_rm") and case.get("unit_cycles"):
        return [1.0] * len(case["members"])
    return [float(c) for c in counts]


def degenerate(amps, counts):
    occ = [a for a, n in zip(amps, counts) if n > 0]
    return (not occ) or not (max(occ) > 0)


def with_counts(case, counts):
    c = dict(case)
    c["counts"] = list(counts)
    c.pop("unit_cycles", None)
    return c


def fnum(x):
    return float(np.asarray(x, dtype=np.float64).reshape(-1)[0]) if np.ndim(x) else float(x)


VARIANTS = ["whole", "a", "b", "perm", "t", "x2"]


def variant(case, name):
    """A collective derived from the case: (case', sel) or None when it does not exist.  whole; a / b = the members
    before / from `cut`; perm = permuted members; t = counts x t; x2 = twice the load level."""
    m = len(case["members"])
    cut = case.get("cut", 0)
    if name == "whole":
        return case, None
    if name == "a":
        return (case, list(range(cut))) if 0 < cut < m else None
    if name == "b":
        return (case, list(range(cut, m))) if 0 < cut < m else None
    if name == "perm":
        p = case.get("perm")
        return (case, list(p)) if p and sorted(p) == list(range(m)) and list(p) != list(range(m)) else None
    if name == "t":
        t = float(case.get("t", 2.0))
        return (with_counts(case, [t * n for n in eff_counts(case)]), None) if t > 0 and t != 1.0 else None
    if name == "x2":
        return dict(case, scale=2.0 * float(case.get("scale", 1.0))), None
    raise ValueError(name)


def vdata(case, name):
    """(amplitudes, counts) of a variant by the harness' own arithmetic, or None."""
    v = variant(case, name)
    if v is None:
        return None
    vc, sel = v
    amps, counts = ref_amplitudes(vc), eff_counts(vc)
    if sel is not None:
        amps, counts = [amps[i] for i in sel], [counts[i] for i in sel]
    return amps, counts


def vbuild(case, name):
    vc, sel = variant(case, name)
    return build(vc, sel)


def usable(case, name):
    d = vdata(case, name)
    return d is not None and not degenerate(*d)


def pre_name(case):
    """The collective that is pushed through the held accessor objects BEFORE the case's own collective (object state:
    every case is a call sequence).  Corpus cases without the key get the default preference."""
    want = case.get("pre", "a")
    if want is None or want == "none":
        return None
    for name in [want, "a", "b", "x2"]:
        if name != "whole" and usable(case, name):
            return name
    return None


SEQ_OPS = ["lm", "gc", "eds", "gnd", "flf", "dmg:own", "dmg:o", "dmg:e", "dmg:h"]
OBJ_OPS = {"e": ("lm", "gc", "eds", "gnd", "flf"), "h": ("lm", "gc", "eds", "flf"), "f": ("dmg:own", "dmg:o", "dmg:e", "dmg:h")}


def seq_plan(case):
    """The calls of case['seq'] that exist for this case: [(op, variant name, amplitudes, counts)]."""
    out = []
    for op, name in case.get("seq") or []:
        if op in SEQ_OPS and name in VARIANTS and usable(case, name):
            amps, counts = vdata(case, name)
            out.append((op, name, amps, counts))
    return out


def make_obj(kind, wc):
    return {"e": lambda: wc.gassner_miner_elementary, "h": lambda: wc.gassner_miner_haibach, "f": lambda: wc.fatigue}[kind]()


def call(obj, op, lc, N):
    """One method call on an accessor object; the returned number."""
    if op == "lm":
        return fnum(obj.lifetime_multiple(lc))
    if op == "gc":
        return fnum(obj.gassner_cycles(lc))
    if op == "eds":
        return fnum(obj.effective_damage_sum(lc))
    if op == "gnd":
        return fnum(obj.gassner(lc).ND)
    if op == "flf":
        return fnum(obj.finite_life_factor(N))
    v = op.split(":")[1]
    o = obj if v == "own" else getattr(obj, {"o": "miner_original", "e": "miner_elementary", "h": "miner_haibach"}[v])()
    return float(o.damage(lc).sum())


STATE_KEYS = ["k_1", "k_2", "SD", "ND", "TN", "TS", "failure_probability"]


def state_of(obj):
    """What the accessor object holds: the validated curve."""
    ser = obj.to_pandas()
    return [float(ser[k]) for k in STATE_KEYS]


def same(x, y):
    return x == y or (x != x and y != y)


def snap(obj):
    """Deep, independent copy of a pandas object / array the caller owns (taken before a call)."""
    if isinstance(obj, (pd.Series, pd.DataFrame)):
        c = obj.copy(deep=True)
        c.index = obj.index.copy(deep=True)
        return c
    return np.array(obj, copy=True)


COSMETIC = []      # per process: changes of an argument that alter no later result (renamed Series, added column, dtype) - counted, not failed


def _vals(x):
    a = np.asarray(x)
    return a.astype(float) if a.dtype.kind in "iufb" else a


def _same_index(a, b):
    if len(a) != len(b) or a.nlevels != b.nlevels:
        return False
    return all(np.array_equal(np.asarray(a.get_level_values(i), dtype=object), np.asarray(b.get_level_values(i), dtype=object))
               for i in range(a.nlevels))


def differs(now, before):
    """None when what a later call computes from `now` is what it computed from `before`: the VALUES and the INDEX (labels,
    order) are unchanged (for a frame: of every column it had).  A renamed Series, renamed index levels, a changed dtype with
    equal values and columns / keys ADDED to the caller's object are outside the property: noted in COSMETIC (statistics)."""
    if isinstance(before, (pd.Series, pd.DataFrame)):
        if type(now) is not type(before):
            return f"type {type(before).__name__} -> {type(now).__name__}"
        if not _same_index(now.index, before.index):
            return f"index (labels, order) {list(before.index)[:8]} -> {list(now.index)[:8]}"
        if isinstance(before, pd.Series):
            if not np.array_equal(_vals(now), _vals(before), equal_nan=True):
                return f"values {list(before)[:8]} -> {list(now)[:8]}"
            if now.name != before.name:
                COSMETIC.append("Series renamed")
            if now.dtype != before.dtype:
                COSMETIC.append("dtype changed, values equal")
        else:
            for col in before.columns:
                if col not in now.columns:
                    return f"column {col!r} removed"
                if not np.array_equal(_vals(now[col]), _vals(before[col]), equal_nan=True):
                    return f"column {col!r}: values {list(before[col])[:8]} -> {list(now[col])[:8]}"
                if now[col].dtype != before[col].dtype:
                    COSMETIC.append("dtype changed, values equal")
            if len(now.columns) != len(before.columns):
                COSMETIC.append("column added to the caller's frame")
        if list(now.index.names) != list(before.index.names):
            COSMETIC.append("index level renamed")
        return None
    a, b = np.asarray(now), np.asarray(before)
    if a.shape != b.shape or not np.array_equal(_vals(a), _vals(b), equal_nan=True):
        return f"array {b!r} -> {a!r}"
    return None


def other_curve(case):
    """A second curve with different parameters (two objects alive at once)."""
    if "curve2" in case:
        return case["curve2"]
    c = case["curve"]
    return dict(c, k_1=float(c["k_1"]) + 1.0, SD=float(c["SD"]) * 1.5, ND=float(c["ND"]) * 2.0)


def poke(ser):
    """Overwrite a RESULT the code handed out (values in place) - it must be the caller's own copy."""
    if isinstance(ser, pd.DataFrame):
        ser.iloc[:, :] = -7.0
    elif isinstance(ser, pd.Series):
        ser.iloc[:] = -7.0
    elif isinstance(ser, np.ndarray) and ser.flags.writeable and ser.ndim:
        ser[...] = -7.0


# ------------------------------------------------------------------ generators
K1S = [1.0, 1.5, 3.0, 4.0, 5.0, 6.0, 7.0, 10.5, 15.0]
NDS = [1e4, 1e5, 1e6, 2e6, 1e7, 1e8, 123456.0]


def sd_positions(amps, counts):
    """Candidate endurance limits relative to the class amplitudes: (label, SD)."""
    pos = sorted(set(a for a in amps if a > 0))
    out = []
    if not pos:
        return [("free", 100.0)]
    out.append(("below-all", pos[0] / 2.0))
    out.append(("above-all", pos[-1] * 2.0))
    for a in pos:
        out.append(("at-class", a))
    for a, b in zip(pos, pos[1:]):
        out.append(("between", 0.5 * (a + b)))
    occ = sorted(a for a, n in zip(amps, counts) if n > 0 and a > 0)
    if occ and occ[-1] < pos[-1]:
        out.append(("in-empty-top", 0.5 * (occ[-1] + pos[-1])))
    return out


def dy(rng, lo, hi, q=4):
    """A dyadic number (multiple of 1/q) in [lo, hi]."""
    return rng.randint(int(lo * q), int(hi * q)) / q


def gen_members(rng, kind, m):
    shape = rng.choice(["regular", "irregular", "gaps"])
    if shape == "regular":
        w = dy(rng, 1, 200)
        start = dy(rng, 0, 100)
        brk = [start + i * w for i in range(m + 1)]
    else:
        brk = [dy(rng, 0, 100)]
        for _ in range(m):
            brk.append(brk[-1] + dy(rng, 0.25, 300))
    ivs = [[brk[i], brk[i + 1]] for i in range(m)]
    if shape == "gaps":
        ivs = [[a, a + (b - a) * rng.choice([0.25, 0.5, 1.0])] for a, b in ivs]
    if kind == "range":
        mem = ivs
    elif kind == "range_mean":
        mem = []
        for iv in ivs:
            ml = dy(rng, -200, 200)
            mem.append(iv + [ml, ml + dy(rng, 0.25, 100)])
    elif kind == "from_to":
        mem = []
        for _ in range(m):
            fl, tl = dy(rng, -500, 500), dy(rng, -500, 500)
            w1, w2 = dy(rng, 0.25, 100), dy(rng, 0.25, 100)
            mem.append([fl, fl + w1, tl, tl + w2])
        if rng.random() < 0.3:   # a class on the diagonal: amplitude 0
            mem[rng.randrange(m)] = [10.0, 20.0, 10.0, 20.0]
    elif kind == "collective":
        mem = [[dy(rng, -800, 800), dy(rng, -800, 800)] for _ in range(m)]
    else:
        mem = [[dy(rng, 0, 1500), dy(rng, -300, 300)] for _ in range(m)]
    if rng.random() < 0.35:
        rng.shuffle(mem)     # member order is free
    return mem, shape


def gen_counts(rng, amps, m):
    big = rng.choice([10, 1000, 10 ** 6, 10 ** 7])
    counts = [float(rng.randint(1, big)) if rng.random() < 0.8 else rng.randint(1, 4 * big) / 4.0 for _ in range(m)]
    pattern = rng.choice(["none", "top", "bottom", "middle", "top+bottom", "sparse", "single", "top2"])
    order = sorted(range(m), key=lambda i: amps[i])
    if pattern == "top":
        counts[order[-1]] = 0.0
    elif pattern == "top2":
        for i in order[-2:]:
            counts[i] = 0.0
    elif pattern == "bottom":
        counts[order[0]] = 0.0
    elif pattern == "middle" and m >= 3:
        counts[order[rng.randrange(1, m - 1)]] = 0.0
    elif pattern == "top+bottom":
        counts[order[0]] = 0.0
        counts[order[-1]] = 0.0
    elif pattern == "sparse":
        counts = [c if rng.random() < 0.4 else 0.0 for c in counts]
    elif pattern == "single":
        keep = rng.randrange(m)
        counts = [c if i == keep else 0.0 for i, c in enumerate(counts)]
    return counts, pattern


def gen_curve(rng, amps, counts):
    k1 = rng.choice(K1S) if rng.random() < 0.7 else round(rng.uniform(1.0, 15.0), 3)
    if rng.random() < 0.04:
        k1 = rng.choice([0.75, 0.625])      # accepted by the code; the ordering clause does not apply (D11-5), the others do
    mode = rng.choice(["inf", "inf", "absent", "k1", "haibach", "other"])
    k2 = {"inf": "inf", "absent": "absent", "k1": k1, "haibach": 2.0 * k1 - 1.0,
          "other": round(k1 + rng.uniform(0.0, 20.0), 3)}[mode]
    label, sd = rng.choice(sd_positions(amps, counts))
    if rng.random() < 0.25:
        label, sd = "free", dy(rng, 20, 1500)
    c = {"k_1": k1, "k_2": k2, "SD": sd, "ND": rng.choice(NDS)}
    r = rng.random()
    if r < 0.5:          # scatter and a native failure probability: the code then works on the curve shifted to 50 %
        which = rng.choice(["TN", "TN", "TS", "both", "both", "both"])
        if which in ("TN", "both"):
            c["TN"] = rng.choice([1.0, 3.0, 4.0, 12.5, 2.5])
        if which in ("TS", "both"):
            c["TS"] = rng.choice([1.0, 1.0, 1.25, 1.5, 2.0, 1.1])
        if rng.random() < 0.85:
            c["failure_probability"] = rng.choice([0.1, 0.1, 0.9, 0.9, 0.025, 0.5, 0.975, 0.3])
    elif r < 0.6:
        c["failure_probability"] = rng.choice([0.1, 0.9, 0.5])     # no scatter: the shift is the identity
    return c, label, mode


def random_case(rng, tier):
    kind = rng.choice(["range", "range", "range", "range_mean", "from_to", "collective", "collective_rm"])
    sizes = [1, 2, 3, 4, 5, 8, 12] if tier == "quick" else [1, 2, 3, 4, 5, 8, 12, 32, 64]
    m = rng.choice(sizes)
    members, shape = gen_members(rng, kind, m)
    case = {"kind": kind, "members": members, "scale": rng.choice([1.0, 1.0, 0.125, 0.25, 0.5, 0.75, 1.5, 2.0, 4.0, 3.0625])}
    if kind in ("range", "range_mean", "from_to"):
        case["loc"] = rng.choice(["mid", "mid", "mid", "left", "right"])
    amps = ref_amplitudes(case)
    counts, pattern = gen_counts(rng, amps, m)
    case["counts"] = counts
    if kind in ("collective", "collective_rm") and rng.random() < 0.3:
        case["unit_cycles"] = True
        case["counts"] = [1.0] * m
        pattern = "unit"
    curve, label, mode = gen_curve(rng, amps, eff_counts(case))
    case["curve"] = curve
    case["cut"] = rng.randint(1, m - 1) if m >= 2 else 0
    case["t"] = rng.choice([0.0, 0.5, 2.0, 3.0, 1000.0, 0.015625, 7.25])
    perm = list(range(m))
    rng.shuffle(perm)
    case["perm"] = perm
    # --- index / dtype layout of the pandas object (all layouts are what the pipeline itself produces)
    lay = {}
    r = rng.random()
    if kind in ("range", "range_mean", "from_to") and m >= 2 and r < 0.2:
        ids = [rng.choice([1, 2]) for _ in range(m)]
        ids[0], ids[-1] = 1, 2
        if rng.random() < 0.5:
            ids.sort()
        lay["elem"] = ids
        lay["elem_pos"] = rng.choice(["first", "first", "last"])
    elif m >= 2 and r < 0.35:
        k = rng.randint(1, m - 1)
        lay["concat_at"] = k
        if kind == "range" and rng.random() < 0.6:      # the same classes twice (pd.concat([h1, h2]))
            for i in range(k, m):
                case["members"][i] = list(case["members"][(i - k) % k])
    elif kind in ("collective", "collective_rm") and r < 0.55:
        lay["index"] = [rng.choice([1, 3, 7, 7, 12]) for _ in range(m)]
    if rng.random() < 0.3 and not case.get("unit_cycles"):
        lay["count_dtype"] = "int64"
        case["counts"] = [float(int(c)) for c in case["counts"]]
    if lay:
        case["layout"] = lay
    # --- object state: a collective that goes through the held accessor objects first, and explicit call sequences
    case["pre"] = rng.choice(["a", "a", "b", "b", "x2", "t", "perm", "none"])
    if rng.random() < 0.10:
        case["seq"] = [[rng.choice(SEQ_OPS), rng.choice(VARIANTS)] for _ in range(rng.randint(2, 6))]
    # --- a second curve: data frame of curves (df.fatigue.damage)
    if rng.random() < 0.2:
        case["curve2"] = dict(curve, k_1=rng.choice([3.0, 4.0, 6.5]), SD=curve["SD"] * rng.choice([0.5, 2.0, 1.25]),
                              ND=rng.choice(NDS))
    case["tags"] = {"shape": shape, "pattern": pattern, "sd": label, "k2": mode,
                    "layout": "+".join(sorted(lay)) or "flat"}
    return case


def exhaustive_cases(tier):
    """All occupancy patterns of a small regular histogram x every position of SD relative to the classes x
    5 curves (three k_2 variants and two native-probability curves)."""
    mmax = 4 if tier == "quick" else 6
    for m in range(1, mmax + 1):
        members = [[40.0 * i, 40.0 * (i + 1)] for i in range(1, m + 1)]     # amplitudes 30, 50, 70, ...
        base = {"kind": "range", "members": members, "scale": 1.0, "loc": "mid"}
        amps = ref_amplitudes(base)
        for occ in itertools.product([0, 1], repeat=m):
            counts = [float((i + 2) * 5 * o) for i, o in enumerate(occ)]
            for label, sd in sd_positions(amps, [1] * m) + [("in-empty-top", None)]:
                if sd is None:
                    continue
                for k1, k2, extra in ((5.0, "inf", {}), (5.0, 9.0, {}), (3.0, 3.0, {}),
                                      (5.0, "inf", {"TN": 4.0, "failure_probability": 0.1}),
                                      (4.0, 7.0, {"TN": 3.0, "TS": 1.25, "failure_probability": 0.9})):
                    yield dict(base, counts=counts, curve=dict({"k_1": k1, "k_2": k2, "SD": sd, "ND": 1e6}, **extra),
                               cut=m // 2, t=2.0, perm=list(reversed(range(m))), pre="a",
                               tags={"shape": "exh", "pattern": "".join(map(str, occ)), "sd": label, "k2": str(k2), "layout": "flat"})


def exhaustive_seq_cases(tier):
    """Every ordered pair of calls (method x collective) on ONE object of each class: whatever a first call could leave
    behind in the object, the second call would read it."""
    members = [[40.0 * i, 40.0 * (i + 1)] for i in range(1, 5)]      # amplitudes 30, 50, 70, 90
    base = {"kind": "range", "members": members, "scale": 1.0, "loc": "mid", "counts": [1000.0, 50.0, 5.0, 0.0],
            "cut": 2, "t": 3.0, "perm": [3, 1, 0, 2], "pre": "none"}
    curves = [{"k_1": 5.0, "k_2": 9.0, "SD": 60.0, "ND": 1e6, "TN": 4.0, "failure_probability": 0.1}]
    if tier != "quick":
        curves.append({"k_1": 4.0, "k_2": "inf", "SD": 50.0, "ND": 2e6})
    names = ("whole", "a") if tier == "quick" else ("whole", "a", "x2")
    items = [(op, name) for op in ("lm", "gc", "eds", "gnd", "dmg:own", "dmg:h") for name in names]
    for curve in curves:
        for x in items:
            for y in items:
                if (x[0].startswith("dmg")) != (y[0].startswith("dmg")):
                    continue            # the two calls go to different objects
                yield dict(base, curve=curve, seq=[list(x), list(y)],
                           tags={"shape": "exh-seq", "pattern": "1110", "sd": "between", "k2": str(curve["k_2"]), "layout": "flat"})


# ------------------------------------------------------------------ the property module
GASSNER_TOL = 1e-9
_WORKER = None


def _impl_raised(e):
    """True when the exception was raised below the harness (pylife / pandas / numpy), i.e. by the implementation
    on a generated, valid input; an exception raised by a harness line itself is an infrastructure error."""
    tb = traceback.extract_tb(e.__traceback__)
    return bool(tb) and not tb[-1].filename.endswith(os.path.join("harness", "c11.py"))


def _harness_side(e):
    """Exceptions that are about the machinery itself (core's rule when it has one)."""
    f = getattr(core, "_harness_side", None)
    return f(e) if f else isinstance(e, (MemoryError, OSError, ImportError, RecursionError))


def _work_with(prop, case):
    del COSMETIC[:]
    return prop._impl_lines(case), prop._oracle(case), sorted(set(COSMETIC))


def _work(case):
    """Runs in a forked worker: the implementation's answer lines, the oracle's verdict and the noted cosmetic changes of
    arguments for one case."""
    del COSMETIC[:]
    return _WORKER._impl_lines(case), _WORKER._oracle(case), sorted(set(COSMETIC))


class C11(Prop):
    ID = "C11"
    SOURCES = SOURCES
    LEAN_MODULES = ["Proofs.C11", "Proofs.BridgeC11"]
    THEOREMS = [
        "PylifeVerif.C11.damage_additive",
        "PylifeVerif.C11.damage_classwise_append",
        "PylifeVerif.C11.damage_scales_with_counts",
        "PylifeVerif.C11.damage_perm_invariant",
        "PylifeVerif.C11.damage_order_termwise",
        "PylifeVerif.C11.damage_order_original_le_haibach_le_elementary",
        "PylifeVerif.C11.gassner_elementary_damage_one",
        "PylifeVerif.C11.gassner_haibach_damage_one",
        "PylifeVerif.C11.gassner_curve_cycles",
        "PylifeVerif.C11.gassner_damage_one_at_any_level",
        "PylifeVerif.C11.damage_linear_native",
        "PylifeVerif.C11.damage_order_native",
        "PylifeVerif.C11.gassner_damage_one_native",
        "PylifeVerif.C11.gassner_curve_cycles_native",
        "PylifeVerif.C11.effective_damage_sum_bounds",
        "PylifeVerif.C11.effective_damage_sum_piecewise",
        "PylifeVerif.C11.effective_damage_sum_of_collective",
        # object state (audit D11-1): the accessor objects as a state machine, a used object answers like a fresh one
        "PylifeVerif.C11.object_sequence_eq_fresh",
        "PylifeVerif.C11.object_answer_independent_of_history",
        "PylifeVerif.C11.object_gassner_damage_one_after_any_history",
        # (gassner_unrepaired_* in Proofs/C11.lean are about the code BEFORE fix 110dd2d: documentation, not obligations)
    ] + ["PylifeVerif.Bridge." + t for t in [      # generated (translated) definitions = hand model
        "effective_damage_sum_eq", "finite_life_factor_eq"]]
    _K1 = ("the clause 'original <= Haibach <= elementary' is stated and proved for k_1 >= 1; WoehlerCurve._validate also accepts "
           "k_1 < 1 (no physical Woehler line); for 1/2 <= k_1 <= 1 the Haibach slope 2 k_1 - 1 is flatter than k_1 and "
           "damage_order_reversed_below_k1_one proves the non-strict order the other way round, elementary <= Haibach class by class "
           "(no strict counterexample is stated; k_1 < 1/2 is not treated) - the clause is not claimed for curves with k_1 < 1, the "
           "oracle skips it there and checks every other clause")
    PARTIAL = {"PylifeVerif.C11.damage_order_termwise": _K1,
               "PylifeVerif.C11.damage_order_original_le_haibach_le_elementary": _K1,
               "PylifeVerif.C11.damage_order_native": _K1}
    RULE = ("case = (Woehler curve k_1/k_2/SD/ND with optional TN/TS/failure_probability, collective given as range / range-mean / from-to histogram with "
            "IntervalIndex class limits or as LoadCollective data frame, cycle counts with empty classes, load scale applied through the collective's own scale(), "
            "class location, split point, count factor, permutation; index / dtype layout: extra element_id level before or after the class levels, two objects "
            "joined with pd.concat (duplicated classes), int64 counts, non-default non-unique frame index; a collective that goes through the held accessor objects "
            "first; optional call sequence; optional second curve = data frame of curves); class limits, counts and the load scale are dyadic so that class amplitudes are "
            "exact (k_1, the 'other' k_2 values, TS = 1.1, ND = 123456 and the failure probabilities are not dyadic); SD placed below / at / between / above the class amplitudes and inside an empty top class; "
            "correspondence: per-class damage, damage sums of the three Miner variants, solidity (Haibach, FKM; registered accessor at every class location), both lifetime "
            "multiples, both Gassner cycle numbers, damage after applying them, Gassner-shifted curve, effective "
            "damage sums, finite life factor - all from ONE elementary / Haibach / fatigue object that has evaluated another collective before; call sequences "
            "(lifetime_multiple, gassner_cycles, effective_damage_sum, gassner().ND, finite_life_factor, damage of the four variants, each on the collective, "
            "its parts, its permutation, its count multiple, twice its load) on one object of each class against Miner.run of the model incl. the state the object holds afterwards "
            "- relative tolerance 1e-11 (np.power vs libm pow), 1e-10 on curves shifted to 50 % (series ppf of the driver), absolute 1e-300; oracle tolerances: "
            "damage one after applying the Gassner cycles 1e-9 absolute (GASSNER_TOL), damage sums of parts / permutation 1e-12 relative, proportionality to the "
            "counts 1e-13 relative, variant order with 1e-12 relative head room, cycles of the Gassner-shifted curve 1e-10 relative, frame of curves 1e-12 relative; "
            "oracle additionally: scale() leaves its operand alone, held object = fresh object for every call of a "
            "sequence in both orders (bit-identical), curve Series / object state / collectives unmodified, data frame of curves pairs every row with its curve; "
            "call-sequence cases (seeding round 6): TWO objects of each class with different curves alive at once and called alternately (given order with curve 1 first, "
            "reverse order with curve 2 first), collectives built once and passed repeatedly (the same collective several times), every answer = fresh object on a freshly built "
            "collective; after every call the collective's pandas object(s), the curve Series and the array argument N have unchanged values and index (labels, order); "
            "results (damage, cycles, amplitude, cycles of the collective, Gassner curve) overwritten in place and asked again; one collective changed in place "
            "(cycles of its first member) after the objects evaluated it = fresh objects on the changed data; every case: the case's collective has unchanged values and index after all evaluations; "
            "degenerate collectives: the code's Gassner cycles are observed to be non-finite; non-trivial = not "
            "degenerate, at least two occupied classes and (an empty class or classes on both sides of SD or a call sequence)")
    ASSUMPTIONS = [
        "C11: the collective is observed through its accessors `amplitude` and `cycles` (LoadHistogram, LoadCollective); the model works on the list of (amplitude, cycles) pairs in row order - an extra element_id level, duplicated class labels, the dtype of the counts and the frame index do not enter (the Miner code pools all rows of the object; checked for these layouts); the harness derives the amplitudes from the class limits independently and the oracle compares them with the accessor after the code's own scale()",
        "C11: curves with native failure_probability in {0.025, 0.1, 0.3, 0.5, 0.9, 0.975} and scatter TN/TS (both, one, none given): damage, cycles and gassner_cycles evaluate the curve shifted to 50 % - the model imports Model/Woehler.lean `transform` (C08) for it, scipy.stats.norm.ppf is a parameter `ppf` in the theorems and a series implementation in the driver (tolerance 1e-10 on shifted curves); the Miner accessors take one curve (Series); a data frame of curves is observed through df.fatigue.damage by the oracle only (every row with its own curve; collectives with unique labels - pandas cannot join on a non-unique index) and is not in the model",
        "C11: theorems over the reals with x/0 = 0 and 0^(-k) = 0; the guards ValidCurve (SD, ND > 0), ValidColl (amplitudes, counts >= 0) and Loaded (some occupied class with positive amplitude) are observed, on the generated cases, to be exactly the inputs on which the real code does not return NaN/inf (for collectives that are not Loaded the code's lifetime multiples / Gassner cycles are observed to be NaN or inf - pinned by the check, model answer `degenerate`); effective_damage_sum_bounds holds over the reals for every A, the code is defined for A > 0 only (effective_damage_sum_of_collective: that is what it gets); pandas/numpy summation order and np.power rounding are not modelled (tolerance)",
        "C11: object state: the accessor objects (gassner_miner_elementary, gassner_miner_haibach, fatigue) are modelled as a state machine whose state is the class and the validated curve (Model/Miner.lean Obj/Op/step/run); the model's step hands the state on unchanged, i.e. it SAYS the code keeps nothing between calls - that this is true of the code is not proved but checked: every case evaluates another collective on the held objects first, call sequences on one object are compared with Miner.run (answers and final state) and with fresh objects in both orders; state of the interpreter outside these objects (module globals, pandas caches) is not modelled",
        "C11: argument integrity is judged by what a later call computes: values and index (labels, order) of the collective's pandas object, of the curve Series and of array arguments must be unchanged after a call; a renamed Series / index level, a changed dtype with equal values, a column or key ADDED to the caller's object change no later result and are outside the property - they are counted in the evidence (distribution.argument_changes_outside_the_property), not failed; `to_pandas()` is documented to expose the signal's own object and is not treated as a result that must not alias",
        "C11: the model is the REPAIRED Miner code (/repo commits 110dd2d: Gassner cycles from the largest occupied amplitude, and 54050c5: Haibach knee at the 50 % endurance limit); on a tree without these repairs the oracle reports the finding classes gassner-*-empty-top-class / gassner-*-below-SD / gassner-haibach-native-knee.  Two further repairs lie outside the model and are seen by the oracle only: collective-scale-modifies-operand (fixed by 3af2b75, LoadCollective.scale / shift) and frame-of-curves-one-level-multiindex (fixed by 190635a, Broadcaster)",
    ]

    # tie T (DESIGN 1.1): lean/Generated/<name>.lean are regenerated from the current python source before the build;
    # Proofs.BridgeC11 proves them equal to the hand model the property theorems are about
    TRANSLATED = ["Miner"]

    def setup(self, log):
        import os
        import sys
        tdir = os.path.join(core.VERIF, "translate")
        sys.path.insert(0, tdir)
        try:
            import translate as T
            ok, msg = T.run_modules(self.TRANSLATED, core.REPO, core.LEAN)
        except Exception as e:      # the translator itself is broken: every bridge obligation counts as broken
            ok, msg = False, f"translator crashed: {type(e).__name__}: {e}"
            for n in self.TRANSLATED:
                with open(os.path.join(core.LEAN, "Generated", n + "Status.lean"), "w") as f:
                    f.write('#eval (throw (IO.userError "translator crashed") : IO Unit)\n')
        finally:
            sys.path.remove(tdir)
        self.stats["translator"] = msg
        log(("translator: " + msg) if ok else ("TRANSLATOR FAILED (broken proof obligation): " + msg))

    def __init__(self):
        self.stats = {"by_kind": {}, "by_pattern": {}, "by_sd_position": {}, "by_k2": {}, "by_shape": {}, "by_layout": {},
                      "by_preloaded_collective": {}, "degenerate": 0, "sizes": {}, "empty_top": 0, "all_below_SD": 0,
                      "all_above_SD": 0, "straddle_SD": 0, "amplitude_exactly_SD": 0, "scaled": 0,
                      "scaled_through_scale_method": 0, "by_failure_probability": {}, "curve_shifted_to_50pct": 0,
                      "knee_shifted_to_50pct": 0, "only_TN_given": 0, "k1_below_one": 0, "int64_counts": 0,
                      "argument_changes_outside_the_property": {}, "sequence_cases": 0, "sequence_calls": 0, "by_sequence_op": {}, "frame_of_curves": 0}
        self.exhaustive = False
        self._verdicts = {}

    # ---------------------------------------------------------------- generation
    def generate(self, rng, tier):
        self.exhaustive = True
        self.stats["exhaustive_scope"] = ("regular range histogram with 1..%d classes: every occupancy pattern x SD below all / at "
                                          "each class / between classes / above all x (k_1,k_2) in {(5,inf),(5,9),(3,3)} and the curves (5,inf,TN=4,pf=0.1), (4,7,TN=3,TS=1.25,pf=0.9); "
                                          "object state: every ordered pair of calls from {lifetime_multiple, gassner_cycles, effective_damage_sum, gassner().ND (Miner-elementary object only)} x "
                                          "{collective, its first half%s} on one Miner-elementary and one Miner-Haibach object, "
                                          "and from {damage, miner_haibach().damage} x the same collectives on one fatigue object" % (4 if tier == "quick" else 6, "" if tier == "quick" else ", collective at twice the load"))
        for c in exhaustive_cases(tier):
            yield c
        for c in exhaustive_seq_cases(tier):
            yield c
        n = 800 if tier == "quick" else 7000
        for _ in range(n):
            yield random_case(rng, tier)

    def _count(self, case, amps, counts):
        s = self.stats
        tags = case.get("tags", {})
        exh = str(tags.get("shape", "")).startswith("exh")
        for key, tag in (("by_kind", case["kind"]), ("by_pattern", tags.get("pattern", "?") if not exh else "exh"),
                         ("by_sd_position", tags.get("sd", "?")), ("by_k2", tags.get("k2", "?") if not exh else "exh"),
                         ("by_shape", tags.get("shape", "?")), ("sizes", str(len(amps))),
                         ("by_layout", "+".join(sorted(layout(case))) or "flat"),
                         ("by_preloaded_collective", str(pre_name(case)))):
            s[key][tag] = s[key].get(tag, 0) + 1
        occ = [a for a, n in zip(amps, counts) if n > 0]
        sd = sd50(case["curve"])
        tn, ts, pf = scatter_of(case["curve"])
        s["by_failure_probability"][str(pf)] = s["by_failure_probability"].get(str(pf), 0) + 1
        if shifted(case["curve"]):
            s["curve_shifted_to_50pct"] += 1
            if ts != 1.0:
                s["knee_shifted_to_50pct"] += 1
            if "TS" not in case["curve"]:
                s["only_TN_given"] += 1
        if float(case["curve"]["k_1"]) < 1.0:
            s["k1_below_one"] += 1
        if layout(case).get("count_dtype") == "int64":
            s["int64_counts"] += 1
        if "curve2" in case:
            s["frame_of_curves"] += 1
        plan = seq_plan(case)
        if plan:
            s["sequence_cases"] += 1
            s["sequence_calls"] += len(plan)
            for op, _n, _a, _c in plan:
                s["by_sequence_op"][op] = s["by_sequence_op"].get(op, 0) + 1
        if degenerate(amps, counts):
            s["degenerate"] += 1
            return
        if max(occ) < max(amps):
            s["empty_top"] += 1
        if max(occ) < sd:
            s["all_below_SD"] += 1
        elif min(occ) >= sd:
            s["all_above_SD"] += 1
        else:
            s["straddle_SD"] += 1
        if any(a == sd for a in occ):
            s["amplitude_exactly_SD"] += 1
        if case.get("scale", 1.0) != 1.0:
            s["scaled"] += 1
            s["scaled_through_scale_method"] += 1

    # ---------------------------------------------------------------- correspondence
    def model_lines(self, case):
        c = case["curve"]
        amps = ref_amplitudes(case)
        counts = eff_counts(case)
        head = curve_tokens(c)
        body = " ".join(f"{f2h(a)} {f2h(n)}" for a, n in zip(amps, counts))
        lines = [f"mn_damage {head} {body}", f"mn_miner {head} {body}",
                 f"mn_flf {f2h(c['k_1'])} {f2h(c['ND'])} {f2h(sum(counts) + 1.0)}"]
        plan = seq_plan(case)
        if plan:            # the same call sequence on ONE model object of each class (Miner.run threads the state)
            for kind in ("e", "h", "f"):
                toks = []
                for op, _name, a, n in plan:
                    if op not in OBJ_OPS[kind]:
                        continue
                    coll = f"{len(a)} " + " ".join(f"{f2h(x)} {f2h(y)}" for x, y in zip(a, n))
                    if op == "flf":
                        toks.append(f"flf {f2h(sum(n))}")
                    elif op.startswith("dmg:"):
                        toks.append(f"dmg {op[4:]} {coll}")
                    else:
                        toks.append(f"{op} {coll}")
                lines.append(f"mn_seq {kind} {head} " + " ".join(toks))
        return lines

    def impl_all(self, cases):
        """All cases through the real code, sharded over processes; the oracle verdicts are computed in the same
        pass and handed out by `oracle` (run_check calls it per case afterwards)."""
        global _WORKER
        import multiprocessing as mp
        pl()
        # run_check sets known_classes only before ITS oracle pass; the verdicts are computed here
        self.known_classes = {e["class"] for e in core.load_known(self.ID) if e.get("status") == "open"}
        for c in cases:
            self._count(c, ref_amplitudes(c), eff_counts(c))
        nproc = min(16, os.cpu_count() or 1, max(1, len(cases) // 40))
        if nproc <= 1:
            res = [_work_with(self, c) for c in cases]
        else:
            _WORKER = self
            with mp.get_context("fork").Pool(nproc) as pool:
                res = pool.map(_work, cases, chunksize=max(1, len(cases) // (nproc * 8)))
        self.stats["processes"] = nproc
        for c, (_lines, verdict, notes) in zip(cases, res):
            self._verdicts[json.dumps(c, sort_keys=True)] = verdict
            for note in notes:      # cases in which an argument came back changed in a way no later result depends on
                d = self.stats["argument_changes_outside_the_property"]
                d[note] = d.get(note, 0) + 1
        return [r[0] for r in res]

    def impl_lines(self, case):
        self._count(case, ref_amplitudes(case), eff_counts(case))
        return self._impl_lines(case)

    def oracle(self, case):
        key = json.dumps(case, sort_keys=True)
        if key in self._verdicts:
            return self._verdicts[key]
        return self._oracle(case)

    def _nlines(self, case):
        return 6 if seq_plan(case) else 3

    def _impl_lines(self, case):
        try:
            return self._impl_lines_body(case)
        except Exception as e:
            if _impl_raised(e) or not _harness_side(e):
                return [f"error:{type(e).__name__}"] * self._nlines(case)
            raise

    def _oracle(self, case):
        seen = self._known_seen = []
        try:
            res = self._oracle_body(case)
        except Exception as e:
            if _impl_raised(e):
                return (f"the implementation raised {type(e).__name__}: {str(e)[:200]}", "implementation-raises")
            if _harness_side(e):
                raise
            # raised in a harness line while it digests what the implementation returned (changed shape / type / index):
            # a failure of the property on this input, not an infrastructure problem (same policy as core._oracle_safe)
            return (f"the implementation's result cannot be interpreted: {type(e).__name__}: {str(e)[:200]}", "unexpected-result")
        if res is None and seen:
            return seen[0]         # only open known findings on this case
        return res

    def _impl_lines_body(self, case):
        miner, sol = pl()
        amps = ref_amplitudes(case)
        counts = eff_counts(case)
        wc = curve_series(case["curve"])
        with warnings.catch_warnings():
            warnings.simplefilter("ignore")
            # ONE object of each class for the whole case; another collective goes through them first
            me = wc.gassner_miner_elementary
            mh = wc.gassner_miner_haibach
            fat = wc.fatigue
            pre = pre_name(case)
            if pre is not None:
                plc = vbuild(case, pre)
                me.gassner_cycles(plc)
                mh.gassner_cycles(plc)
            lc = build(case)
            dmg = fat.damage(lc)
            line1 = " ".join(f2h(x) for x in list(np.asarray(dmg, dtype=float)) + [float(dmg.sum())])
            line3 = f2h(fnum(me.finite_life_factor(sum(counts) + 1.0)))
            if degenerate(amps, counts):
                line2 = "degenerate"
                got = {}
                for name, fn in (("A_ele", lambda: me.lifetime_multiple(lc)), ("A_hai", lambda: mh.lifetime_multiple(lc)),
                                 ("NG_ele", lambda: me.gassner_cycles(lc)), ("NG_hai", lambda: mh.gassner_cycles(lc))):
                    try:
                        v = fnum(fn())
                        got[name] = "nan" if v != v else "inf" if math.isinf(v) else repr(v)
                    except (ValueError, ZeroDivisionError, FloatingPointError) as e:
                        got[name] = type(e).__name__
                if any(v not in ("nan", "inf", "ValueError", "ZeroDivisionError", "FloatingPointError") for v in got.values()):
                    line2 = "degenerate-but-finite:" + ",".join(f"{k}={v}" for k, v in got.items())   # the model says: no lifetime
                lines = [line1, line2, line3]
            else:
                k1 = float(case["curve"]["k_1"])
                if case["kind"] in ("range", "range_mean", "from_to"):
                    sa = lc.cycles.solidity                   # the registered accessor, every class location
                    if case.get("loc", "mid") == "left":
                        sa = sa.use_class_left()
                    elif case.get("loc", "mid") == "right":
                        sa = sa.use_class_right()
                    V, Vf = sa.haibach(k1), sa.fkm(k1)
                else:
                    V, Vf = sol.haibach(lc, k1), sol.fkm(lc, k1)
                Ae = fnum(me.lifetime_multiple(lc))
                Ah = fnum(mh.lifetime_multiple(lc))
                NGe = fnum(me.gassner_cycles(lc))
                NGh = fnum(mh.gassner_cycles(lc))
                g = me.gassner(lc)
                tot = sum(counts)
                De = float(fat.miner_elementary().damage(build(with_counts(case, [n * NGe / tot for n in counts]))).sum()) if math.isfinite(NGe) else math.inf
                Dh = float(fat.miner_haibach().damage(build(with_counts(case, [n * NGh / tot for n in counts]))).sum()) if math.isfinite(NGh) else math.inf
                mocc = max(a for a, n in zip(amps, counts) if n > 0)
                vals = [fnum(V), Ae, Ah, NGe, NGh, fnum(me.effective_damage_sum(lc)), fnum(mh.effective_damage_sum(lc)),
                        fnum(me.finite_life_factor(tot)), fnum(g.ND), De, Dh, fnum(g.cycles(mocc)),
                        float(fat.miner_original().damage(lc).sum()), float(fat.miner_haibach().damage(lc).sum()),
                        float(fat.miner_elementary().damage(lc).sum()), fnum(Vf)]
                lines = [line1, " ".join(f2h(x) for x in vals), line3]
            plan = seq_plan(case)
            if plan:
                lcs = {}
                for _op, name, _a, _n in plan:
                    if name not in lcs:
                        lcs[name] = vbuild(case, name)         # built once, used by every call that names it
                for kind in ("e", "h", "f"):
                    obj = make_obj(kind, wc)
                    ans = [call(obj, op, lcs[name], sum(n)) for op, name, _a, n in plan if op in OBJ_OPS[kind]]
                    lines.append(" ".join([f2h(x) for x in ans] + ["|", kind] + [f2h(x) for x in state_of(obj)]))
        return lines

    def compare(self, case, model_out, impl_out):
        if len(model_out) != len(impl_out):
            return f"length {len(model_out)} vs {len(impl_out)}"
        names = ["damage", "miner", "finite_life_factor", "call sequence on one Miner-elementary object",
                 "call sequence on one Miner-Haibach object", "call sequence on one fatigue object"]
        for i, (a, b) in enumerate(zip(model_out, impl_out)):
            ta, tb = a.split(), b.split()
            if len(ta) != len(tb):
                return f"{names[i]}: model={a[:200]!r} impl={b[:200]!r}"
            for j, (x, y) in enumerate(zip(ta, tb)):
                if x == y:
                    continue
                try:
                    fx, fy = h2f(x), h2f(y)
                except Exception:
                    return f"{names[i]}[{j}]: model={x!r} impl={y!r}"
                if not core.close(fx, fy, rtol=1e-10 if shifted(case["curve"]) else 1e-11, atol=1e-300):
                    return f"{names[i]}[{j}]: model={fx!r} impl={fy!r}"
        return None

    def nontrivial(self, case, model_out):
        if not model_out or model_out[1] == "degenerate":
            return None
        amps = ref_amplitudes(case)
        counts = eff_counts(case)
        occ = [a for a, n in zip(amps, counts) if n > 0]
        sd = sd50(case["curve"])
        if len(occ) < 2:
            return None
        if len(occ) == len(amps) and not (min(occ) < sd <= max(occ)) and not seq_plan(case):
            return None
        return json.dumps({k: case[k] for k in ("kind", "members", "counts", "curve", "scale", "layout", "seq", "pre") if k in case}, sort_keys=True)

    # ---------------------------------------------------------------- the property on the real code
    def _oracle_body(self, case):
        miner, sol = pl()
        wc = curve_series(case["curve"])
        wc_before = wc.copy()
        members = case["members"]
        counts = eff_counts(case)
        m = len(members)
        amps = ref_amplitudes(case)
        k1 = float(case["curve"]["k_1"])
        sd = sd50(case["curve"])
        tn, ts, pf = scatter_of(case["curve"])
        with warnings.catch_warnings():
            warnings.simplefilter("ignore")
            lc, lc_raw = build(case, raw=True)
            owned = [(lc_raw, snap(lc_raw), "the pandas object the collective was made from"),
                     (lc.to_pandas(), snap(lc.to_pandas()), "the pandas object of the collective accessor")]
            got_amp = [float(x) for x in np.asarray(lc.amplitude, dtype=float)]
            if got_amp != amps:
                return (f"amplitude accessor {got_amp} != class amplitudes {amps} (load scale {case.get('scale', 1.0)} applied by the collective's scale())", "amplitude-accessor")
            got_cyc = [float(x) for x in np.asarray(lc.cycles, dtype=float)]
            if got_cyc != counts:
                return (f"cycles accessor {got_cyc} != counts {counts}", "cycles-accessor")
            # --- "scaled to any load level": scaling returns a new collective and leaves the one it was asked of alone
            sc = lc.scale(0.5)
            sc_amp = [float(x) for x in np.asarray(sc.amplitude, dtype=float)]
            if case.get("loc", "mid") == "mid" and sc_amp != [0.5 * a for a in amps]:
                return (f"scale(0.5): amplitudes {sc_amp}, expected {[0.5 * a for a in amps]}", "amplitude-accessor")
            again = [float(x) for x in np.asarray(lc.amplitude, dtype=float)], [float(x) for x in np.asarray(lc.cycles, dtype=float)]
            if again != (amps, counts):
                d = (f"collective.scale(0.5) changed the collective it was called on: amplitudes/cycles {(amps, counts)} before, {again} after "
                     f"(kind {case['kind']}); every later damage / Gassner evaluation of that collective is at the wrong load level")
                # the finding (fixed by 3af2b75; known() tolerates open classes only, a recurrence is reported) was exactly: a
                # LoadCollective FRAME takes over the scaled from/to values, cycles untouched
                narrow = case["kind"] in ("collective", "collective_rm") and again == ([0.5 * a for a in amps], counts)
                k = "collective-scale-modifies-operand" if narrow else "collective-modified"
                if not self.known(k, d):
                    return (d, k)
                lc = build(case)
            # ONE fatigue / Miner object of each class for the whole case (the way scripts use them); a different
            # collective goes through them first
            fat = wc.fatigue
            me = wc.gassner_miner_elementary
            mh = wc.gassner_miner_haibach
            pre = pre_name(case)
            if pre is not None:
                plc = vbuild(case, pre)
                fat.damage(plc)
                me.gassner_cycles(plc)
                mh.gassner_cycles(plc)
            dmg = np.asarray(fat.damage(lc), dtype=float)
            D = float(dmg.sum())
            if len(dmg) != m:
                return (f"damage has {len(dmg)} entries for a collective of {m} members", "damage-value")
            if not np.all(np.isfinite(dmg)) or np.any(dmg < 0):
                return (f"damage values {list(dmg)} not finite and non-negative", "damage-value")
            # --- additive over the members
            if variant(case, "a") is not None:
                da = np.asarray(fat.damage(vbuild(case, "a")), dtype=float)
                db = np.asarray(fat.damage(vbuild(case, "b")), dtype=float)
                if list(da) + list(db) != list(dmg):
                    return (f"per-class damage of the parts {list(da)}+{list(db)} != of the whole {list(dmg)}", "additivity")
                if not core.close(float(da.sum()) + float(db.sum()), D, rtol=1e-12):
                    return (f"damage of parts {float(da.sum())} + {float(db.sum())} != damage of the whole {D}", "additivity")
            # --- proportional to the counts
            t = float(case.get("t", 2.0))
            dt = np.asarray(fat.damage(build(with_counts(case, [t * n for n in counts]))), dtype=float)
            for x, y in zip(dt, dmg):
                if not core.close(float(x), t * float(y), rtol=1e-13, atol=1e-300):
                    return (f"counts x {t}: damage {list(dt)} != {t} x {list(dmg)}", "proportionality")
            # --- independent of the member order
            perm = case.get("perm") or list(range(m))
            dp = np.asarray(fat.damage(build(case, perm)), dtype=float)
            if list(dp) != [dmg[i] for i in perm]:
                return (f"permuted members {perm}: damage {list(dp)} != permuted damage {[dmg[i] for i in perm]}", "order")
            if not core.close(float(dp.sum()), D, rtol=1e-12):
                return (f"permuted members: damage sum {float(dp.sum())} != {D}", "order")
            # --- original <= Haibach <= elementary, class by class
            d_o = np.asarray(fat.miner_original().damage(lc), dtype=float)
            d_h = np.asarray(fat.miner_haibach().damage(lc), dtype=float)
            d_e = np.asarray(fat.miner_elementary().damage(lc), dtype=float)
            if k1 >= 1.0:
                for i in range(m):
                    if not (d_o[i] <= d_h[i] * (1 + 1e-12) and d_h[i] <= d_e[i] * (1 + 1e-12)):
                        return (f"class {i} (amplitude {amps[i]}): original {d_o[i]} <= Haibach {d_h[i]} <= elementary {d_e[i]} violated", "variant-order")
            # --- the same through the data frame accessor: two curves, every row with ITS curve
            if "curve2" in case and lc.cycles.index.is_unique:      # label-based pairing needs unique labels (pandas: join on a non-unique index is not implemented)
                r = self._frame_of_curves(case, lc, amps, counts)
                if r is not None:
                    return r
            if degenerate(amps, counts):
                # no occupied class carries load: there is no lifetime to predict, the code must not invent one
                for rule, mn in (("elementary", me), ("haibach", mh)):
                    try:
                        NG = fnum(mn.gassner_cycles(lc))
                    except (ValueError, ZeroDivisionError, FloatingPointError):
                        continue
                    if math.isfinite(NG):
                        return (f"Miner-{rule} Gassner cycles = {NG} for a collective without a loaded occupied class (amplitudes {amps}, counts {counts})",
                                "degenerate-collective-finite-life")
                return self._unchanged(wc, wc_before, {"e": me, "h": mh, "f": fat}, case["curve"])
            # --- Gassner cycles give damage one
            occ = [a for a, n in zip(amps, counts) if n > 0]
            mocc = max(occ)
            tot = sum(counts)

            def klass(rule):
                if shifted(case["curve"]):      # the 50 % curve differs from the native one
                    if rule == "haibach" and ts != 1.0:
                        return "gassner-haibach-native-knee"
                    return f"gassner-{rule}-native-probability"
                if mocc < max(amps):
                    return f"gassner-{rule}-empty-top-class"
                if mocc < sd:
                    return f"gassner-{rule}-below-SD"
                return f"gassner-{rule}-damage-not-one"
            bad = []
            NGs = {}
            for rule, mn, variant_ in (("elementary", me, fat.miner_elementary()), ("haibach", mh, fat.miner_haibach())):
                NG = NGs[rule] = fnum(mn.gassner_cycles(lc))
                if not (math.isfinite(NG) and NG > 0):
                    bad.append((f"Miner-{rule} Gassner cycles = {NG} for a collective with occupied classes up to amplitude {mocc} (SD {sd})", klass(rule)))
                    continue
                applied = build(with_counts(case, [n * NG / tot for n in counts]))
                Dg = float(variant_.damage(applied).sum())
                if not abs(Dg - 1.0) <= GASSNER_TOL:
                    first = "" if pre is None else f" [the Miner object had evaluated the collective '{pre}' of this case before]"
                    bad.append((f"Miner-{rule}: applying the collective for its Gassner cycles {NG} gives damage {Dg}, not 1 "
                                f"(amplitudes {amps}, counts {counts}, curve {case['curve']}, knee of the 50 % curve {sd}){first}", klass(rule)))
            if bad:
                # is it the object's history?  a fresh object of the same curve asked the same question
                for rule, acc in (("elementary", "gassner_miner_elementary"), ("haibach", "gassner_miner_haibach")):
                    fresh = fnum(getattr(curve_series(case["curve"]), acc).gassner_cycles(build(case)))
                    if rule in NGs and not same(fresh, NGs[rule]):
                        return (f"Miner-{rule} object that evaluated the collective '{pre}' first returns Gassner cycles {NGs[rule]} for the case's "
                                f"collective, a fresh object returns {fresh}; " + "; ".join(b[0] for b in bad), "object-state")
                return ("; ".join(b[0] for b in bad), bad[0][1])
            for rule, mn in (("elementary", me), ("haibach", mh)):
                dm = fnum(mn.effective_damage_sum(lc))
                if not (0.3 <= dm <= 1.0):
                    return (f"Miner-{rule}: effective damage sum {dm} outside [0.3, 1] (lifetime multiple {fnum(mn.lifetime_multiple(lc))})", "effective-damage-sum")
            # the Gassner-shifted curve (Miner elementary) predicts the same cycles and damage one
            g = me.gassner(lc)
            NGe = NGs["elementary"]
            Ng = fnum(g.cycles(mocc))
            if not core.close(Ng, NGe, rtol=1e-10):
                return (f"Gassner-shifted curve gives {Ng} cycles at the largest occupied amplitude {mocc}, gassner_cycles gives {NGe}",
                        "gassner-elementary-native-probability" if shifted(case["curve"]) else
                        "gassner-elementary-below-SD" if mocc < sd else "gassner-curve")
            dg = float(g.damage(pd.Series({"amplitude": mocc, "cycles": Ng})).sum())
            if not abs(dg - 1.0) <= GASSNER_TOL:
                return (f"Gassner-shifted curve: damage of its own cycle number is {dg}", "gassner-curve")
            # --- explicit call sequences on one object, forwards and backwards, against fresh objects
            r = self._sequences(case)
            if r is not None:
                return r
            r = self._unchanged(wc, wc_before, {"e": me, "h": mh, "f": fat}, case["curve"])
            if r is not None:
                return r
            after = [float(x) for x in np.asarray(lc.amplitude, dtype=float)], [float(x) for x in np.asarray(lc.cycles, dtype=float)]
            if after != (amps, counts):
                return (f"the collective was modified by the evaluations: amplitudes/cycles {after} after, {(amps, counts)} before", "collective-modified")
            for now, was, what in owned:        # bit for bit: values, index, names, dtypes, columns
                d = differs(now, was)
                if d is not None:
                    return (f"the evaluations of this case (damage, Gassner cycles, lifetime multiples, scale) modified {what}: {d}", "argument-modified")
        # --- effective damage sum for arbitrary multiples
        for A in (1e-9, 0.5, 1.0, 16.0, 17.0, 1975.308641975309, 1e12, float(case.get("t", 2.0)) + 0.001):
            dm = miner.effective_damage_sum(A)
            if not (0.3 <= dm <= 1.0):
                return (f"effective_damage_sum({A}) = {dm} outside [0.3, 1]", "effective-damage-sum")
        return None

    def _unchanged(self, wc, wc_before, objs, curve):
        """Neither the curve the user handed in nor what the accessor objects hold has been written to."""
        if list(wc.index) != list(wc_before.index) or any(not same(float(x), float(y)) for x, y in zip(wc, wc_before)):
            return (f"the curve Series handed to the accessors was modified: {dict(wc_before)} -> {dict(wc)}", "operand-modified")
        ref = state_of(make_obj("f", wc_before.copy()))
        for kind, obj in objs.items():
            st = state_of(obj)
            if any(not same(x, y) for x, y in zip(st, ref)):
                return (f"the {kind!r} accessor object holds {dict(zip(STATE_KEYS, st))} after the calls, {dict(zip(STATE_KEYS, ref))} when fresh (curve {curve})", "object-state")
        return None

    def _sequences(self, case):
        """case['seq'] as calls on accessor objects that live on (audit D11-1, seeding round 6: state that goes stale, arguments
        that are modified, results that alias internal state).  Two objects of each class with DIFFERENT curves are alive at once
        and are called alternately, once in the given order (first curve first) and once in the reverse order (second curve
        first); the collectives are built once and passed again and again; then one collective is changed in place and every
        call is repeated.  Every answer must be, bit for bit, the answer of a fresh object to a freshly built collective; every
        argument must be, bit for bit, what it was before the call; overwriting a returned Series must not change the next
        answer."""
        plan = seq_plan(case)
        if not plan:
            return None
        label = {"e": "Miner-elementary", "h": "Miner-Haibach", "f": "fatigue"}
        curves = [case["curve"], other_curve(case)]
        fresh = {}
        for c, curve in enumerate(curves):
            for kind in ("e", "h", "f"):
                for i, (op, name, _a, n) in enumerate(plan):
                    if op in OBJ_OPS[kind]:
                        fresh[c, kind, i] = call(make_obj(kind, curve_series(curve)), op, vbuild(case, name), np.array([float(sum(n))]))
        for rev in (False, True):
            order = list(reversed(range(len(plan)))) if rev else list(range(len(plan)))
            wcs = [curve_series(c) for c in curves]
            wcs_before = [snap(w) for w in wcs]
            held, owned = {}, {}          # collective accessors / the pandas objects behind them, with their snapshots
            for _op, name, _a, _n in plan:
                if name not in held:
                    vc, sel = variant(case, name)
                    acc, raw = build(vc, sel, raw=True)
                    held[name] = acc
                    owned[name] = [(raw, snap(raw), "the pandas object the collective was made from"),
                                   (acc.to_pandas(), snap(acc.to_pandas()), "the pandas object of the collective accessor")]
            for kind in ("e", "h", "f"):
                objs = [make_obj(kind, w) for w in wcs]
                before = [state_of(o) for o in objs]
                done = []
                for i in order:
                    op, name, _a, n = plan[i]
                    if op not in OBJ_OPS[kind]:
                        continue
                    N = np.array([float(sum(n))])
                    N_before = snap(N)
                    for c in ((1, 0) if rev else (0, 1)):
                        got = call(objs[c], op, held[name], N)
                        who = f"{label[kind]} object of curve {c + 1} ({curves[c]}), the object of the other curve ({curves[1 - c]}) alive and called alternately"
                        if not same(got, fresh[c, kind, i]):
                            return (f"{who}; calls so far {done}: {op}({name!r} collective) returns {got!r}, a fresh object with a freshly built collective returns "
                                    f"{fresh[c, kind, i]!r} (collective '{name}' = amplitudes/counts {vdata(case, name)})", "object-state")
                        done.append(f"{op}[curve {c + 1}]({name})")
                        if len(wcs[c]) > len(wcs_before[c]) and all(k in wcs[c].index for k in wcs_before[c].index):
                            COSMETIC.append("key added to the caller's curve Series")       # informational key: outside the property
                            wcs_now = wcs[c][list(wcs_before[c].index)]
                        else:
                            wcs_now = wcs[c]
                        for now, was, what in owned[name] + [(wcs_now, wcs_before[c], "the curve Series"), (N, N_before, "the array N")]:
                            d = differs(now, was)
                            if d is not None:
                                return (f"{who}: {op}({name!r} collective) modified its argument - {what}: {d}", "argument-modified")
                after = [state_of(o) for o in objs]
                for c in (0, 1):
                    if any(not same(x, y) for x, y in zip(before[c], after[c])):
                        return (f"one {label[kind]} object after the calls {done}: holds {dict(zip(STATE_KEYS, after[c]))}, before {dict(zip(STATE_KEYS, before[c]))}", "object-state")
            for name, acc in held.items():
                a, n = vdata(case, name)
                got = [float(x) for x in np.asarray(acc.amplitude, dtype=float)], [float(x) for x in np.asarray(acc.cycles, dtype=float)]
                if got != (a, n):
                    return (f"the collective '{name}' was modified by the calls: amplitudes/cycles {got} after, {(a, n)} before", "collective-modified")
        # --- results handed out are the caller's: overwrite them, ask again (objects and collectives of the last pass live on)
        name = plan[0][1]
        acc = held[name]
        fat, me = make_obj("f", wcs[0]), make_obj("e", wcs[0])
        for what, fn in (("fatigue.damage(collective)", lambda: fat.damage(acc)),
                         ("fatigue.cycles(collective.amplitude)", lambda: fat.cycles(acc.amplitude)),
                         ("collective.amplitude", lambda: acc.amplitude),
                         ("collective.cycles", lambda: acc.cycles),
                         ("gassner_miner_elementary.gassner(collective).to_pandas()", lambda: me.gassner(acc).to_pandas())):
            first = fn()
            keep = snap(first)
            poke(first)
            d = differs(fn(), keep)
            if d is not None:
                return (f"{what} of collective '{name}': after the returned object was overwritten in place the same call returns something else: {d} "
                        f"(the result aliases internal state)", "result-aliases-state")
        for now, was, what in owned[name]:
            d = differs(now, was)
            if d is not None:
                return (f"overwriting results returned for collective '{name}' changed {what}: {d}", "result-aliases-state")
        # --- a collective changed in place between calls (only where the accessor reads the caller's own object)
        for name in held:
            vc, sel = variant(case, name)
            raw = owned[name][0][0]
            if held[name].to_pandas() is not raw or vc.get("unit_cycles"):
                continue
            a, n = vdata(case, name)
            n2 = [2.0 * n[0] + 3.0] + list(n[1:])
            todo = [(c, kind, op) for c in (0, 1) for kind in ("e", "h", "f") for op, nm, _a, _n in plan if nm == name and op in OBJ_OPS[kind]]
            objs = {(c, kind): make_obj(kind, wcs[c]) for c, kind, _op in todo}
            for c, kind, op in todo:
                call(objs[c, kind], op, held[name], np.array([float(sum(n))]))       # the objects have seen the collective as it was
            if isinstance(raw, pd.DataFrame):
                raw.iloc[0, raw.columns.get_loc("cycles")] = n2[0]
            else:
                raw.iloc[0] = n2[0]
            for c, kind, op in todo:
                got = call(objs[c, kind], op, held[name], np.array([float(sum(n2))]))
                want = call(make_obj(kind, curve_series(curves[c])), op, build(vc, sel, counts=n2), np.array([float(sum(n2))]))
                if not same(got, want):
                    return (f"collective '{name}' changed in place (cycles of its first member {n[0]} -> {n2[0]}) after the {label[kind]} object had evaluated it: "
                            f"{op} returns {got!r}, fresh objects on the changed data return {want!r} (curve {curves[c]}, amplitudes {a}, counts {n2})",
                            "object-state")
            break            # one collective per case
        return None

    def _frame_of_curves(self, case, lc, amps, counts):
        """`df.fatigue.damage`: a data frame of two curves (element_id 1, 2).  A collective with an element_id level is
        paired element by element, any other collective is evaluated under both curves."""
        c1, c2 = curve_series(case["curve"]), curve_series(case["curve2"])
        wcs = pd.DataFrame([c1, c2], index=pd.Index([1, 2], name="element_id"))
        try:
            res = wcs.fatigue.damage(lc)
        except KeyError as e:
            idx = lc.cycles.index
            if isinstance(idx, pd.MultiIndex) and idx.nlevels == 1 and e.args == (None,):
                # former Broadcaster defect (C13, audit D13-2, fixed by 190635a): a one-level MultiIndex - what
                # LoadHistogram.scale() returns for a plain range histogram - against a frame of curves; the class is fixed, so
                # known() tolerates nothing here and a recurrence is reported
                d = (f"data frame of curves x range histogram scaled by {case.get('scale', 1.0)} (scale() returns a one-level MultiIndex): "
                     f"Broadcaster raises KeyError(None)")
                k = "frame-of-curves-one-level-multiindex"
                return None if self.known(k, d) else (d, k)
            raise
        ids = np.asarray(res.index.get_level_values("element_id"))
        vals = np.asarray(res, dtype=float)
        d = {1: np.asarray(c1.fatigue.damage(lc), dtype=float), 2: np.asarray(c2.fatigue.damage(lc), dtype=float)}
        elem = layout(case).get("elem")
        for e in (1, 2):
            if elem is not None:
                want = sorted(float(d[e][i]) for i in range(len(amps)) if elem[i] == e)
            else:
                want = sorted(float(x) for x in d[e])
            got = sorted(float(x) for x in vals[ids == e])
            if len(got) != len(want) or any(not core.close(x, y, rtol=1e-12, atol=1e-300) for x, y in zip(got, want)):
                return (f"data frame of curves, element {e}: damage values {got} (sorted), the curve of that element alone gives {want} "
                        f"(curves {case['curve']} / {case['curve2']}, amplitudes {amps}, counts {counts}, element ids {elem})", "frame-of-curves")
        return None

    # ---------------------------------------------------------------- shrinking
    def shrink(self, case, still_fails):
        cur = dict(case)
        cur.pop("tags", None)

        def drop(c, i):
            d = dict(c)
            d["members"] = c["members"][:i] + c["members"][i + 1:]
            d["counts"] = c["counts"][:i] + c["counts"][i + 1:]
            mm = len(d["members"])
            d["perm"] = list(reversed(range(mm)))
            d["cut"] = mm // 2
            if "layout" in c:
                lay = dict(c["layout"])
                for k in ("elem", "index"):
                    if k in lay:
                        lay[k] = lay[k][:i] + lay[k][i + 1:]
                if "concat_at" in lay:
                    lay["concat_at"] = mm // 2
                d["layout"] = lay
            return d
        changed = True
        while changed and len(cur["members"]) > 1:
            changed = False
            for i in range(len(cur["members"])):
                cand = drop(cur, i)
                try:
                    if still_fails(cand):
                        cur, changed = cand, True
                        break
                except Exception:
                    continue
        simpler = [{"scale": 1.0}, {"counts": [1.0 if n > 0 else 0.0 for n in cur["counts"]]}, {"t": 2.0}]
        for key in ("layout", "curve2", "seq"):
            if key in cur:
                simpler.append({key: None})
        if cur.get("seq"):
            for j in range(len(cur["seq"])):
                simpler.append({"seq_drop": j})
        for change in simpler:
            cand = dict(cur)
            if "seq_drop" in change:
                if not cand.get("seq") or len(cand["seq"]) <= 2:
                    continue
                j = min(change["seq_drop"], len(cand["seq"]) - 1)
                cand["seq"] = cand["seq"][:j] + cand["seq"][j + 1:]
            else:
                for k, v in change.items():
                    if v is None:
                        cand.pop(k, None)
                    else:
                        cand[k] = v
            try:
                if still_fails(cand):
                    cur = cand
            except Exception:
                pass
        return cur
