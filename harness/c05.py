"""C05: HCM stress-strain bookkeeping, point by point."""
import itertools
import random

import numpy as np
import pandas as pd

from . import hcm
from .core import Prop

LEVELS = [-200, -100, 0, 100, 200]
RATIOS = [[1], [1, 2], [2, 1], [1, 3, 2], [3, 1], [2, 3, 1, 4], [1, 0, 2], [2, 0], [1, 3, 0]]      # 0: an unloaded point (never the first)
COLS = ["loads_min", "loads_max", "S_min", "S_max", "epsilon_min", "epsilon_max"]
DERIVED = ["S_a", "S_m", "epsilon_a", "epsilon_m", "R"]


def two_distinct(s):
    return len(set(s)) >= 2


def rows_of(samples, ratios, lawname, labels="0..n-1"):
    det, rec = hcm.run_detector(samples, ratios, hcm.StubLaw(lawname), labels)
    return det, rec, hcm.collective_rows(rec, len(ratios))


class C05(Prop):
    ID = "C05"
    SOURCES = hcm.SOURCES + ["src/pylife/materiallaws/notch_approximation_law.py"]
    LEAN_MODULES = ["Proofs.C05"]
    PARALLEL = 16
    THEOREMS = [
        # about the model of the code as it is (`twoPass`)
        "PylifeVerif.C05.hcm_model_eq_guideline_code",
        "PylifeVerif.C05.hcm_batch_eq_single_code",
        "PylifeVerif.C05.hcm_batch_eq_single_LF_code",
        "PylifeVerif.C05.hcm_neg_mirror_code",
        # the same for the repaired variant `twoPassR`
        "PylifeVerif.C05.hcm_model_eq_guideline",
        "PylifeVerif.C05.hcm_batch_eq_single",
        "PylifeVerif.C05.hcm_batch_eq_single_LF",
        "PylifeVerif.C05.hcm_neg_mirror",
        # the published literal: FKM guideline example 2.7.1 / table 2.24 (kernel evaluation)
        "PylifeVerif.C05.fkm_guideline_example_2_7_1_code",
        "PylifeVerif.C05.fkm_guideline_example_2_7_1",
    ]
    PARTIAL = {"PylifeVerif.C05.hcm_batch_eq_single_code": "(the same hypotheses apply to hcm_batch_eq_single_LF_code, hcm_batch_eq_single and hcm_batch_eq_single_LF) batch = single is proved for positive INTEGER factors and one Law shared by all points, under SignPreserving (a law whose secondary branch follows the sign of the load range - true for every monotone law; proved in Lean for the linear stub law, signPreserving_lawLinear); for a non-monotone law the per-column min/max selection by the first point's values can differ between points"}
    RULE = ("case = (load sequence of a reference point, integer load factors of 1-4 points - first factor 1..3, later ones 0..4, 0 = unloaded point -, "
            "one of six load_step label layouts, exact stub notch law; oracle-only cases with positive non-integer factors, and oracle-only cases with the library's binned extended Neuber law - one table column per point, half of them with every reversal on a class edge -); every column of "
            "the recorder's collective (min/max load, stress, strain, running strain extremes, closed/half flag, zero-mean flag, pass number) and the "
            "visited strain values are compared bit-exactly with the model; the Lean guideline procedure is compared with the oracle's reference "
            "procedure; oracle: reference procedure vs implementation, batch vs single, negation mirror, derived columns; non-trivial = at least one "
            "recorded hysteresis; distinct by (sequence, ratios, law); compare also checks nfirst, iz, ir, the running maximum and the model's ghost record "
            "of the reversals fed to the two passes against the reference feed")
    ASSUMPTIONS = [
        "loads/stresses/strains are integers; the notch law is a parameter: two stub laws with exact double arithmetic (linear; saturating, odd, monotone, non-linear strain). Real Binned laws: C07 (look-up) and C10 (whole assessment)",
        "the 1e-12 tolerances of fkm_nonlinear.py are inert on integers",
        "pandas glue (MultiIndex load_step/node_id selection, concat, groupby) is covered by the correspondence only; node ids are always range(n), a one-node MultiIndex Series is not fed (C10 varies node ids and row orders)",
        "derived columns (S_a, S_m, epsilon_a, epsilon_m, R with the Memory-3 overrides) and the first/second-run split of the strain values are not in the Lean model: oracle only",
        "Spec.guideline is fed the model's own ghost record of the reversals handed to the passes; the oracle's ref_feed / ref_guideline are transcriptions by the same author that repeat the code's flush rule (incl. the open C04 finding) - the reading of the procedure is pinned to the published FKM guideline example 2.7.1 / table 2.24 (C05.fkm_guideline_example_2_7_1*)",
        "notch_approximation_law.py is listed in SOURCES for its hash only: C05 runs stub laws",
        "points loaded in the opposite sense to the first point (negative load factor) are outside the quantifier: never generated, and excluded from the batch theorems (hypothesis `0 < c` for every factor); there the running strain extremes after /repo 68eb0ef are not the point's own (tools/audit/fixreview-a.md)",
    ]

    def __init__(self):
        self.stats = {"nodes": {}, "hystereses": 0, "half": 0, "law": {}}
        self.exhaustive = False

    def generate(self, rng, tier):
        maxlen = 4 if tier == "quick" else 5
        self.exhaustive = True
        self.stats["exhaustive_scope"] = (f"all sequences over {LEVELS} of length 2..{maxlen} and over 7 levels of length 2..{maxlen - 1} (>= 2 distinct values), each with ONE "
                                          "of the ratio sets [1],[1,2],[1,3,2], one of the two laws and one label layout chosen from the sequence")
        seen = set()
        for lv, ml in ((LEVELS, maxlen), ([-300, -200, -100, 0, 100, 200, 300], maxlen - 1)):
            for n in range(2, ml + 1):
                for s in itertools.product(lv, repeat=n):
                    if two_distinct(s) and s not in seen:
                        seen.add(s)
                        k = (sum(s) // 100 + n) % 3
                        lab = list(hcm.LABELS)[(sum(abs(x) for x in s) // 100 + 2 * n) % len(hcm.LABELS)]
                        yield {"kind": "seq", "law": "sat" if (s[0] // 100) % 2 else "linear", "samples": list(s), "ratios": [[1], [1, 2], [1, 3, 2]][k],
                               "labels": lab}
        nrand = 300 if tier == "quick" else 4000
        for _ in range(nrand):
            n = rng.randint(2, 12)
            # near ties: load ranges / |load| against the running maximum that differ by 1e-6 relative (exact integers):
            # the procedure's comparisons are exact, a relative tolerance decides these differently
            lv = rng.choice([[-400, -300, -200, -100, 0, 100, 200, 300, 400], [-350, -125, 0, 75, 250, 400], LEVELS, hcm.NEAR_TIE_LEVELS])
            s = [rng.choice(lv) for _ in range(n)]
            if not two_distinct(s):
                continue
            if rng.random() < 0.3:
                # positive non-integer load factors: batch = alone needs no model (oracle only)
                yield {"kind": "fratio", "law": rng.choice(["linear", "sat"]), "samples": s,
                       "ratios": [1] + [rng.choice([1.3, 0.8, 0.37, 2.9, 1e-3, 7.25]) for _ in range(rng.randint(1, 3))],
                       "labels": rng.choice(list(hcm.LABELS))}
            yield {"kind": "seq", "law": rng.choice(["linear", "sat"]), "samples": s, "ratios": rng.choice(RATIOS),
                   "labels": rng.choice(list(hcm.LABELS))}
        for _ in range(40 if tier == "quick" else 600):
            # the library's own law: binned extended Neuber with ONE look-up table column per point (oracle only: batch = alone).
            # Half of the sequences have every reversal and load range exactly on class edges of the tables (multiples of
            # max/bins), where the class of a point must be searched in that point's own column (seeded change C05-m5);
            # `round_up`: table maxima rounded up to a multiple of 100, so the columns are no multiples of each other
            bins = rng.choice([50, 100])
            top = rng.choice([400, 500, 800])
            unit = top // bins if rng.random() < 0.5 else 1
            n = rng.randint(3, 9)
            s = [rng.choice([-1, 1]) * unit * rng.randint(1, top // unit) for _ in range(n)]
            s[rng.randrange(n)] = rng.choice([-1, 1]) * top
            if two_distinct(s):
                yield {"kind": "binned", "law": "binned-extended-neuber", "samples": s, "bins": bins,
                       "ratios": [1.0] + [rng.choice([1.3, 0.8, 0.5, 2.0, 0.37]) for _ in range(rng.randint(1, 2))],
                       "round_up": rng.choice([0, 0, 100]), "labels": rng.choice(list(hcm.LABELS))}

    def model_lines(self, case):
        if case["kind"] in ("fratio", "binned"):
            return []
        t1, t2 = hcm.ref_feed(case["samples"])
        return [hcm.model_line(case["law"], case["samples"], case["ratios"]),
                f"hcmg {case['law']} {len(t1)} {' '.join(map(str, t1 + t2))}"]

    def impl_lines(self, case):
        if case["kind"] in ("fratio", "binned"):
            return []
        det, rec, rows = rows_of(case["samples"], case["ratios"], case["law"], case.get("labels", "0..n-1"))
        st = self.stats
        st.setdefault("labels", {})
        st["labels"][case.get("labels", "0..n-1")] = st["labels"].get(case.get("labels", "0..n-1"), 0) + 1
        st["nodes"][str(len(case["ratios"]))] = st["nodes"].get(str(len(case["ratios"])), 0) + 1
        st["law"][case["law"]] = st["law"].get(case["law"], 0) + 1
        st["hystereses"] += len(rows)
        st["half"] += sum(1 for r in rows if not r["is_closed_hysteresis"][0])
        # line 1: Lean guideline vs the oracle's reference guideline
        t1, t2 = hcm.ref_feed(case["samples"])
        recs, strains = hcm.ref_guideline(hcm.RefLaw(case["law"]), t1, t2)
        g = " ".join(f"{r[0]}{'C' if r[1] else 'H'}|" + "|".join(str(x) for x in r[2:]) for r in recs)
        return [hcm.canon(det, rec, len(case["ratios"])), f"recs={g};strain={' '.join(map(str, strains))}"]

    def compare(self, case, model_out, impl_out):
        m0, fed = model_out[0].rsplit(";fed=", 1)
        if m0 != impl_out[0]:
            return f"model={m0[:400]!r} impl={impl_out[0][:400]!r}"
        if model_out[1] != impl_out[1]:
            return f"Lean Spec.guideline={model_out[1][:300]!r} reference={impl_out[1][:300]!r}"
        # the model's ghost record of what the passes were fed vs the reference feed
        t1, t2 = hcm.ref_feed(case["samples"])
        want = " ".join([f"1:{x * case['ratios'][0]}" for x in t1] + [f"2:{x * case['ratios'][0]}" for x in t2])
        if fed != want:
            return f"reversals fed to the passes: model {fed!r} reference {want!r}"
        return None

    def nontrivial(self, case, model_out):
        if not model_out or model_out[0].startswith("recs=;"):
            return None
        return (tuple(case["samples"]), tuple(case["ratios"]), case["law"])

    # ------------------------------------------------------------ oracle
    def _oracle_fratio(self, case):
        s, ratios, lawname = case["samples"], case["ratios"], case["law"]
        self.stats["float_ratio_cases"] = self.stats.get("float_ratio_cases", 0) + 1
        det, rec, rows = rows_of(s, ratios, lawname, case.get("labels", "0..n-1"))
        for k, f in enumerate(ratios):
            _d, _r, single = rows_of([float(x * f) for x in s], [1], lawname)
            if len(single) != len(rows):
                return (f"point {k} (factor {f}): {len(rows)} hystereses in the batch, {len(single)} alone (sequence {s})", "batch-vs-single")
            for hb, hs in zip(rows, single):
                for c in COLS + DERIVED + ["is_closed_hysteresis", "is_zero_mean_stress_and_strain", "run_index", "epsilon_min_LF", "epsilon_max_LF"]:
                    a, b = hb[c][k], hs[c][0]
                    if not (a == b or (a != a and b != b)):
                        return (f"point {k} (factor {f}): column {c} is {a} in the batch and {b} alone (sequence {s}, factors {ratios}, law {lawname})", "batch-vs-single")
        return None

    def _oracle_binned(self, case):
        import math
        from pylife.materiallaws.notch_approximation_law import Binned, ExtendedNeuber
        s, ratios, bins = case["samples"], case["ratios"], case["bins"]
        self.stats["binned_law_cases"] = self.stats.get("binned_law_cases", 0) + 1
        base = ExtendedNeuber(206e3, 1184., 0.187, 3.5)
        top = max(abs(x) for x in s)
        maxima = [top * f for f in ratios]
        if case.get("round_up"):
            maxima = [math.ceil(m / case["round_up"]) * case["round_up"] for m in maxima]
        mser = pd.Series([float(m) for m in maxima], index=pd.Index(range(len(ratios)), name="node_id"))
        det, rec = hcm.run_detector(s, ratios, Binned(base, mser, bins), case.get("labels", "0..n-1"))
        rows = hcm.collective_rows(rec, len(ratios))
        for k, f in enumerate(ratios):
            _d, r1 = hcm.run_detector([float(x * f) for x in s], [1], Binned(base, float(maxima[k]), bins))
            single = hcm.collective_rows(r1, 1)
            if len(single) != len(rows):
                return (f"binned law, point {k} (factor {f}): {len(rows)} hystereses in the batch, {len(single)} alone (sequence {s})", "batch-vs-single")
            for hb, hs in zip(rows, single):
                for c in COLS + DERIVED + ["is_closed_hysteresis", "is_zero_mean_stress_and_strain", "run_index", "epsilon_min_LF", "epsilon_max_LF"]:
                    a, b = float(hb[c][k]), float(hs[c][0])
                    # (the tables of all points are solved in one vectorised run: last digits may differ, a class may not)
                    if not (a == b or (a != a and b != b) or abs(a - b) <= 1e-9 * max(abs(a), abs(b), 1e-6)):
                        return (f"binned extended Neuber ({bins} classes, table maxima {maxima}), point {k} (factor {f}): column {c} is {a} in the "
                                f"batch and {b} alone (sequence {s}, factors {ratios})", "batch-vs-single")
        return None

    def oracle(self, case):
        if case["kind"] == "fratio":
            return self._oracle_fratio(case)
        if case["kind"] == "binned":
            return self._oracle_binned(case)
        s, ratios, lawname = case["samples"], case["ratios"], case["law"]
        det, rec, rows = rows_of(s, ratios, lawname, case.get("labels", "0..n-1"))
        n = len(ratios)
        # (i) first point vs the reference guideline procedure fed with the reference reversal sequences
        c0 = ratios[0]
        t1, t2 = hcm.ref_feed([c0 * x for x in s])
        recs, strains = hcm.ref_guideline(hcm.RefLaw(lawname), t1, t2)
        got = [(int(r["run_index"][0]), bool(r["is_closed_hysteresis"][0]), r["loads_min"][0], r["loads_max"][0], r["S_min"][0], r["S_max"][0],
                r["epsilon_min"][0], r["epsilon_max"][0], r["epsilon_min_LF"][0], r["epsilon_max_LF"][0]) for r in rows]
        want = [tuple([r[0], r[1]] + [float(x) for x in r[2:]]) for r in recs]
        if [g[:8] for g in got] != [w[:8] for w in want]:
            return (f"hystereses differ from the guideline procedure: got {got} want {want} (sequence {s}, law {lawname})", "guideline-hysteresis")
        if got != want:
            return (f"running strain extremes differ from the guideline procedure: got {[g[8:] for g in got]} want {[w[8:] for w in want]} (sequence {s})", "guideline-LF")
        if [float(x) for x in det.strain_values] != [float(x) for x in strains]:
            return (f"visited strain values {list(det.strain_values)} != guideline {strains}", "guideline-strain-values")
        # derived columns: amplitude, mean, R with the Memory-3 overrides
        for r in rows:
            for k in range(n):
                smin, smax, emin, emax = r["S_min"][k], r["S_max"][k], r["epsilon_min"][k], r["epsilon_max"][k]
                zero = bool(r["is_zero_mean_stress_and_strain"][k])
                if bool(r["is_zero_mean_stress_and_strain"][0]) != (not bool(r["is_closed_hysteresis"][0])):
                    return ("zero-mean flag must be set exactly for half-counted hystereses", "derived-columns")
                exp = {"S_a": 0.5 * (smax - smin), "S_m": 0.0 if zero else 0.5 * (smin + smax),
                       "epsilon_a": 0.5 * (emax - emin), "epsilon_m": 0.0 if zero else 0.5 * (emin + emax)}
                for c, v in exp.items():
                    if float(r[c][k]) != v:
                        return (f"column {c} = {r[c][k]} but min/max give {v}", "derived-columns")
                rr = float(r["R"][k])
                want_r = -1.0 if zero else (smin / smax if smax != 0 else float("nan"))
                if not (rr == want_r or (rr != rr and want_r != want_r) or (smax == 0 and not zero)):
                    return (f"column R = {rr} but S_min/S_max = {want_r}", "derived-columns")
        # two detectors alive at once with alternating passes: the first one reports what it reports alone
        if len(s) <= 8:
            d2, r2 = hcm.run_two_detectors_alternately(s, ratios, hcm.StubLaw(lawname), case.get("labels", "0..n-1"))
            if hcm.canon(d2, r2, n) != hcm.canon(det, rec, n):
                return (f"a detector whose passes alternate with those of a second detector (mirrored sequence) reports "
                        f"{hcm.canon(d2, r2, n)[:300]}, alone {hcm.canon(det, rec, n)[:300]} (sequence {s}, factors {ratios})", "batch-vs-single")
        # (ii) batch = single for proportional load histories
        if n > 1:
            for k in range(n):
                if ratios[k] == 0:
                    # an unloaded point: everything it records is zero (and it must not disturb the others)
                    for hb in rows:
                        for c in COLS + ["epsilon_min_LF", "epsilon_max_LF"]:
                            if hb[c][k] != 0:
                                return (f"point {k} carries no load but column {c} is {hb[c][k]} (sequence {s}, ratios {ratios})", "batch-vs-single")
                    continue
                _d, _r, single = rows_of([ratios[k] * x for x in s], [1], lawname)
                if len(single) != len(rows):
                    return (f"point {k}: {len(rows)} hystereses in the batch, {len(single)} alone", "batch-vs-single")
                for hb, hs in zip(rows, single):
                    for c in COLS + DERIVED + ["is_closed_hysteresis", "is_zero_mean_stress_and_strain", "run_index"]:
                        a, b = hb[c][k], hs[c][0]
                        if not (a == b or (a != a and b != b)):
                            return (f"point {k} (ratio {ratios[k]}): column {c} is {a} in the batch and {b} alone (sequence {s}, law {lawname})", "batch-vs-single")
                    for c in ("epsilon_min_LF", "epsilon_max_LF"):
                        if hb[c][k] != hs[c][0]:
                            return (f"point {k} (ratio {ratios[k]}): running strain extreme {c} is {hb[c][k]} in the batch and {hs[c][0]} alone (sequence {s}, law {lawname})",
                                    "batch-LF-first-point")
        # (iii) negating the loads mirrors stresses and strains
        _d2, _r2, neg = rows_of([-x for x in s], ratios, lawname)
        if len(neg) != len(rows):
            return ("negated loads give a different number of hystereses", "negation-mirror")
        for ha, hb in zip(rows, neg):
            for cmin, cmax in (("loads_min", "loads_max"), ("S_min", "S_max"), ("epsilon_min", "epsilon_max")):
                if [-x for x in hb[cmax]] != list(ha[cmin]) or [-x for x in hb[cmin]] != list(ha[cmax]):
                    return (f"negated loads do not mirror {cmin}/{cmax}: {ha[cmin]},{ha[cmax]} vs {hb[cmin]},{hb[cmax]} (sequence {s})", "negation-mirror")
            if [-x for x in hb["epsilon_max_LF"]] != list(ha["epsilon_min_LF"]) or [-x for x in hb["epsilon_min_LF"]] != list(ha["epsilon_max_LF"]):
                return (f"negated loads do not mirror the running strain extremes: {ha['epsilon_min_LF']},{ha['epsilon_max_LF']} vs "
                        f"{hb['epsilon_min_LF']},{hb['epsilon_max_LF']} (sequence {s}, law {lawname})", "negation-mirror-LF")
            for c in ("is_closed_hysteresis", "run_index"):
                if list(ha[c]) != list(hb[c]):
                    return (f"negation changed {c}", "negation-mirror")
        return None

    def shrink(self, case, still_fails):
        cur = dict(case)
        changed = True
        while changed and len(cur["samples"]) > 2:
            changed = False
            for i in range(len(cur["samples"])):
                s = cur["samples"][:i] + cur["samples"][i + 1:]
                if two_distinct(s) and still_fails(dict(cur, samples=s)):
                    cur = dict(cur, samples=s)
                    changed = True
                    break
        return cur
