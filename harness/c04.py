"""C04: second HCM pass = steady-state hystereses of the repeated sequence."""
import itertools
import random

import numpy as np

from . import hcm
from .core import Prop

LEVELS = [-200, -100, 0, 100, 200]
LEVELS7 = [-300, -200, -100, 0, 100, 200, 300]
MULTI_RATIOS = [[1, 2], [1, 0, 2], [2, 1, 0], [1, 3, 2], [3, 0]]


def two_distinct(s):
    return len(set(s)) >= 2


class C04(Prop):
    ID = "C04"
    SOURCES = hcm.SOURCES
    LEAN_MODULES = ["Proofs.C04", "Proofs.C04PrependCode"]
    PARALLEL = 16
    THEOREMS = [
        # about the model of the code as it is (`twoPass`)
        "PylifeVerif.C04.memory3_symmetric_code",
        "PylifeVerif.C04.pass2_all_closed_code",
        "PylifeVerif.C04.pass2_eq_periodicRainflow_partial",
        "PylifeVerif.C04.pass2_eq_periodicRainflow_fails_at_witness",
        "PylifeVerif.C04.twoPass_eq_twoPassR",
        "PylifeVerif.C04.hcm_insert_nonreversal_interior_code",
        "PylifeVerif.C04.hcm_append_nonreversal_code",
        # about the repaired variant (`twoPassR`: first-run flush decided on the sequence actually continued)
        "PylifeVerif.C04.pass2_eq_periodicRainflow",
        "PylifeVerif.C04.pass2_all_closed",
        "PylifeVerif.HCM.flush_of_twoDistinct",
        # about the specification
        "PylifeVerif.C04.periodicRainflow_insert",
        "PylifeVerif.C04.periodicRainflow_rotate",
        "PylifeVerif.C04.prf_rotate",
        "PylifeVerif.C04.cyclicReversals_insert",
        "PylifeVerif.C04.cyclicReversals_rotate",
        # a sample prepended between the first sample and both 0 and the last sample is not a reversal either (code model)
        "PylifeVerif.C04.hcm_prepend_nonreversal_code",
    ]
    PARTIAL = {"PylifeVerif.C04.pass2_eq_periodicRainflow_partial": "for the code as it is, 'pass 2 = closed cycles of the repeated sequence' is proved under the decidable guard C04.FirstRunFlushes (the first run flushes its last sample); without it the statement is refuted in the kernel at [500,200,400,100] (pass2_eq_periodicRainflow_fails_at_witness) - the open known finding first-run-defers-last-sample. The full statement is proved for the repaired variant twoPassR (pass2_eq_periodicRainflow), and twoPass = twoPassR under the guard (twoPass_eq_twoPassR)."}
    RULE = ("case = load sequence (>= 2 distinct values) with an exact stub notch law; quick: all sequences over 5 load levels up to length 5 and "
            "over 7 levels up to length 4 (thorough 6 / 5) for one assessment point + seeded random sequences (<= 14 samples, integer level sets incl. "
            "near-ties that differ by 1e-6 relative, deeply nested families with 3-5 closures by one sample) incl. refinements by non-reversal "
            "samples; 'multi' cases: 2-3 proportional points (factor 0 = unloaded point allowed behind the first) x seven load_step label layouts (the exhaustive multi-point scope runs every sequence under every layout) "
            "(oracle and, through C05, correspondence); 'float' cases (oracle only): dyadic non-integer loads whose ranges differ by 2**-7 .. 2**-33; "
            "junction classes are tagged and counted; non-trivial = pass 2 records at least one hysteresis; distinct by (sequence, law) resp. "
            "(sequence, seed) for refinements")
    ASSUMPTIONS = [
        "loads/stresses/strains are modelled as integers: exact for the integer-valued stub laws used in the correspondence; the 1e-12 comparison tolerances of fkm_nonlinear.py are not a parameter of the model and no theorem carries a tolerance hypothesis (they are inert on integers; the oracle's float cases keep every gap >= 2**-33 >> 1e-12)",
        "the theorems 'pass 2 = periodic rainflow' and the refinement theorems are about one assessment point; several points are covered by the C05 batch theorem for positive integer factors and otherwise tested (multi cases)",
        "the notch approximation law is a parameter of the model; correspondence uses two stub laws (linear, saturating) whose values are exact in double arithmetic; real Binned laws are covered by C07 (look-up) and C10 (whole assessment)",
        "pandas glue of FKMNonlinearDetector/Recorder is covered by the correspondence only",
    ]

    def __init__(self):
        self.stats = {"junction": {}, "pass2_hystereses": 0, "memory3": 0, "refinements": 0}
        self.exhaustive = False

    # ------------------------------------------------------------ generation
    def generate(self, rng, tier):
        # three levels per sign are needed for some junction defects (e.g. [500, 200, 400, 100]: a last sample between its
        # predecessor and zero) - found by a prover agent while the scope still had two levels per sign
        scopes = [(LEVELS, 5), (LEVELS7, 4)] if tier == "quick" else [(LEVELS, 6), (LEVELS7, 5)]
        self.stats["exhaustive_scope"] = "; ".join(f"all sequences over {lv} of length 2..{ml} with >= 2 distinct values" for lv, ml in scopes)
        seen = set()
        for lv, maxlen in scopes:
            for n in range(2, maxlen + 1):
                for s in itertools.product(lv, repeat=n):
                    if two_distinct(s) and s not in seen:
                        seen.add(s)
                        yield {"kind": "seq", "law": "linear" if (sum(s) // 100) % 2 == 0 else "sat", "samples": list(s), "ratios": [1]}
        nrand = 250 if tier == "quick" else 4000
        for _ in range(nrand):
            n = rng.randint(2, 14)
            lv = rng.choice([[-400, -300, -200, -100, 0, 100, 200, 300, 400], [-350, -125, 0, 75, 250, 400], LEVELS])
            s = [rng.choice(lv) for _ in range(n)]
            if not two_distinct(s):
                continue
            yield {"kind": "seq", "law": rng.choice(["linear", "sat"]), "samples": s, "ratios": [1]}
            yield {"kind": "refine", "law": rng.choice(["linear", "sat"]), "samples": s, "ratios": [1], "seed": rng.randrange(1 << 30)}
            # several proportional points assessed together (the first point decides; an unloaded point - factor 0 - and any
            # layout of the load_step labels must not change what is counted at any point)
            yield {"kind": "multi", "law": rng.choice(["linear", "sat"]), "samples": s, "ratios": rng.choice(MULTI_RATIOS),
                   "labels": rng.choice(list(hcm.LABELS))}
        for _ in range(nrand // 3):
            # near ties: ranges / maxima that differ by 1e-6 relative (exact integers)
            n = rng.randint(3, 10)
            s = [rng.choice(hcm.NEAR_TIE_LEVELS) for _ in range(n)]
            if two_distinct(s):
                yield {"kind": "seq", "law": "linear", "samples": s, "ratios": [1]}
        for _ in range(nrand // 2):
            # doubles that are not integers, with load ranges that differ by 2**-7 ... 2**-33 (all values and differences exact in
            # double, every gap far above the 1e-12 the code uses as its comparison tolerance): the counting compares ranges
            # exactly; a coarser tolerance in the code decides these differently (oracle only: the model's loads are integers)
            n = rng.randint(3, 9)
            e = rng.choice([7, 20, 33])
            s = [rng.choice([0.0, 50.0, -50.0, 100.0, -100.0, 25.0]) + rng.choice([-2, -1, 0, 0, 1, 2]) * 2.0 ** -e for _ in range(n)]
            if two_distinct(s):
                yield {"kind": "float", "law": "linear", "samples": s, "ratios": [1]}
        for _ in range(nrand // 5):
            # deeply nested hystereses closed by one large excursion (residual depth 6-10, 3-5 closures by one sample)
            d = rng.randint(3, 5)
            top = 100 * (d + 2)
            s = []
            for i in range(d):
                s += [top - 100 * i, -(top - 100 * i) + 50]
            s += [rng.choice([top + 100, -(top + 100)]), rng.choice([0, 100, -100])]
            if rng.random() < 0.5:
                s = [-x for x in s]
            yield {"kind": "seq", "law": rng.choice(["linear", "sat"]), "samples": s, "ratios": [1]}
        # exhaustive small scope for the multi-point path
        for n in range(2, 5):
            for s in itertools.product(LEVELS, repeat=n):
                if two_distinct(s):
                    h = sum(abs(x) for x in s) // 100 + n
                    # every layout of the load_step labels (which hystereses share a label depends on the layout: seeded
                    # change C04-m5 shows only where the first two recorded hystereses carry the same label)
                    for li, lab in enumerate(hcm.LABELS):
                        yield {"kind": "multi", "law": "linear", "samples": list(s), "ratios": MULTI_RATIOS[(h + li) % len(MULTI_RATIOS)],
                               "labels": lab}

    def _impl_selected(self, case):
        return True

    def model_lines(self, case):
        if case["kind"] != "seq":
            return []
        return [hcm.model_line(case["law"], case["samples"], case["ratios"]), "prf " + " ".join(map(str, case["samples"]))]

    def impl_lines(self, case):
        if case["kind"] != "seq":
            return []
        det, rec = hcm.run_detector(case["samples"], case["ratios"], hcm.StubLaw(case["law"]))
        line = hcm.canon(det, rec, len(case["ratios"]))
        rows = hcm.collective_rows(rec, 1)
        self.stats["pass2_hystereses"] += sum(1 for r in rows if r["run_index"][0] == 2)
        self.stats["memory3"] += sum(1 for r in rows if not r["is_closed_hysteresis"][0])
        j = junction_class(case["samples"])
        self.stats["junction"][j] = self.stats["junction"].get(j, 0) + 1
        # second line: the Lean Spec.periodicRainflow is compared with the oracle's reference
        spec = " ".join(f"{a}:{b}" for a, b in hcm.periodic_rainflow(case["samples"]))
        return [line, spec]

    def compare(self, case, model_out, impl_out):
        # the ghost field `fed` exists only in the model
        m0 = model_out[0].rsplit(";fed=", 1)[0]
        if m0 != impl_out[0]:
            return f"model={m0[:400]!r} impl={impl_out[0][:400]!r}"
        if model_out[1] != impl_out[1]:
            return f"Lean Spec.periodicRainflow={model_out[1]!r} reference={impl_out[1]!r}"
        return None

    def nontrivial(self, case, model_out):
        if case["kind"] == "seq":
            return tuple(case["samples"]) + (case["law"],) if model_out and " 2C" in (" " + model_out[0].split(";")[0].replace("recs=", " ")) else None
        return ("refine", tuple(case["samples"]), case["seed"])

    # ------------------------------------------------------------ oracle
    def _pass2(self, samples, law):
        det, rec = hcm.run_detector(samples, [1], hcm.StubLaw(law))
        rows = hcm.collective_rows(rec, 1)
        return rows

    def _oracle_multi(self, case):
        s, law, ratios = case["samples"], case["law"], case["ratios"]
        self.stats["multi_cases"] = self.stats.get("multi_cases", 0) + 1
        det, rec = hcm.run_detector(s, ratios, hcm.StubLaw(law), case.get("labels", "0..n-1"))
        rows = hcm.collective_rows(rec, len(ratios))
        for k, f in enumerate(ratios):
            p2 = sorted((int(r["loads_min"][k]), int(r["loads_max"][k])) for r in rows if r["run_index"][k] == 2)
            want = [(f * a, f * b) for a, b in hcm.periodic_rainflow(s)]
            if p2 != want:
                return (f"point {k} (factor {f}) of {ratios}, load_step labels {case.get('labels')}: pass-2 load ranges {p2} != closed cycles of the "
                        f"repeated sequence {want} (sequence {s})", junction_failure_class(s))
            for r in rows:
                if not r["is_closed_hysteresis"][k] and r["run_index"][k] != 1:
                    return (f"point {k}: half-counted (Memory 3) hysteresis in pass {r['run_index'][k]} (sequence {s})", junction_failure_class(s))
        return None

    def oracle(self, case):
        s, law = case["samples"], case["law"]
        if case["kind"] == "multi":
            return self._oracle_multi(case)
        rows = self._pass2(s, law)
        if case["kind"] in ("seq", "float"):
            if case["kind"] == "float":
                self.stats["float_cases"] = self.stats.get("float_cases", 0) + 1
            cv = (lambda x: float(x)) if case["kind"] == "float" else (lambda x: int(x))
            p2 = sorted((cv(r["loads_min"][0]), cv(r["loads_max"][0])) for r in rows if r["run_index"][0] == 2)
            want = hcm.periodic_rainflow(s)
            if p2 != want:
                return (f"pass-2 load ranges {p2} != closed cycles of the repeated sequence {want} (sequence {s})", junction_failure_class(s, p2, law))
            for r in rows:
                if not r["is_closed_hysteresis"][0]:
                    if r["run_index"][0] != 1:
                        return (f"half-counted (Memory 3) hysteresis in pass {r['run_index'][0]} (sequence {s})", junction_failure_class(s))
                    if r["loads_min"][0] != -r["loads_max"][0] or r["S_min"][0] != -r["S_max"][0] or r["epsilon_min"][0] != -r["epsilon_max"][0]:
                        return (f"Memory-3 hysteresis not symmetric about zero: {r}", "memory3-asymmetric")
            return None
        # refinement by samples that are not reversals of the repeated sequence
        self.stats["refinements"] += 1
        r = random.Random(case["seed"])
        base = canon_rows(rows)
        # (a) interior insertions and (b) appended cyclic non-reversals: the whole collective is unchanged
        ref = refine_interior(r, s)
        got = canon_rows(self._pass2(ref, law))
        if got != base:
            return (f"refinement by interior non-reversal samples changed the recorded hystereses: {s} -> {ref}", "refinement-interior")
        lo, hi = sorted((s[-1], s[0]))
        v = r.randint(lo // 25, hi // 25) * 25
        if v == s[0] and v != s[-1]:
            # a repetition of the FIRST sample would itself be the reversal (first sample of a plateau that
            # spans the junction) and shift the phase at which pass 1 ends: not a non-reversal sample
            v = s[-1]
        ext = s + [v]
        got = canon_rows(self._pass2(ext, law))
        if got != base:
            return (f"appending a sample between last and first sample changed the recorded hystereses: {s} -> {ext}", "refinement-junction")
        # (c) prepended cyclic non-reversal: pass 2 unchanged (pass 1 starts from 0 and may see an extra excursion)
        pre = [r.randint(lo // 25, hi // 25) * 25] + s
        p2 = lambda rows_: sorted((int(x["loads_min"][0]), int(x["loads_max"][0])) for x in rows_ if x["run_index"][0] == 2)
        if p2(self._pass2(pre, law)) != p2(rows):
            return (f"prepending a sample between last and first sample changed the pass-2 hystereses: {s} -> {pre}", "refinement-junction")
        return None

    def shrink(self, case, still_fails):
        cur = dict(case)
        changed = True
        while changed and len(cur["samples"]) > 2:
            changed = False
            for i in range(len(cur["samples"])):
                s = cur["samples"][:i] + cur["samples"][i + 1:]
                if two_distinct(s) and still_fails(dict(cur, samples=s)):
                    cur = dict(cur, samples=s)
                    changed = True
                    break
        return cur


def canon_rows(rows):
    return [tuple((k, tuple(float(x) for x in v)) for k, v in sorted(r.items())) for r in rows]


def refine_interior(r, s):
    out = []
    for i, v in enumerate(s):
        out.append(v)
        if i + 1 < len(s) and r.random() < 0.6:
            lo, hi = sorted((v, s[i + 1]))
            vals = sorted(r.randint(lo // 25, hi // 25) * 25 for _ in range(r.randint(1, 3)))
            vals = [min(max(x, lo), hi) for x in vals]
            if s[i + 1] < v:
                vals.reverse()
            out.extend(vals)
    return out


def last_is_periodic_reversal(s):
    from pylife.stress.rainflow.general import find_turns
    idx, _ = find_turns(np.asarray(list(s) + list(s), dtype=float))
    return (len(s) - 1) in idx


def junction_class(s):
    tags = []
    tags.append("last-periodic-reversal" if last_is_periodic_reversal(s) else "last-not-reversal")
    if s[-1] == s[-2]:
        tags.append("trailing-plateau")
    if s[0] == s[1]:
        tags.append("leading-plateau")
    if s[0] == s[-1]:
        tags.append("first=last")
    if min(0, s[0]) < s[-1] < max(0, s[0]):
        tags.append("last-between-0-and-first")
    return ",".join(tags)


def junction_failure_class(s, p2=None, law="linear"):
    if not hcm.first_run_flushes(s):
        # open known finding: the first run defers its last sample to the second run.  For an integer one-point pass-2 mismatch it
        # is the recorded finding only if the pass-2 hystereses are exactly those the documented mechanism yields (reference
        # procedure fed the way the code feeds its two runs, deferred sample included); anything else on such a sequence is a
        # different failure.  For multi-point, float and Memory-3-outside-pass-1 failures the class is tied to the guard alone
        # (the bit-exact correspondence pins the behaviour there)
        if p2 is not None and all(float(x) == int(x) for x in s):
            t1, t2 = hcm.ref_feed([int(x) for x in s])
            recs, _ = hcm.ref_guideline(hcm.RefLaw(law), t1, t2)
            mech = sorted((r[2], r[3]) for r in recs if r[0] == 2)
            if sorted(p2) != mech:
                return "pass2-not-periodic-rainflow"
        return "first-run-defers-last-sample"
    return "junction-last-not-periodic-reversal" if not last_is_periodic_reversal(s) else "pass2-not-periodic-rainflow"
